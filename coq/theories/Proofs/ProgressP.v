(** Progress of the transmitter (C04 "always terminates", C12 "at least once"): once its deadline or
    separation time has passed, a transmit pass never leaves an active request where it was -
    it emits the next frame (and the bytes left to send strictly decrease), or completes or aborts
    the request. *)
From IsoTp Require Import Base.Prelude Model.Layer Proofs.Inv.

Lemma consume_empty_depleted n r r' : 0 <= r_remaining r ->
  consume n false r = (Some [], r') -> (n <= 0 -> r_remaining r <= 0) -> r_is_depleted r' = true.
Proof.
  intros Hrem. unfold consume. pose proof (gen_take_length n (r_gen r)) as Hl.
  destruct (gen_take n (r_gen r)) as [data g']. cbn [fst] in Hl. cbn.
  destruct (Z.ltb_spec (r_size r) (r_consumed r + zlen data)); [discriminate|].
  destruct (Z.ltb_spec (zlen data) n) as [Hlt|Hge].
  - intros E _. injection E as E1 <-. unfold r_is_depleted. cbn. apply orb_true_r.
  - intros E Hn. injection E as E1 <-. subst data. rewrite zlen_nil in *.
    unfold r_is_depleted, r_remaining in *. cbn in *. apply orb_true_iff. left. apply Z.leb_le. lia.
Qed.

(** TRANSMIT_CF: separation time elapsed and the rate limiter allows the next frame: the pass emits a
    frame or ends the request (the transmitter is idle again) - it never stays put. *)
Theorem cf_progress c a s evs rbs r :
  remote_bs s = Some rbs -> active s = Some r -> 0 <= r_remaining r -> 0 < p_tx_dl (c_p c) - 1 - zlen (c_tx_prefix c) ->
  timer_timed_out (now s) (timer_tx_stmin s) = true ->
  Z.min (p_tx_dl (c_p c) - 1 - zlen (c_tx_prefix c)) (r_remaining r) <= a ->
  tr_crash (tx_cf c a s evs) = false ->
  tr_msg (tx_cf c a s evs) <> None \/ tx_state (tr_s (tx_cf c a s evs)) = TxIdle.
Proof.
  intros Hrb Hact Hrem Hcap Hto Ha.
  assert (Hli : forall p n s0, tx_state (lim_inform p n s0) = tx_state s0).
  { intros p n s0. unfold lim_inform. destruct (negb (p_lim_enable p)); [auto|].
    destruct (lim_times s0); [cbn; auto|]. destruct (SLOT_NS <? _); cbn; auto. }
  unfold tx_cf. rewrite Hrb, Hact, Hto.
  destruct (Z.leb_spec (Z.min (p_tx_dl (c_p c) - 1 - zlen (c_tx_prefix c)) (r_remaining r)) a) as [_|H]; [|lia].
  set (n := Z.min _ _).
  destruct (consume n false r) as [[payload|] r'] eqn:Ec; [|cbn; discriminate].
  destruct (Z.ltb_spec 0 (zlen payload)) as [Hpos|Hz].
  - destruct (make_tx_msg _ _ _) as [mm|]; [|cbn; discriminate]. intros _. left.
    destruct (r_is_depleted r').
    + destruct (0 <? r_remaining r'); unfold stop_sending, tx_finish; cbv beta iota; cbn [tr_msg mk_tr]; discriminate.
    + destruct (negb (rbs =? 0) && _); unfold tx_finish; cbn [tr_msg mk_tr]; discriminate.
  - intros _. right.
    assert (Hp : payload = []) by (destruct payload; [reflexivity|rewrite zlen_cons in Hz; pose proof (zlen_nonneg payload); lia]).
    subst payload.
    rewrite (consume_empty_depleted n r r' Hrem Ec) by (subst n; lia).
    destruct (0 <? r_remaining r'); unfold stop_sending, tx_finish; cbv beta iota; cbn; reflexivity.
Qed.

(** ... and when a Consecutive Frame leaves, the bytes still to send strictly decrease: at most
    [size] passes emit frames for one request *)
Theorem cf_decreases c a s evs rbs r m :
  remote_bs s = Some rbs -> active s = Some r -> tr_msg (tx_cf c a s evs) = Some m ->
  match active (tr_s (tx_cf c a s evs)) with
  | Some r' => r_id r' = r_id r /\ r_remaining r' < r_remaining r
  | None => True
  end.
Proof.
  intros Hrb Hact.
  assert (Hli : forall p n s0, active (lim_inform p n s0) = active s0).
  { intros p n s0. unfold lim_inform. destruct (negb (p_lim_enable p)); [auto|].
    destruct (lim_times s0); [cbn; auto|]. destruct (SLOT_NS <? _); cbn; auto. }
  unfold tx_cf. rewrite Hrb, Hact.
  destruct (timer_timed_out _ _); [|unfold tx_finish; discriminate].
  destruct (_ <=? a); [|unfold tx_finish; discriminate].
  match goal with |- context [consume ?n false r] => pose proof (consume_facts n false r) as Hcf;
    destruct (consume n false r) as [[payload|] r'] eqn:Ec end; [|discriminate].
  specialize (Hcf _ _ eq_refl). destruct Hcf as (Hid & Hsz & _ & _ & Hcf). destruct (Hcf payload eq_refl) as (H1 & _).
  destruct (Z.ltb_spec 0 (zlen payload)) as [Hpos|Hz].
  - destruct (make_tx_msg _ _ _) as [mm|]; [|discriminate]. intros _.
    destruct (r_is_depleted r').
    + destruct (0 <? r_remaining r'); unfold stop_sending, tx_finish; cbv beta iota; cbn [tr_s mk_tr]; rewrite Hli; cbn; exact I.
    + destruct (negb (rbs =? 0) && _); unfold tx_finish; cbn [tr_s mk_tr]; rewrite Hli; cbn;
        (split; [exact Hid|unfold r_remaining; lia]).
  - destruct (r_is_depleted r').
    + destruct (0 <? r_remaining r'); unfold stop_sending, tx_finish; cbv beta iota; cbn; discriminate.
    + destruct (negb (rbs =? 0) && _); unfold tx_finish; cbn; discriminate.
Qed.
