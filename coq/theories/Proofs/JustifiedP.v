(** C05 / C11: whatever frames arrive, in whatever order, every payload the receiver delivers
    is justified by them: it is the data of one Single Frame, or the data of one First Frame
    followed by the data of Consecutive Frames that were accepted after it, in order, with
    consecutive sequence numbers, cut at the announced length - never a mixture of two messages,
    never reordered, never shorter than announced. *)
From IsoTp Require Import Base.Prelude Model.Micro Proofs.DuplexP.

Section J.
Variable c : cfg.
Let k := c_rx_prefix_size c.

Definition dec (f : frame) : option pdu := option_map d_pdu (pdu_decode (f_data f) k).

(** [cfs_from i fs datas]: the frames [fs] decode as Consecutive Frames numbered i, i+1, ...
    (mod 16) carrying [datas] *)
Fixpoint cfs_from (i : Z) (fs : list frame) (datas : list (list Z)) : Prop :=
  match fs, datas with
  | [], [] => True
  | f :: fr, d :: dr => dec f = Some (PCF (i mod 16) d) /\ cfs_from (i + 1) fr dr
  | _, _ => False
  end.

Definition justified (fs : list frame) (p : list Z) : Prop :=
  (exists f esc len, fs = [f] /\ dec f = Some (PSF esc len p)) \/
  (exists ff cfs lastf esc L first datas lastd,
      fs = ff :: cfs ++ [lastf] /\ dec ff = Some (PFF esc L first) /\
      cfs_from 1 (cfs ++ [lastf]) (datas ++ [lastd]) /\
      p = (first ++ concat datas) ++ ztake (L - zlen (first ++ concat datas)) lastd /\
      L <= zlen p).

(** ghost: the frames that built the reception in progress *)
Definition Ginv (s : layer) (G : list frame) : Prop :=
  rx_state s = RxWaitCF ->
  0 <= last_seqnum s <= 15 /\
  exists ff cfs esc first datas,
    G = ff :: cfs /\ dec ff = Some (PFF esc (rx_frame_length s) first) /\
    cfs_from 1 cfs datas /\ rx_buffer s = first ++ concat datas /\
    last_seqnum s = zlen cfs mod 16.

Definition gnext (s : layer) (G : list frame) (f : frame) : list frame :=
  let s' := rr_s (process_rx c s f) in
  match rx_state s' with
  | RxIdle => []
  | RxWaitCF =>
      match dec f with
      | Some (PFF _ _ _) => [f]
      | Some (PCF _ _) => if last_seqnum s' =? last_seqnum s then G else G ++ [f]
      | _ => G
      end
  end.

(** the frames behind a delivery made by this step *)
Definition gsource (G : list frame) (f : frame) : list frame :=
  match dec f with Some (PSF _ _ _) => [f] | _ => G ++ [f] end.

Lemma cfs_from_snoc i fs datas f d :
  cfs_from i fs datas -> dec f = Some (PCF ((i + zlen fs) mod 16) d) -> cfs_from i (fs ++ [f]) (datas ++ [d]).
Proof.
  revert i datas. induction fs as [|g fr IH]; intros i datas H Hd; destruct datas as [|e dr]; cbn in H; try contradiction.
  - cbn. rewrite zlen_nil, Z.add_0_r in Hd. auto.
  - destruct H as [H1 H2]. cbn. split; [exact H1|]. apply IH; [exact H2|].
    rewrite zlen_cons in Hd. rewrite <- Z.add_assoc. exact Hd.
Qed.

Lemma ztake_all' {A} (a : list A) n : zlen a <= n -> ztake n a = a.
Proof. intros H. unfold ztake, zlen in *. apply firstn_all2. lia. Qed.

Lemma land_next j : 0 <= j -> Z.land (j mod 16 + 1) 0xF = (1 + j) mod 16.
Proof.
  intros Hj. change 0xF with (Z.ones 4). rewrite Z.land_ones by lia. change (2 ^ 4) with 16.
  rewrite (Z.add_comm (j mod 16) 1). apply Zplus_mod_idemp_r.
Qed.

Lemma start_reception_cases s len data rxdl :
  let '(s2, evs, started) := start_reception_after_ff c s len data rxdl in
  rx_queue s2 = rx_queue s /\
  ((rx_state s2 = RxIdle) \/
   (rx_state s2 = RxWaitCF /\ rx_frame_length s2 = len /\ rx_buffer s2 = data /\ last_seqnum s2 = 0)).
Proof.
  unfold start_reception_after_ff. destruct (negb (valid_rxdl rxdl)); [cbn; auto|].
  destruct (p_max_frame_size _ <? len); cbn; auto 10.
Qed.

(** One frame through _process_rx. *)
Theorem jstep s G f : Ginv s G ->
  let s' := rr_s (process_rx c s f) in
  Ginv s' (gnext s G f) /\
  (rx_queue s' = rx_queue s \/
   exists p, rx_queue s' = rx_queue s ++ [p] /\ justified (gsource G f) p).
Proof.
  intros HG. unfold gnext, gsource, dec. cbv zeta. unfold Ginv.
  unfold process_rx. fold k.
  destruct (pdu_decode (f_data f) k) as [d|] eqn:Ed; cbn [option_map].
  2: { cbn. split; [intros H; discriminate|left; reflexivity]. }
  destruct (d_pdu d) as [esc l data|esc len data|sn data|fs bs st] eqn:Ep.
  - (* Single Frame *)
    destruct ((8 <? d_can_dl d) && negb esc).
    + cbn [rr_s mk_rr]. split; [|left; reflexivity].
      destruct (rx_state s) eqn:Est; [intros H; discriminate|intros _; exact (HG Est)].
    + destruct (rx_state s) eqn:Est; cbn; rewrite ?Est.
      * split; [intros H; discriminate|]. right. exists data. split; [reflexivity|].
        left. exists f, esc, l. split; [reflexivity|]. unfold dec. fold k. rewrite Ed. cbn. rewrite Ep. reflexivity.
      * split; [intros H; discriminate|]. right. exists data. split; [reflexivity|].
        left. exists f, esc, l. split; [reflexivity|]. unfold dec. fold k. rewrite Ed. cbn. rewrite Ep. reflexivity.
  - (* First Frame *)
    cbn match.
    assert (Hdec : dec f = Some (PFF esc len data)) by (unfold dec; fold k; rewrite Ed; cbn; rewrite Ep; reflexivity).
    destruct (rx_state s) eqn:Est.
    + match goal with |- context [start_reception_after_ff c ?s0 len data ?r] =>
        pose proof (start_reception_cases s0 len data r) as Hc; destruct (start_reception_after_ff c s0 len data r) as [[s2 evs] started] end.
      cbn [rr_s mk_rr]. destruct Hc as [Hq Hc]. split; [|left; exact Hq].
      destruct Hc as [Hi|(Hw & Hl & Hb & Hs)]; [rewrite Hi; intros H; discriminate|].
      rewrite Hw. intros _. split; [rewrite Hs; lia|].
      exists f, [], esc, data, []. cbn. rewrite Hl, Hb, Hs, app_nil_r. auto.
    + match goal with |- context [start_reception_after_ff c ?s0 len data ?r] =>
        pose proof (start_reception_cases s0 len data r) as Hc; destruct (start_reception_after_ff c s0 len data r) as [[s2 evs] started] end.
      cbn [rr_s mk_rr]. destruct Hc as [Hq Hc]. split; [|left; exact Hq].
      destruct Hc as [Hi|(Hw & Hl & Hb & Hs)]; [rewrite Hi; intros H; discriminate|].
      rewrite Hw. intros _. split; [rewrite Hs; lia|].
      exists f, [], esc, data, []. cbn. rewrite Hl, Hb, Hs, app_nil_r. auto.
  - (* Consecutive Frame *)
    cbn match.
    assert (Hdec : dec f = Some (PCF sn data)) by (unfold dec; fold k; rewrite Ed; cbn; rewrite Ep; reflexivity).
    destruct (rx_state s) eqn:Est.
    + cbn. rewrite ?Est. split; [intros H; discriminate|left; reflexivity].
    + destruct (HG Est) as (Hrange & ff & cfs & esc & first & datas & HGe & Hff & Hcfs & Hbuf & Hseq).
      destruct (Z.eqb_spec sn (Z.land (last_seqnum s + 1) 0xF)) as [Hsn|Hsn].
      2: { cbn. split; [intros H; discriminate|left; reflexivity]. }
      destruct (negb (opt_eqb (Some (d_rx_dl d)) (actual_rxdl s)) && _).
      { cbn [rr_s mk_rr]. rewrite Est, Z.eqb_refl. split; [intros _; exact (HG Est)|left; reflexivity]. }
      assert (Hsn' : sn = (1 + zlen cfs) mod 16).
      { rewrite Hsn, Hseq. apply land_next. apply zlen_nonneg. }
      assert (Hcfs' : cfs_from 1 (cfs ++ [f]) (datas ++ [data])).
      { apply cfs_from_snoc; [exact Hcfs|]. rewrite Hdec, Hsn'. reflexivity. }
      cbn [rx_frame_length rx_buffer start_rx_cf_timer set RecordSet.set last_seqnum].
      match goal with |- context [if ?b then _ else _] => destruct b eqn:Edone end.
      * (* the message is complete: delivered *)
        cbn. split; [intros H; discriminate|]. right.
        exists (rx_buffer s ++ ztake (rx_frame_length s - zlen (rx_buffer s)) data). split; [reflexivity|].
        right. exists ff, cfs, f, esc, (rx_frame_length s), first, datas, data.
        rewrite HGe. split; [reflexivity|]. split; [exact Hff|]. split; [exact Hcfs'|].
        rewrite <- Hbuf. split; [reflexivity|]. apply Z.leb_le in Edone. exact Edone.
      * (* more to come *)
        assert (Hne : sn <> last_seqnum s).
        { rewrite Hsn. change 0xF with (Z.ones 4). rewrite Z.land_ones by lia. change (2 ^ 4) with 16.
          intros E. pose proof (Z.mod_pos_bound (last_seqnum s + 1) 16 ltac:(lia)) as Hb.
          destruct (Z.eq_dec (last_seqnum s) 15) as [E15|N15].
          - rewrite E15 in E. cbn in E. lia.
          - rewrite Z.mod_small in E by lia. lia. }
        assert (Hnew : Ginv (s <| timer_rx_cf := timer_start (now s) (new_timer (p_tcr_ns (c_p c))) |> <| last_seqnum := sn |>
                               <| rx_buffer := rx_buffer s ++ ztake (rx_frame_length s - zlen (rx_buffer s)) data |>)
                            (G ++ [f]) -> True) by auto.
        clear Hnew.
        assert (Htake : ztake (rx_frame_length s - zlen (rx_buffer s)) data = data).
        { apply Z.leb_gt in Edone. rewrite zlen_app in Edone.
          destruct (Z_le_gt_dec (rx_frame_length s - zlen (rx_buffer s)) 0) as [Hn|Hn].
          - exfalso. unfold ztake in Edone. replace (Z.to_nat (rx_frame_length s - zlen (rx_buffer s))) with 0%nat in Edone by lia.
            cbn in Edone. lia.
          - rewrite zlen_ztake in Edone by lia. apply ztake_all'. lia. }
        match goal with |- context [if ?b then _ else _] => destruct b end.
        all: cbn [rr_s mk_rr]; unfold request_tx_fc, start_rx_cf_timer; cbn; rewrite ?Est.
        all: destruct (Z.eqb_spec sn (last_seqnum s)) as [E|_]; [contradiction|].
        all: split; [|left; reflexivity]; intros _.
        all: split; [rewrite Hsn'; pose proof (Z.mod_pos_bound (1 + zlen cfs) 16 ltac:(lia)); lia|].
        all: exists ff, (cfs ++ [f]), esc, first, (datas ++ [data]).
        all: rewrite HGe, Htake, Hbuf, concat_app, zlen_app, zlen_cons, zlen_nil; cbn [concat]; rewrite app_nil_r, <- app_assoc.
        all: repeat split; auto.
        all: rewrite Hsn'; f_equal; lia.
  - (* Flow Control *)
    cbn [rr_s mk_rr]. split; [|left; reflexivity].
    cbn. destruct (rx_state s) eqn:Est; [intros H; discriminate|]. intros _. apply HG. exact Est.
Qed.

(** *** Whole runs of micro-steps *)
Definition rx4 (s : layer) := (rx_state s, rx_frame_length s, rx_buffer s, last_seqnum s).

Lemma Ginv_keep s s' G : rx4 s' = rx4 s \/ rx_state s' = RxIdle ->
  Ginv s G -> Ginv s' (match rx_state s' with RxIdle => [] | RxWaitCF => G end).
Proof.
  intros [E|E] HG.
  - unfold rx4 in E. injection E as E1 E2 E3 E4. unfold Ginv. rewrite E1, E2, E3, E4.
    destruct (rx_state s) eqn:Est; [intros H; discriminate|]. intros _. exact (HG Est).
  - unfold Ginv. rewrite E. intros H; discriminate.
Qed.

Lemma rx4_other (s : layer) (m : micro) : (forall f, m <> MRx f) ->
  rx4 (fst (mstep c s m)) = rx4 s \/ rx_state (fst (mstep c s m)) = RxIdle.
Proof.
  intros Hn. destruct m; cbn [mstep fst].
  - unfold check_timeouts_rx. destruct (timer_timed_out _ _); [right|left]; reflexivity.
  - exfalso. eapply Hn. reflexivity.
  - left. unfold lim_update. destruct (negb _); [reflexivity|]. destruct (lim_pop _ _ _ _ _) as [[a b] t]. reflexivity.
  - left. unfold process_tx.
    assert (Hm : forall a s1, rx4 (tr_s (process_tx_main c a s1)) = rx4 s1).
    { intros a s1. pose proof (tx_preserves_rx c a s1) as H. unfold rxv in H.
      pose proof (f_equal (fun '(_, st, b, fl, sq, _, _, _, _, _, _) => (st, fl, b, sq)) H) as H'. cbv beta iota in H'. exact H'. }
    destruct (pending_fc s); [|apply Hm].
    destruct (negb (p_listen (c_p c))).
    + destruct (opt_eqb _ _); (destruct (pending_fc_status _) as [st|]; [destruct (make_flow_control c st)|]); reflexivity.
    + rewrite Hm. destruct (opt_eqb _ _); reflexivity.
  - left. unfold send. destruct (size <? 0); [reflexivity|]. destruct (_ <? size); [reflexivity|].
    destruct (match match t with Some x => x | None => _ end with Functional => _ | Physical => _ end); reflexivity.
  - left. unfold recv. destruct (rx_queue s); reflexivity.
  - left. reflexivity.
  - right. reflexivity.
  - right. reflexivity.
  - left. reflexivity.
Qed.

Definition gmicro (s : layer) (G : list frame) (m : micro) : list frame :=
  match m with
  | MRx f => gnext s G f
  | _ => match rx_state (fst (mstep c s m)) with RxIdle => [] | RxWaitCF => G end
  end.

(** the deliveries of a run, each with the frames it was built from *)
Fixpoint jrun (s : layer) (G : list frame) (ms : list micro) : list (list frame * list Z) :=
  match ms with
  | [] => []
  | m :: rest =>
      let s' := fst (mstep c s m) in
      (match m with
       | MRx f => match skipn (length (rx_queue s)) (rx_queue s') with p :: _ => [(gsource G f, p)] | [] => [] end
       | _ => []
       end) ++ jrun s' (gmicro s G m) rest
  end.

Theorem justified_run : forall ms s G, Ginv s G ->
  Forall (fun d => justified (fst d) (snd d)) (jrun s G ms).
Proof.
  induction ms as [|m rest IH]; intros s G HG; cbn [jrun]; [constructor|].
  apply Forall_app. split.
  - destruct m as [|f| | |g size t| | | | |d]; try constructor.
    destruct (jstep s G f HG) as [_ [Hq|(p & Hq & Hj)]]; cbn [mstep fst]; rewrite Hq.
    + rewrite skipn_all. constructor.
    + rewrite skipn_app, skipn_all, Nat.sub_diag. cbn. constructor; [exact Hj|constructor].
  - apply IH. destruct m as [|f| | |g size t| | | | |d]; cbn [gmicro]; try (apply (Ginv_keep s); [apply rx4_other; intros; discriminate|exact HG]).
    exact (proj1 (jstep s G f HG)).
Qed.

(** From the initial state: every delivery of every run is justified. *)
Corollary justified_from_init t0 ms :
  Forall (fun d => justified (fst d) (snd d)) (jrun (init_layer c t0) [] ms).
Proof. apply justified_run. unfold Ginv. cbn. intros H; discriminate. Qed.

(** ... and a frame step appends to the reception queue exactly what [jrun] records *)
Lemma jrun_records s G f : Ginv s G ->
  let s' := rr_s (process_rx c s f) in
  rx_queue s' = rx_queue s ++ map snd (match skipn (length (rx_queue s)) (rx_queue s') with p :: _ => [(gsource G f, p)] | [] => [] end).
Proof.
  intros HG. destruct (jstep s G f HG) as [_ [Hq|(p & Hq & Hj)]]; cbv zeta; rewrite Hq.
  - rewrite skipn_all. cbn. rewrite app_nil_r. reflexivity.
  - rewrite skipn_app, skipn_all, Nat.sub_diag. reflexivity.
Qed.

End J.
