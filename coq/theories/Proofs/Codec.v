(** Decoder facts: what PDU.__init__ makes of well-formed frames. *)
From IsoTp Require Import Base.Prelude Base.Bits Model.Pdu.

Lemma hnb_of b0 t x : b0 = t * 16 + x -> 0 <= t < 16 -> 0 <= x < 16 ->
  Z.land (Z.shiftr b0 4) 0xF = t /\ Z.land b0 0xF = x.
Proof.
  intros -> Ht Hx. rewrite !land_F, shiftr_div by lia. change (2 ^ 4) with 16.
  split.
  - replace (t * 16 + x) with (x + t * 16) by lia. rewrite Z.div_add by lia.
    rewrite Z.div_small by lia. rewrite Z.mod_small; lia.
  - replace (t * 16 + x) with (x + t * 16) by lia. rewrite Z.mod_add by lia. apply Z.mod_small; lia.
Qed.

Lemma zdrop_app_exact {A} (a b : list A) n : n = zlen a -> zdrop n (a ++ b) = b.
Proof.
  intros ->. unfold zdrop, zlen. rewrite Nat2Z.id. rewrite skipn_app, skipn_all, Nat.sub_diag. reflexivity.
Qed.

Lemma ztake_app_exact {A} (a b : list A) n : n = zlen a -> ztake n (a ++ b) = a.
Proof.
  intros ->. unfold ztake, zlen. rewrite Nat2Z.id. rewrite firstn_app, firstn_all, Nat.sub_diag. simpl. apply app_nil_r.
Qed.

Lemma ztake_all {A} (a : list A) n : zlen a <= n -> ztake n a = a.
Proof. intros H. unfold ztake, zlen in *. apply firstn_all2. lia. Qed.

(** Consecutive Frame *)
Lemma decode_cf pre sn body k :
  zlen pre = k -> 0 <= sn < 16 ->
  pdu_decode (pre ++ (0x20 + sn) :: body) k =
    Some {| d_pdu := PCF sn body; d_can_dl := zlen (pre ++ (0x20 + sn) :: body);
            d_rx_dl := Z.max 8 (zlen (pre ++ (0x20 + sn) :: body)) |}.
Proof.
  intros Hk Hsn. unfold pdu_decode.
  assert (Hl : zlen (pre ++ (32 + sn) :: body) <? k = false).
  { apply Z.ltb_ge. rewrite zlen_app, zlen_cons. pose proof (zlen_nonneg body). lia. }
  rewrite Hl. rewrite (zdrop_app_exact pre _ k) by (symmetry; exact Hk).
  destruct (hnb_of (32 + sn) 2 sn) as [H1 H2]; [lia|lia|lia|].
  rewrite H1, H2. cbn [Z.ltb Z.eqb Z.compare Pos.compare Pos.compare_cont].
  unfold zdrop. cbn [Z.to_nat Pos.to_nat Pos.iter_op Nat.add skipn]. reflexivity.
Qed.

(** First Frame, 12-bit length *)
Lemma decode_ff_short pre n body k :
  zlen pre = k -> 0 < n <= 4095 ->
  pdu_decode (pre ++ (0x10 + n / 256) :: (n mod 256) :: body) k =
    Some {| d_pdu := PFF false n (ztake (Z.min n (zlen body)) body);
            d_can_dl := zlen (pre ++ (0x10 + n / 256) :: (n mod 256) :: body);
            d_rx_dl := Z.max 8 (zlen (pre ++ (0x10 + n / 256) :: (n mod 256) :: body)) |}.
Proof.
  intros Hk Hn. unfold pdu_decode.
  pose proof (zlen_nonneg body) as Hb.
  assert (Hl : zlen (pre ++ (16 + n / 256) :: n mod 256 :: body) <? k = false).
  { apply Z.ltb_ge. rewrite zlen_app, !zlen_cons. lia. }
  rewrite Hl. rewrite (zdrop_app_exact pre _ k) by (symmetry; exact Hk).
  assert (Hq : 0 <= n / 256 < 16) by (split; [apply Z.div_pos; lia|apply Z.div_lt_upper_bound; lia]).
  destruct (hnb_of (16 + n / 256) 1 (n / 256)) as [H1 H2]; [lia|lia|lia|].
  rewrite H1, H2. cbn [Z.ltb Z.eqb Z.compare Pos.compare Pos.compare_cont].
  assert (Hd : zlen ((16 + n / 256) :: n mod 256 :: body) <? 2 = false).
  { apply Z.ltb_ge. rewrite !zlen_cons. lia. }
  rewrite Hd. unfold byte_at. cbn [nth].
  assert (Hlp : Z.lor (Z.shiftl (n / 256) 8) (n mod 256) = n).
  { rewrite shiftl_mul by lia. change (2 ^ 8) with 256.
    rewrite lor_mul_pow2_add with (n := 8) by (try lia; apply Z.mod_pos_bound; lia).
    change (2 ^ 8) with 256. pose proof (Z.div_mod n 256). lia. }
  rewrite Hlp.
  destruct (Z.eqb_spec n 0) as [E|_]; [lia|]. cbn [negb].
  rewrite !zlen_cons. replace (1 + (1 + zlen body) - 2) with (zlen body) by lia.
  unfold zdrop. cbn [Z.to_nat Pos.to_nat Pos.iter_op Nat.add skipn]. reflexivity.
Qed.

Lemma lor_shl8 a b : 0 <= b < 256 -> Z.lor (Z.shiftl a 8) b = a * 256 + b.
Proof. intros H. rewrite shiftl_mul by lia. rewrite (lor_mul_pow2_add a b 8) by (change (2^8) with 256; lia). reflexivity. Qed.

Lemma lor_shl_factor a b n : 0 <= n -> Z.lor (Z.shiftl a (n + 8)) (Z.shiftl b n) = Z.shiftl (Z.lor (Z.shiftl a 8) b) n.
Proof. intros Hn. rewrite Z.shiftl_lor. rewrite Z.shiftl_shiftl by lia. replace (8 + n) with (n + 8) by lia. reflexivity. Qed.

Lemma lor4_bytes b3 b2 b1 b0 : 0 <= b2 < 256 -> 0 <= b1 < 256 -> 0 <= b0 < 256 ->
  Z.lor (Z.lor (Z.lor (Z.shiftl b3 24) (Z.shiftl b2 16)) (Z.shiftl b1 8)) b0 =
  ((b3 * 256 + b2) * 256 + b1) * 256 + b0.
Proof.
  intros H2 H1 H0.
  change 24 with (16 + 8). rewrite lor_shl_factor by lia. rewrite lor_shl8 by lia.
  change 16 with (8 + 8). rewrite lor_shl_factor by lia. rewrite lor_shl8 by lia.
  rewrite lor_shl8 by lia. reflexivity.
Qed.

Lemma bytes32 n : 0 <= n < 2 ^ 32 ->
  (((n / 16777216) mod 256 * 256 + (n / 65536) mod 256) * 256 + (n / 256) mod 256) * 256 + n mod 256 = n.
Proof.
  intros H.
  assert (E3 : (n / 16777216) mod 256 = n / 16777216).
  { apply Z.mod_small. split; [apply Z.div_pos; lia|apply Z.div_lt_upper_bound; lia]. }
  rewrite E3.
  pose proof (Z.div_mod n 256 ltac:(lia)) as D0.
  pose proof (Z.div_mod (n / 256) 256 ltac:(lia)) as D1.
  pose proof (Z.div_mod (n / 256 / 256) 256 ltac:(lia)) as D2.
  rewrite !Z.div_div in D2 by lia. rewrite Z.div_div in D1 by lia.
  change (256 * 256) with 65536 in *. change (65536 * 256) with 16777216 in *. lia.
Qed.

(** First Frame, 32-bit escape length *)
Lemma decode_ff_long pre n body k :
  zlen pre = k -> 4095 < n < 2 ^ 32 ->
  pdu_decode (pre ++ 0x10 :: 0 :: (n / 16777216) mod 256 :: (n / 65536) mod 256 :: (n / 256) mod 256 :: n mod 256 :: body) k =
    Some {| d_pdu := PFF true n (ztake (Z.min n (zlen body)) body);
            d_can_dl := zlen (pre ++ 0x10 :: 0 :: (n / 16777216) mod 256 :: (n / 65536) mod 256 :: (n / 256) mod 256 :: n mod 256 :: body);
            d_rx_dl := Z.max 8 (zlen (pre ++ 0x10 :: 0 :: (n / 16777216) mod 256 :: (n / 65536) mod 256 :: (n / 256) mod 256 :: n mod 256 :: body)) |}.
Proof.
  intros Hk Hn. unfold pdu_decode.
  pose proof (zlen_nonneg body) as Hb.
  set (data := pre ++ _).
  assert (Hl : zlen data <? k = false).
  { apply Z.ltb_ge. subst data. rewrite zlen_app, !zlen_cons. lia. }
  rewrite Hl. subst data. rewrite (zdrop_app_exact pre _ k) by (symmetry; exact Hk).
  destruct (hnb_of 16 1 0) as [H1 H2]; [lia|lia|lia|].
  rewrite H1, H2. cbn [Z.ltb Z.eqb Z.compare Pos.compare Pos.compare_cont].
  rewrite !zlen_cons.
  destruct (Z.ltb_spec (1 + (1 + (1 + (1 + (1 + (1 + zlen body)))))) 2); [lia|].
  unfold byte_at. cbn [nth].
  change (Z.lor (Z.shiftl 0 8) 0) with 0. cbn [Z.eqb negb].
  destruct (Z.ltb_spec (1 + (1 + (1 + (1 + (1 + (1 + zlen body)))))) 6); [lia|].
  rewrite lor4_bytes by (apply Z.mod_pos_bound; lia).
  rewrite bytes32 by lia.
  replace (1 + (1 + (1 + (1 + (1 + (1 + zlen body))))) - 6) with (zlen body) by lia.
  unfold zdrop. cbn [Z.to_nat Pos.to_nat Pos.iter_op Nat.add skipn]. reflexivity.
Qed.

(** Single Frame, length in the first byte *)
Lemma decode_sf_short pre n payload pad k :
  zlen pre = k -> zlen payload = n -> 1 <= n <= 15 ->
  pdu_decode (pre ++ n :: payload ++ pad) k =
    Some {| d_pdu := PSF false n payload;
            d_can_dl := zlen (pre ++ n :: payload ++ pad);
            d_rx_dl := Z.max 8 (zlen (pre ++ n :: payload ++ pad)) |}.
Proof.
  intros Hk Hp Hn. unfold pdu_decode.
  pose proof (zlen_nonneg pad) as Hb.
  assert (Hl : zlen (pre ++ n :: payload ++ pad) <? k = false).
  { apply Z.ltb_ge. rewrite zlen_app, zlen_cons, zlen_app. lia. }
  rewrite Hl. rewrite (zdrop_app_exact pre _ k) by (symmetry; exact Hk).
  destruct (hnb_of n 0 n) as [H1 H2]; [lia|lia|lia|].
  rewrite H1, H2. cbn [Z.ltb Z.eqb Z.compare Pos.compare Pos.compare_cont].
  destruct (Z.eqb_spec n 0); [lia|]. cbn [negb].
  rewrite zlen_cons, zlen_app.
  destruct (Z.ltb_spec (1 + (zlen payload + zlen pad) - 1) n); [lia|].
  change (zdrop 1 (n :: payload ++ pad)) with (payload ++ pad).
  rewrite (ztake_app_exact payload pad n) by (symmetry; exact Hp). reflexivity.
Qed.

(** Single Frame with escape sequence *)
Lemma decode_sf_escape pre n payload pad k :
  zlen pre = k -> zlen payload = n -> 1 <= n ->
  pdu_decode (pre ++ 0 :: n :: payload ++ pad) k =
    Some {| d_pdu := PSF true n payload;
            d_can_dl := zlen (pre ++ 0 :: n :: payload ++ pad);
            d_rx_dl := Z.max 8 (zlen (pre ++ 0 :: n :: payload ++ pad)) |}.
Proof.
  intros Hk Hp Hn. unfold pdu_decode.
  pose proof (zlen_nonneg pad) as Hb.
  assert (Hl : zlen (pre ++ 0 :: n :: payload ++ pad) <? k = false).
  { apply Z.ltb_ge. rewrite zlen_app, !zlen_cons, zlen_app. lia. }
  rewrite Hl. rewrite (zdrop_app_exact pre _ k) by (symmetry; exact Hk).
  destruct (hnb_of 0 0 0) as [H1 H2]; [lia|lia|lia|].
  rewrite H1, H2. cbn [Z.ltb Z.eqb Z.compare Pos.compare Pos.compare_cont negb].
  rewrite !zlen_cons, zlen_app.
  destruct (Z.ltb_spec (1 + (1 + (zlen payload + zlen pad))) 2); [lia|].
  unfold byte_at. cbn [nth].
  destruct (Z.eqb_spec n 0); [lia|].
  destruct (Z.ltb_spec (1 + (1 + (zlen payload + zlen pad)) - 2) n); [lia|].
  change (zdrop 2 (0 :: n :: payload ++ pad)) with (payload ++ pad).
  rewrite (ztake_app_exact payload pad n) by (symmetry; exact Hp). reflexivity.
Qed.

(** Flow Control *)
Lemma decode_fc pre fs bs st rest k :
  zlen pre = k -> 0 <= fs < 3 -> stmin_valid st = true ->
  pdu_decode (pre ++ (0x30 + fs) :: bs :: st :: rest) k =
    Some {| d_pdu := PFC fs bs st;
            d_can_dl := zlen (pre ++ (0x30 + fs) :: bs :: st :: rest);
            d_rx_dl := Z.max 8 (zlen (pre ++ (0x30 + fs) :: bs :: st :: rest)) |}.
Proof.
  intros Hk Hfs Hst. unfold pdu_decode.
  pose proof (zlen_nonneg rest) as Hb.
  assert (Hl : zlen (pre ++ (48 + fs) :: bs :: st :: rest) <? k = false).
  { apply Z.ltb_ge. rewrite zlen_app, !zlen_cons. lia. }
  rewrite Hl. rewrite (zdrop_app_exact pre _ k) by (symmetry; exact Hk).
  destruct (hnb_of (48 + fs) 3 fs) as [H1 H2]; [lia|lia|lia|].
  rewrite H1, H2. cbn [Z.ltb Z.eqb Z.compare Pos.compare Pos.compare_cont].
  rewrite !zlen_cons.
  destruct (Z.ltb_spec (1 + (1 + (1 + zlen rest))) 3); [lia|].
  destruct (Z.leb_spec 3 fs); [lia|].
  unfold byte_at. cbn [nth]. rewrite Hst. reflexivity.
Qed.
