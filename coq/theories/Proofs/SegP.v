(** The reference segmentation (Spec/Segment.v) of any payload is a well-formed stream in the
    sense of Spec/Stream.v for a receiver that strips as many prefix bytes as the sender adds.
    With RxP.rx_stream this gives the end-to-end statement of C01: whatever the reference
    segmentation puts on the bus is reassembled to exactly the payload. *)
From IsoTp Require Import Base.Prelude Model.Layer Spec.ConfigSpec Spec.FrameSpec Spec.Segment Spec.Stream
  Proofs.FramesP Proofs.Codec Proofs.TxP.

Lemma zdrop_zdrop {A} a b (l : list A) : 0 <= a -> 0 <= b -> zdrop a (zdrop b l) = zdrop (b + a) l.
Proof. intros Ha Hb. unfold zdrop. rewrite skipn_skipn'. f_equal. lia. Qed.

Lemma zseq_cons from count : 0 <= from -> 1 <= count -> zseq from count = from :: zseq (from + 1) (count - 1).
Proof.
  intros Hf Hc. unfold zseq.
  replace (Z.to_nat count) with (S (Z.to_nat (count - 1))) by lia.
  cbn [seq map]. rewrite Z2Nat.id by lia. f_equal.
  replace (Z.to_nat (from + 1)) with (S (Z.to_nat from)) by lia. reflexivity.
Qed.

Lemma zseq_nil from count : count <= 0 -> zseq from count = [].
Proof. intros H. unfold zseq. replace (Z.to_nat count) with 0%nat by lia. reflexivity. Qed.

Section Seg.
Variable c : cfg.
Hypothesis Hok : params_ok (c_p c).

Let p := c_p c.
Let pfx := tx_prefix (c_txa c).
Let plen := zlen pfx.
Let tx_dl := p_tx_dl p.

Lemma sp_plen : 0 <= plen <= 1.
Proof. exact (plen_bounds c). Qed.

Lemma sp_dl : tx_dl = 8 \/ tx_dl = 12 \/ tx_dl = 16 \/ tx_dl = 20 \/ tx_dl = 24 \/ tx_dl = 32 \/ tx_dl = 48 \/ tx_dl = 64.
Proof. exact (tx_dl_in c Hok). Qed.

(** data field of a reference frame: the unpadded data followed by padding, total length = the padding target *)
Lemma spec_frame_data id d : 2 <= zlen d <= tx_dl -> (tx_dl = 8 -> zlen d <= 8) ->
  f_data (spec_frame c id d) = d ++ zrepeat (pad_byte p) (pad_target p (zlen d) - zlen d) /\
  zlen d <= pad_target p (zlen d) <= tx_dl.
Proof.
  intros H1 H2. split; [reflexivity|].
  destruct (pad_message_data_spec p d Hok H1 H2) as (_ & H & _). exact H.
Qed.

Lemma pad_target_full : pad_target p tx_dl = tx_dl.
Proof.
  pose proof sp_dl as Hdl. destruct Hok as (_ & Hml & _).
  unfold pad_target. fold tx_dl.
  destruct (Z.eqb_spec tx_dl 8) as [E|E].
  - destruct (p_tx_min_len p) as [m|] eqn:Em.
    + destruct (Hml m Em) as (_ & Hle). fold p tx_dl in Hle. lia.
    + destruct (p_tx_padding p); lia.
  - assert (Hn : next_fd tx_dl = tx_dl).
    { unfold next_fd. repeat match goal with |- context [?a <=? ?b] => destruct (Z.leb_spec a b) end; lia. }
    rewrite Hn. destruct (p_tx_min_len p) as [m|] eqn:Em; [|reflexivity].
    destruct (Hml m Em) as (_ & Hle). fold p tx_dl in Hle. lia.
Qed.

Lemma zrepeat_nonpos {A} (x : A) n : n <= 0 -> zrepeat x n = [].
Proof. intros H. unfold zrepeat. replace (Z.to_nat n) with 0%nat by lia. reflexivity. Qed.

Lemma spec_frame_full id d : zlen d = tx_dl -> f_data (spec_frame c id d) = d.
Proof.
  intros H. unfold spec_frame. cbn [f_data]. fold p. rewrite H, pad_target_full.
  rewrite zrepeat_nonpos by lia. apply app_nil_r.
Qed.

(** Consecutive Frames number j, j+1, ... carrying what is left of the payload *)
Lemma seg_cfs id payload : forall (m : nat) j off,
  1 <= j -> 0 <= off -> off < zlen payload ->
  Z.of_nat m = (zlen payload - off + cf_cap c - 1) / cf_cap c ->
  (forall i, 0 <= i -> ff_cap c (zlen payload) + (j + i - 1) * cf_cap c = off + i * cf_cap c) ->
  wf_cfs plen tx_dl j (zdrop off payload)
    (map f_data (map (fun i => spec_frame c id (cf_data c payload i)) (zseq j (Z.of_nat m)))).
Proof.
  pose proof sp_plen as Hp. pose proof sp_dl as Hdl.
  assert (Hcf : cf_cap c = tx_dl - 1 - plen) by reflexivity.
  induction m as [|m IH]; intros j off Hj Hoff Hlt Hm Hpos.
  - exfalso. assert (1 <= (zlen payload - off + cf_cap c - 1) / cf_cap c); [|lia].
    apply Z.div_le_lower_bound; lia.
  - rewrite zseq_cons by lia. cbn [map].
    assert (Hoffj : ff_cap c (zlen payload) + (j - 1) * cf_cap c = off).
    { specialize (Hpos 0 ltac:(lia)). replace (j + 0 - 1) with (j - 1) in Hpos by lia. lia. }
    assert (Hd : cf_data c payload j = pfx ++ [0x20 + j mod 16] ++ ztake (cf_cap c) (zdrop off payload)).
    { unfold cf_data. cbv zeta. rewrite Hoffj. reflexivity. }
    set (rest := zdrop off payload) in *.
    assert (Hlr : zlen rest = zlen payload - off) by (subst rest; rewrite zlen_zdrop by lia; lia).
    destruct (Z_le_gt_dec (zlen rest) (cf_cap c)) as [Hlast|Hmore].
    + (* last frame *)
      assert (Hm0 : Z.of_nat (S m) = 1).
      { rewrite Hm. rewrite <- Hlr. symmetry. apply Z.div_unique with (r := zlen rest - 1); lia. }
      replace (Z.of_nat (S m) - 1) with 0 by lia. rewrite zseq_nil by lia. cbn [map].
      rewrite Hd, ztake_all by exact Hlast.
      assert (Hlen : zlen (pfx ++ [32 + j mod 16] ++ rest) = plen + 1 + zlen rest).
      { rewrite !zlen_app, zlen_cons, zlen_nil. fold plen. lia. }
      destruct (spec_frame_data id (pfx ++ [32 + j mod 16] ++ rest)) as (Hfd & Hpt).
      { rewrite Hlen. lia. } { rewrite Hlen. lia. }
      rewrite Hfd.
      set (padl := zrepeat (pad_byte p) (pad_target p (zlen (pfx ++ [32 + j mod 16] ++ rest)) - zlen (pfx ++ [32 + j mod 16] ++ rest))).
      assert (Hpl : zlen padl = pad_target p (plen + 1 + zlen rest) - (plen + 1 + zlen rest)).
      { subst padl. rewrite zlen_zrepeat, Hlen. rewrite Hlen in Hpt. lia. }
      rewrite Hlen in Hpt.
      replace ((pfx ++ [32 + j mod 16] ++ rest) ++ padl) with (pfx ++ (32 + j mod 16) :: rest ++ padl)
        by (rewrite <- !app_assoc; reflexivity).
      apply cfs_last.
      * reflexivity.
      * intros E. rewrite E in Hlr. cbn in Hlr. lia.
      * lia.
      * replace (pfx ++ (32 + j mod 16) :: rest ++ padl) with ((pfx ++ [32 + j mod 16] ++ rest) ++ padl)
          by (rewrite <- !app_assoc; reflexivity).
        rewrite zlen_app, Hlen, Hpl. lia.
    + (* a full frame, more follow *)
      set (chunk := ztake (cf_cap c) rest).
      assert (Hlc : zlen chunk = cf_cap c) by (subst chunk; rewrite zlen_ztake by lia; lia).
      assert (Hfull : zlen (pfx ++ [32 + j mod 16] ++ chunk) = tx_dl).
      { rewrite !zlen_app, zlen_cons, zlen_nil. fold plen. lia. }
      rewrite Hd. fold chunk. rewrite spec_frame_full by exact Hfull.
      replace (pfx ++ [32 + j mod 16] ++ chunk) with (pfx ++ (32 + j mod 16) :: chunk) by reflexivity.
      assert (Hsplit : rest = chunk ++ zdrop (off + cf_cap c) payload).
      { subst chunk rest. rewrite <- (zdrop_zdrop (cf_cap c) off) by lia. symmetry. apply ztake_zdrop. }
      rewrite Hsplit at 1.
      apply cfs_more.
      * reflexivity.
      * lia.
      * intros E. assert (Hz : zlen (zdrop (off + cf_cap c) payload) = 0) by (rewrite E; reflexivity).
        rewrite zlen_zdrop in Hz by lia. lia.
      * replace (Z.of_nat (S m) - 1) with (Z.of_nat m) by lia.
        apply IH; try lia.
        assert (E : zlen payload - off + cf_cap c - 1 = (zlen payload - (off + cf_cap c) + cf_cap c - 1) + 1 * cf_cap c) by lia.
        rewrite E, Z.div_add in Hm by lia. lia.
Qed.

Theorem seg_wf t payload : 1 <= zlen payload < 2 ^ 32 ->
  wf_stream plen payload (map f_data (seg c t payload)).
Proof.
  intros Hn. pose proof sp_plen as Hp. pose proof sp_dl as Hdl.
  unfold seg. cbv zeta. fold pfx.
  destruct (sf_short_ok c (zlen payload)) eqn:Eshort.
  - (* short Single Frame *)
    unfold sf_short_ok in Eshort. fold pfx plen p in Eshort.
    apply andb_true_iff in Eshort. destruct Eshort as [E1 E2]. apply Z.leb_le in E1, E2.
    cbn [map].
    assert (Hlen : zlen (pfx ++ [zlen payload] ++ payload) = plen + 1 + zlen payload).
    { rewrite !zlen_app, zlen_cons, zlen_nil. fold plen. lia. }
    destruct (spec_frame_data (tx_arb_id (c_txa c) t) (pfx ++ [zlen payload] ++ payload)) as (Hfd & Hpt).
    { rewrite Hlen. lia. } { rewrite Hlen. lia. }
    rewrite Hfd.
    set (padl := zrepeat (pad_byte p) (pad_target p (zlen (pfx ++ [zlen payload] ++ payload)) - zlen (pfx ++ [zlen payload] ++ payload))).
    assert (Hpl : zlen padl = pad_target p (plen + 1 + zlen payload) - (plen + 1 + zlen payload)).
    { subst padl. rewrite zlen_zrepeat, Hlen. rewrite Hlen in Hpt. lia. }
    rewrite Hlen in Hpt.
    replace ((pfx ++ [zlen payload] ++ payload) ++ padl) with (pfx ++ zlen payload :: payload ++ padl)
      by (rewrite <- !app_assoc; reflexivity).
    apply st_sf_short.
    + reflexivity.
    + lia.
    + replace (pfx ++ zlen payload :: payload ++ padl) with ((pfx ++ [zlen payload] ++ payload) ++ padl)
        by (rewrite <- !app_assoc; reflexivity).
      rewrite zlen_app, Hlen, Hpl. lia.
  - destruct (sf_escape_ok c (zlen payload)) eqn:Eesc.
    + (* Single Frame with escape sequence *)
      unfold sf_escape_ok in Eesc. fold pfx plen p tx_dl in Eesc.
      apply andb_true_iff in Eesc. destruct Eesc as [E1 E2]. apply Z.ltb_lt in E1. apply Z.leb_le in E2.
      cbn [map].
      assert (Hlen : zlen (pfx ++ [0; zlen payload] ++ payload) = plen + 2 + zlen payload).
      { rewrite !zlen_app, !zlen_cons, zlen_nil. fold plen. lia. }
      destruct (spec_frame_data (tx_arb_id (c_txa c) t) (pfx ++ [0; zlen payload] ++ payload)) as (Hfd & Hpt).
      { rewrite Hlen. lia. } { rewrite Hlen. lia. }
      rewrite Hfd.
      set (padl := zrepeat (pad_byte p) (pad_target p (zlen (pfx ++ [0; zlen payload] ++ payload)) - zlen (pfx ++ [0; zlen payload] ++ payload))).
      assert (Hpl : zlen padl = pad_target p (plen + 2 + zlen payload) - (plen + 2 + zlen payload)).
      { subst padl. rewrite zlen_zrepeat, Hlen. rewrite Hlen in Hpt. lia. }
      replace ((pfx ++ [0; zlen payload] ++ payload) ++ padl) with (pfx ++ 0 :: zlen payload :: payload ++ padl)
        by (rewrite <- !app_assoc; reflexivity).
      apply st_sf_escape.
      * reflexivity.
      * lia.
      * replace (pfx ++ 0 :: zlen payload :: payload ++ padl) with ((pfx ++ [0; zlen payload] ++ payload) ++ padl)
          by (rewrite <- !app_assoc; reflexivity).
        rewrite zlen_app, Hlen, Hpl. rewrite Hlen in Hpt. split; [|lia].
        (* longer than 8 bytes: otherwise the short form would have been legal *)
        destruct (Z_le_gt_dec (plen + 2 + zlen payload) 8) as [Hsm|]; [|lia].
        unfold sf_short_ok in Eshort. fold pfx plen p in Eshort.
        apply andb_false_iff in Eshort. destruct Eshort as [E|E]; [apply Z.leb_gt in E; lia|].
        apply Z.leb_gt in E. unfold pad_target in E, Hpt |- *. fold tx_dl in E, Hpt |- *.
        destruct (Z.eqb_spec tx_dl 8); [lia|].
        assert (N1 : next_fd (plen + 1 + zlen payload) = plen + 1 + zlen payload).
        { unfold next_fd. destruct (Z.leb_spec (plen + 1 + zlen payload) 8); [reflexivity|lia]. }
        assert (N2 : next_fd (plen + 2 + zlen payload) = plen + 2 + zlen payload).
        { unfold next_fd. destruct (Z.leb_spec (plen + 2 + zlen payload) 8); [reflexivity|lia]. }
        rewrite N1 in E. rewrite N2.
        destruct (p_tx_min_len p); lia.
    + (* First Frame + Consecutive Frames *)
      assert (Hns : is_single c (zlen payload) = false) by (unfold is_single; rewrite Eshort, Eesc; reflexivity).
      destruct (start_first c Hok (init_layer c 0) 0 payload [] t 0 Hn Hns) as (_ & Hff & _).
      cbn [map].
      set (n := zlen payload) in *.
      assert (Hhdr : zlen (ff_header n) = tx_dl - plen - ff_cap c n).
      { unfold ff_header, ff_cap. fold p tx_dl pfx plen. destruct (n <=? 4095); rewrite !zlen_cons, zlen_nil; lia. }
      assert (Hfull : zlen (pfx ++ ff_header n ++ ztake (ff_cap c n) payload) = tx_dl).
      { rewrite !zlen_app, zlen_ztake by lia. fold plen n. lia. }
      rewrite spec_frame_full by exact Hfull.
      apply st_multi with (T := tx_dl) (rest := zdrop (ff_cap c n) payload).
      * destruct Hok as (H & _). exact H.
      * reflexivity.
      * symmetry. apply ztake_zdrop.
      * intros E. assert (Hz : zlen (zdrop (ff_cap c n) payload) = 0) by (rewrite E; reflexivity).
        rewrite zlen_zdrop in Hz by lia. fold n in Hz. lia.
      * fold n. lia.
      * exact Hfull.
      * assert (Hc : 0 <= n_cf c n).
        { unfold n_cf. apply Z.div_pos; unfold cf_cap; fold p tx_dl pfx plen; lia. }
        rewrite <- (Z2Nat.id (n_cf c n)) by exact Hc.
        apply seg_cfs; try lia.
        -- rewrite Z2Nat.id by exact Hc. reflexivity.
        -- intros i Hi. fold n. replace (1 + i - 1) with i by lia. reflexivity.
Qed.

End Seg.
