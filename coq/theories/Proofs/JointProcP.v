(** process() inside the joint system.  One call of process() (any fuel, do_rx / do_tx flags) by one
    side, with the frames in flight toward it as its inbox, is a list of joint steps of that side -
    timeout checks, deliveries of the oldest frame in flight, limiter updates and transmit passes - with
    exactly the same resulting layer state, the same frames left in flight, the same events, and the
    frames it handed to txfn appended, in order, to the frames in flight toward the peer.  Hence every
    theorem about lists of joint steps (Proofs/JointP.v) holds for every interleaving of process()
    calls of the two sides. *)
From IsoTp Require Import Base.Prelude Model.Micro Model.Joint Spec.ConfigSpec Proofs.Events Proofs.MicroP Proofs.WireP Proofs.JointP Proofs.TokenP.

(** the net seen from side [sd]: its layer, its inbox, the peer's inbox, the peer's layer *)
Definition mk (sd : side) (s : layer) (inb outb : list frame) (so : layer) : net :=
  match sd with
  | SA => {| nA := s; nB := so; inA := inb; inB := outb |}
  | SB => {| nA := so; nB := s; inA := outb; inB := inb |}
  end.

Lemma mk_view sd n : n = mk sd (lay sd n) (inbox sd n) (inbox (other sd) n) (lay (other sd) n).
Proof. destruct sd, n; reflexivity. Qed.

Section JP.
Variables ca cb : cfg.

Lemma jstep_mk_step sd s inb outb so m :
  jstep ca cb (mk sd s inb outb so) (JStep sd m) =
  (mk sd (fst (mstep (cfg_of ca cb sd) s m)) inb (outb ++ out_frames (snd (mstep (cfg_of ca cb sd) s m))) so,
   map (JE sd) (snd (mstep (cfg_of ca cb sd) s m)) ++ user_obs sd (cfg_of ca cb sd) s m).
Proof. destruct sd; cbn [jstep mk lay cfg_of nA nB]; destruct (mstep _ s m); reflexivity. Qed.

Lemma jstep_mk_pop_nil sd s outb so : jstep ca cb (mk sd s [] outb so) (JPop sd) = (mk sd s [] outb so, []).
Proof. destruct sd; reflexivity. Qed.

Lemma jstep_mk_pop sd s f inb outb so :
  jstep ca cb (mk sd s (f :: inb) outb so) (JPop sd) =
  if c_is_for_me (cfg_of ca cb sd) f
  then (mk sd (fst (mstep (cfg_of ca cb sd) s (MRx f))) inb outb so, map (JE sd) (snd (mstep (cfg_of ca cb sd) s (MRx f))))
  else (mk sd s inb outb so, []).
Proof.
  destruct sd; cbn [jstep mk lay inbox cfg_of nA nB inA inB]; destruct (c_is_for_me _ f); try reflexivity;
    destruct (mstep _ s (MRx f)); reflexivity.
Qed.

Lemma jrun_app n ops1 : forall ops2,
  jrun ca cb n (ops1 ++ ops2) =
  let '(n1, e1) := jrun ca cb n ops1 in let '(n2, e2) := jrun ca cb n1 ops2 in (n2, e1 ++ e2).
Proof.
  revert n. induction ops1 as [|o r IH]; intros n ops2; cbn [app jrun].
  - destruct (jrun ca cb n ops2); reflexivity.
  - destruct (jstep ca cb n o) as [n1 e1]. rewrite IH.
    destruct (jrun ca cb n1 r) as [n2 e2]. destruct (jrun ca cb n2 ops2) as [n3 e3]. rewrite app_assoc. reflexivity.
Qed.

(** steps one process() call of side [sd] is made of *)
Definition proc_jop (sd : side) (o : jop) : Prop :=
  o = JPop sd \/ o = JStep sd MCheck \/ o = JStep sd MLim \/ o = JStep sd MTx.

Variable sd : side.
Let c := cfg_of ca cb sd.

Lemma check_out s : out_frames (snd (check_timeouts_rx s)) = [].
Proof. unfold check_timeouts_rx. destruct (timer_timed_out _ _); reflexivity. Qed.

(** reception loop *)
Lemma rx_loop_joint inbox : forall s evs st outb so,
  exists ops enew,
    Forall (proc_jop sd) ops /\
    snd (fst (rx_loop c inbox s evs st)) = evs ++ enew /\ out_frames enew = [] /\
    jrun ca cb (mk sd s inbox outb so) ops =
      (mk sd (snd (fst (fst (rx_loop c inbox s evs st)))) (fst (fst (fst (rx_loop c inbox s evs st)))) outb so, map (JE sd) enew).
Proof.
  induction inbox as [|f rest IH]; intros s evs st outb so; cbn [rx_loop].
  - pose proof (jstep_mk_step sd s [] outb so MCheck) as Hj. fold c in Hj. cbn [mstep user_obs] in Hj.
    pose proof (check_out s) as Hco.
    destruct (check_timeouts_rx s) as [s1 e1]. cbn [fst snd] in *.
    exists [JStep sd MCheck], e1. split; [constructor; [right; left; reflexivity|constructor]|].
    split; [reflexivity|]. split; [exact Hco|].
    cbn [jrun]. rewrite Hj, Hco, !app_nil_r. reflexivity.
  - pose proof (jstep_mk_step sd s (f :: rest) outb so MCheck) as Hj. fold c in Hj. cbn [mstep user_obs] in Hj.
    pose proof (check_out s) as Hco.
    destruct (check_timeouts_rx s) as [s1 e1]. cbn [fst snd] in *. rewrite Hco, !app_nil_r in Hj.
    pose proof (jstep_mk_pop sd s1 f rest outb so) as Hp. fold c in Hp. cbn [mstep fst snd] in Hp.
    destruct (c_is_for_me c f) eqn:Efm.
    + pose proof (rx_ok_no_frame _ (process_rx_evs c s1 f)) as Hno.
      destruct (rr_imm_tx (process_rx c s1 f)) eqn:Ei.
      * exists [JStep sd MCheck; JPop sd], (e1 ++ rr_evs (process_rx c s1 f)).
        split; [constructor; [right; left; reflexivity|constructor; [left; reflexivity|constructor]]|].
        split; [cbn [fst snd]; reflexivity|]. split; [rewrite out_frames_app, Hco, Hno; reflexivity|].
        cbn [jrun fst snd]. rewrite Hj, Hp, app_nil_r, map_app. reflexivity.
      * match goal with |- context [rx_loop c rest ?s' ?e' ?st'] =>
          destruct (IH s' e' st' outb so) as (ops & enew & Hf & He & Hn & Hr) end.
        exists (JStep sd MCheck :: JPop sd :: ops), (e1 ++ rr_evs (process_rx c s1 f) ++ enew).
        split; [constructor; [right; left; reflexivity|constructor; [left; reflexivity|exact Hf]]|].
        split; [rewrite He, <- !app_assoc; reflexivity|].
        split; [rewrite !out_frames_app, Hco, Hno, Hn; reflexivity|].
        cbn [jrun]. rewrite Hj, Hp, Hr, !map_app. reflexivity.
    + match goal with |- context [rx_loop c rest ?s' ?e' ?st'] =>
        destruct (IH s' e' st' outb so) as (ops & enew & Hf & He & Hn & Hr) end.
      exists (JStep sd MCheck :: JPop sd :: ops), (e1 ++ enew).
      split; [constructor; [right; left; reflexivity|constructor; [left; reflexivity|exact Hf]]|].
      split; [rewrite He, <- !app_assoc; reflexivity|].
      split; [rewrite out_frames_app, Hco, Hn; reflexivity|].
      cbn [jrun]. rewrite Hj, Hp, Hr, map_app. reflexivity.
Qed.

(** transmission loop *)
Lemma tx_loop_joint fuel : forall s evs st inb outb so,
  exists k enew,
    snd (fst (fst (tx_loop fuel c s evs st))) = evs ++ enew /\
    jrun ca cb (mk sd s inb outb so) (repeat (JStep sd MTx) k) =
      (mk sd (fst (fst (fst (tx_loop fuel c s evs st)))) inb (outb ++ out_frames enew) so, map (JE sd) enew).
Proof.
  induction fuel as [|fuel IH]; intros s evs st inb outb so; cbn [tx_loop].
  - exists 0%nat, []. cbn. rewrite !app_nil_r. auto.
  - pose proof (jstep_mk_step sd s inb outb so MTx) as Hj. fold c in Hj. cbn [mstep user_obs fst snd] in Hj. rewrite app_nil_r in Hj.
    assert (Hone : jrun ca cb (mk sd s inb outb so) (repeat (JStep sd MTx) 1) =
              (mk sd (tr_s (process_tx c s)) inb (outb ++ out_frames (tx_events (process_tx c s))) so, map (JE sd) (tx_events (process_tx c s)))).
    { cbn [repeat jrun]. rewrite Hj, app_nil_r. reflexivity. }
    destruct (tr_crash (process_tx c s)) eqn:Ec.
    + exists 1%nat, (tx_events (process_tx c s)). split; [|exact Hone].
      cbn [fst snd]. unfold tx_events. rewrite Ec, app_nil_r. reflexivity.
    + destruct (tr_msg (process_tx c s)) as [m|] eqn:Em.
      * destruct (tr_imm_rx (process_tx c s)) eqn:Ei.
        -- exists 1%nat, (tx_events (process_tx c s)). split; [|exact Hone].
           cbn [fst snd]. unfold tx_events. rewrite Ec, Em, <- ?app_assoc. reflexivity.
        -- match goal with |- context [tx_loop fuel c ?s' ?e' ?st'] =>
             destruct (IH s' e' st' inb (outb ++ out_frames (tx_events (process_tx c s))) so) as (k & enew & He & Hr) end.
           exists (S k), (tx_events (process_tx c s) ++ enew). split.
           ++ rewrite He. unfold tx_events. rewrite Ec, Em, <- ?app_assoc. reflexivity.
           ++ cbn [repeat jrun]. rewrite Hj, Hr, out_frames_app, map_app, <- app_assoc. reflexivity.
      * exists 1%nat, (tx_events (process_tx c s)). split; [|destruct (tr_imm_rx (process_tx c s)); exact Hone].
        unfold tx_events. rewrite Ec, Em, app_nil_r. destruct (tr_imm_rx (process_tx c s)); reflexivity.
Qed.

Lemma Forall_repeat' {A} (P : A -> Prop) x k : P x -> Forall P (repeat x k).
Proof. intros H; induction k; cbn; constructor; auto. Qed.

Theorem process_joint fuel do_rx do_tx : forall s inb outb so evs st,
  let r := process_loop fuel c do_rx do_tx {| w_l := s; w_inbox := inb |} evs st in
  exists ops enew,
    Forall (proc_jop sd) ops /\
    snd (fst (fst r)) = evs ++ enew /\
    jrun ca cb (mk sd s inb outb so) ops =
      (mk sd (w_l (fst (fst (fst r)))) (w_inbox (fst (fst (fst r)))) (outb ++ out_frames enew) so, map (JE sd) enew).
Proof.
  induction fuel as [|fuel IH]; intros s inb outb so evs st; cbn [process_loop].
  - exists [], []. cbn. rewrite !app_nil_r. auto.
  - cbv zeta. cbn [w_l w_inbox].
    set (swt := do_tx && negb (is_nil (tx_queue s)) && rxst_eqb (rx_state s) RxIdle && txst_eqb (tx_state s) TxIdle).
    (* reception part *)
    assert (Hrx : exists ops1 e1,
      Forall (proc_jop sd) ops1 /\
      snd (fst (if do_rx && negb swt then rx_loop c inb s evs st else (inb, s, evs, st))) = evs ++ e1 /\ out_frames e1 = [] /\
      jrun ca cb (mk sd s inb outb so) ops1 =
        (mk sd (snd (fst (fst (if do_rx && negb swt then rx_loop c inb s evs st else (inb, s, evs, st)))))
               (fst (fst (fst (if do_rx && negb swt then rx_loop c inb s evs st else (inb, s, evs, st))))) outb so, map (JE sd) e1)).
    { destruct (do_rx && negb swt).
      - apply rx_loop_joint.
      - exists [], []. cbn. rewrite app_nil_r. auto. }
    destruct Hrx as (ops1 & e1 & Hf1 & He1 & Hn1 & Hr1).
    destruct (if do_rx && negb swt then rx_loop c inb s evs st else (inb, s, evs, st)) as [[[inbox1 s1] evs1] st1].
    cbn [fst snd] in He1, Hr1. subst evs1.
    (* limiter update *)
    pose proof (jstep_mk_step sd s1 inbox1 outb so MLim) as Hl. fold c in Hl. cbn [mstep user_obs fst snd out_frames flat_map map app] in Hl.
    rewrite app_nil_r in Hl.
    (* transmission part *)
    assert (Htx : exists ops2 e2,
      Forall (proc_jop sd) ops2 /\
      snd (fst (fst (if do_tx then tx_loop fuel c (lim_update (c_p c) s1) (evs ++ e1) st1
                     else (lim_update (c_p c) s1, evs ++ e1, st1, LEnd)))) = (evs ++ e1) ++ e2 /\
      jrun ca cb (mk sd (lim_update (c_p c) s1) inbox1 outb so) ops2 =
        (mk sd (fst (fst (fst (if do_tx then tx_loop fuel c (lim_update (c_p c) s1) (evs ++ e1) st1
                               else (lim_update (c_p c) s1, evs ++ e1, st1, LEnd))))) inbox1 (outb ++ out_frames e2) so, map (JE sd) e2)).
    { destruct do_tx.
      - destruct (tx_loop_joint fuel (lim_update (c_p c) s1) (evs ++ e1) st1 inbox1 outb so) as (k & en & He & Hr).
        exists (repeat (JStep sd MTx) k), en. split; [apply Forall_repeat'; right; right; right; reflexivity|]. split; assumption.
      - exists [], []. cbn. rewrite !app_nil_r. auto. }
    destruct Htx as (ops2 & e2 & Hf2 & He2 & Hr2).
    destruct (if do_tx then tx_loop fuel c (lim_update (c_p c) s1) (evs ++ e1) st1
              else (lim_update (c_p c) s1, evs ++ e1, st1, LEnd)) as [[[s3 evs3] st3] e].
    cbn [fst snd] in He2, Hr2. subst evs3.
    assert (Hhere : jrun ca cb (mk sd s inb outb so) (ops1 ++ JStep sd MLim :: ops2) =
              (mk sd s3 inbox1 (outb ++ out_frames (e1 ++ e2)) so, map (JE sd) (e1 ++ e2))).
    { rewrite jrun_app, Hr1. cbn [jrun]. rewrite Hl, Hr2. rewrite out_frames_app, Hn1, map_app. reflexivity. }
    assert (Hfhere : Forall (proc_jop sd) (ops1 ++ JStep sd MLim :: ops2)).
    { apply Forall_app; split; [exact Hf1|constructor; [right; right; left; reflexivity|exact Hf2]]. }
    assert (Hagain :
      exists ops enew, Forall (proc_jop sd) ops /\
        snd (fst (fst (process_loop fuel c do_rx do_tx {| w_l := s3; w_inbox := inbox1 |} ((evs ++ e1) ++ e2) st3))) = evs ++ enew /\
        jrun ca cb (mk sd s inb outb so) ops =
          (mk sd (w_l (fst (fst (fst (process_loop fuel c do_rx do_tx {| w_l := s3; w_inbox := inbox1 |} ((evs ++ e1) ++ e2) st3)))))
                 (w_inbox (fst (fst (fst (process_loop fuel c do_rx do_tx {| w_l := s3; w_inbox := inbox1 |} ((evs ++ e1) ++ e2) st3)))))
                 (outb ++ out_frames enew) so, map (JE sd) enew)).
    { destruct (IH s3 inbox1 (outb ++ out_frames (e1 ++ e2)) so ((evs ++ e1) ++ e2) st3) as (ops & en & Hf & He & Hr).
      exists ((ops1 ++ JStep sd MLim :: ops2) ++ ops), ((e1 ++ e2) ++ en). split; [apply Forall_app; split; assumption|].
      split; [rewrite He, <- !app_assoc; reflexivity|].
      rewrite jrun_app, Hhere, Hr. rewrite (out_frames_app (e1 ++ e2) en), <- !map_app, <- !app_assoc. reflexivity. }
    assert (Hstop : exists ops enew, Forall (proc_jop sd) ops /\
        (evs ++ e1) ++ e2 = evs ++ enew /\
        jrun ca cb (mk sd s inb outb so) ops = (mk sd s3 inbox1 (outb ++ out_frames enew) so, map (JE sd) enew)).
    { exists (ops1 ++ JStep sd MLim :: ops2), (e1 ++ e2). split; [exact Hfhere|]. split; [rewrite app_assoc; reflexivity|exact Hhere]. }
    destruct e; cbn [fst snd w_l w_inbox].
    + destruct swt; [exact Hagain|exact Hstop].
    + exact Hagain.
    + exact Hstop.
    + exact Hstop.
Qed.

End JP.

(** *** runs of user-level calls *)
Section Calls.
Variables ca cb : cfg.
Hypothesis Hoka : params_ok (c_p ca).
Hypothesis Hokb : params_ok (c_p cb).
Hypothesis Hab : linked ca cb.
Hypothesis Hba : linked cb ca.

(** send() with a finite generator yielding at least [size] >= 1 values, [size] within the peer's
    max_frame_size; the clock does not go backwards *)
Definition call_ok (cl : call) : Prop :=
  match cl with
  | CSend sd g size _ => g_fill g = None /\ 1 <= size <= zlen (g_items g) /\ size <= p_max_frame_size (c_p (cfg_of ca cb (other sd)))
  | _ => True
  end.

Lemma push_mk sd fs s' inb' n :
  push_out sd fs (set_lay sd s' (set_inbox sd inb' n)) = mk sd s' inb' (inbox (other sd) n ++ fs) (lay (other sd) n).
Proof. destruct sd, n; reflexivity. Qed.

Lemma cstep_jrun n cl : call_ok cl ->
  exists ops, Forall (jop_ok ca cb) ops /\ jrun ca cb n ops = cstep ca cb n cl.
Proof.
  intros Hok. destruct cl as [sd fuel do_rx do_tx|sd g size t|sd|sd d].
  - destruct (process_joint ca cb sd fuel do_rx do_tx (lay sd n) (inbox sd n) (inbox (other sd) n) (lay (other sd) n) [] stats0)
      as (ops & enew & Hf & He & Hr).
    cbv zeta in He, Hr. cbn [app] in He. rewrite <- mk_view in Hr.
    exists ops. split.
    + eapply Forall_impl; [|exact Hf]. intros o [ Ho | [ Ho | [ Ho | Ho ] ] ]; subst o; cbn; auto.
    + rewrite Hr. cbn [cstep]. unfold process. rewrite push_mk, He. reflexivity.
  - exists [JStep sd (MSend g size t)]. split.
    + constructor; [|constructor]. destruct Hok as (H1 & H2 & H3). cbn. auto.
    + cbn [jrun cstep]. destruct (jstep ca cb n _). rewrite app_nil_r. reflexivity.
  - exists [JStep sd MRecv]. split; [constructor; [cbn; auto|constructor]|].
    cbn [jrun cstep]. destruct (jstep ca cb n _). rewrite app_nil_r. reflexivity.
  - exists [JStep sd (MTick d)]. split; [constructor; [cbn; auto|constructor]|].
    cbn [jrun cstep]. destruct (jstep ca cb n _). rewrite app_nil_r. reflexivity.
Qed.

Lemma crun_jrun : forall cls n, Forall call_ok cls ->
  exists ops, Forall (jop_ok ca cb) ops /\ jrun ca cb n ops = crun ca cb n cls.
Proof.
  induction cls as [|cl rest IH]; intros n Hcl.
  - exists []. split; [constructor|reflexivity].
  - inversion Hcl as [|? ? H1 H2]; subst.
    destruct (cstep_jrun n cl H1) as (ops1 & Hf1 & Hr1).
    cbn [crun]. destruct (cstep ca cb n cl) as [n1 e1].
    destruct (IH n1 H2) as (ops2 & Hf2 & Hr2).
    exists (ops1 ++ ops2). split; [apply Forall_app; split; assumption|].
    rewrite jrun_app, Hr1, Hr2. destruct (crun ca cb n1 rest) as [n2 e2]. reflexivity.
Qed.

(** C01 / C10 for every schedule of user-level calls on the two sides *)
Theorem calls_transfer ta tb cls : Forall call_ok cls ->
  let n := fst (crun ca cb (init_net ca cb ta tb) cls) in
  let tr := snd (crun ca cb (init_net ca cb ta tb) cls) in
  jerr tr = true \/
  ((exists later, sent_of SA tr = (recv_of SB tr ++ rx_queue (nB n)) ++ later) /\
   (exists later, sent_of SB tr = (recv_of SA tr ++ rx_queue (nA n)) ++ later) /\
   (at_rest n -> sent_of SA tr = recv_of SB tr ++ rx_queue (nB n) /\
                 sent_of SB tr = recv_of SA tr ++ rx_queue (nA n))).
Proof.
  intros Hcl. destruct (crun_jrun cls (init_net ca cb ta tb) Hcl) as (ops & Hf & Hr).
  cbv zeta. rewrite <- Hr. exact (joint_transfer ca cb Hoka Hokb Hab Hba ta tb ops Hf).
Qed.

(** ... and, with non-reserved STmin parameters on both sides: unless a deadline error has been reported,
    no error has been reported at all *)
Theorem calls_only_deadlines ta tb cls :
  stmin_valid (p_stmin (c_p ca)) = true -> stmin_valid (p_stmin (c_p cb)) = true -> Forall call_ok cls ->
  let n := fst (crun ca cb (init_net ca cb ta tb) cls) in
  let tr := snd (crun ca cb (init_net ca cb ta tb) cls) in
  jto tr = true \/
  (jerr tr = false /\
   (exists later, sent_of SA tr = (recv_of SB tr ++ rx_queue (nB n)) ++ later) /\
   (exists later, sent_of SB tr = (recv_of SA tr ++ rx_queue (nA n)) ++ later) /\
   (at_rest n -> sent_of SA tr = recv_of SB tr ++ rx_queue (nB n) /\
                 sent_of SB tr = recv_of SA tr ++ rx_queue (nA n))).
Proof.
  intros Hsa Hsb Hcl. destruct (crun_jrun cls (init_net ca cb ta tb) Hcl) as (ops & Hf & Hr).
  cbv zeta. rewrite <- Hr. exact (joint_only_deadlines ca cb Hoka Hokb Hab Hba Hsa Hsb ta tb ops Hf).
Qed.

End Calls.
