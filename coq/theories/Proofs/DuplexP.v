(** Full duplex (C10): the transmit state machine never touches reception state, and the
    reception of data frames never touches transmission state.  The only couplings are the two
    mailboxes: [last_fc] (written by reception of a Flow Control, read by the next transmit pass)
    and [pending_fc] (written by reception, emptied by the next transmit pass). *)
From IsoTp Require Import Base.Prelude Model.Layer.

(** Reception view: everything _process_rx, _check_timeouts_rx and recv() read or write. *)
Definition rxv (s : layer) :=
  (now s, rx_state s, rx_buffer s, rx_frame_length s, last_seqnum s, rx_block_counter s, actual_rxdl s,
   timer_rx_cf s, rx_queue s, pending_fc s, pending_fc_status s).

(** Transmission view: everything the transmit state machine and send() read or write,
    except the flow-control mailbox. *)
Definition txv (s : layer) :=
  (now s, tx_state s, tx_queue s, active s, tx_standby s, remote_bs s, tx_block_counter s, tx_seqnum s,
   wft_counter s, tx_frame_length s, timer_rx_fc s, timer_tx_stmin s,
   lim_times s, lim_bits s, lim_total s, next_req_id s).

(** *** transmission leaves the reception view alone *)
Lemma rxv_stop_sending b s : rxv (fst (stop_sending b s)) = rxv s.
Proof. reflexivity. Qed.

Lemma rxv_lim_inform p n s : rxv (lim_inform p n s) = rxv s.
Proof.
  unfold lim_inform. destruct (negb (p_lim_enable p)); [reflexivity|].
  destruct (lim_times s); [reflexivity|]. destruct (SLOT_NS <? _); reflexivity.
Qed.

Lemma rxv_lim_update p s : rxv (lim_update p s) = rxv s.
Proof.
  unfold lim_update. destruct (negb (p_lim_enable p)); [reflexivity|].
  destruct (lim_pop _ _ _ _ _) as [[ts bs] tot]. reflexivity.
Qed.

Lemma rxv_tx_finish p s evs out imm : rxv (tr_s (tx_finish p s evs out imm)) = rxv s.
Proof. unfold tx_finish. destruct out; cbn [tr_s mk_tr]; [apply rxv_lim_inform|reflexivity]. Qed.

Lemma rxv_start_request c s r allowed s' evs out :
  start_request c s r allowed = SRDone s' evs out -> rxv s' = rxv s.
Proof.
  unfold start_request.
  destruct (r_size r <=? _).
  - destruct (consume (r_size r) true r) as [[payload|] r'].
    + destruct (make_tx_msg _ _ _); [|discriminate].
      destruct (allowed <? _); intros E; injection E as <- _ _; reflexivity.
    + intros E; injection E as <- _ _; reflexivity.
  - destruct (consume _ true r) as [[payload|] r'].
    + destruct (make_tx_msg _ _ _); [|discriminate].
      destruct (_ <=? allowed); intros E; injection E as <- _ _; reflexivity.
    + intros E; injection E as <- _ _; reflexivity.
Qed.

Lemma rxv_idle_dequeue c q : forall s evs allowed s' evs' out,
  idle_dequeue c q s evs allowed = SRDone s' evs' out -> rxv s' = rxv s.
Proof.
  induction q as [|r rest IH]; intros s evs allowed s' evs' out; cbn [idle_dequeue].
  - intros E; injection E as <- _ _; reflexivity.
  - destruct (r_is_depleted r).
    + intros E. apply IH in E. exact E.
    + destruct (start_request _ _ _ _) as [site|s1 e1 o1] eqn:Es; [discriminate|].
      intros E; injection E as <- _ _. apply rxv_start_request in Es. exact Es.
Qed.

Lemma rxv_handle_fc_active c s fc : rxv (fst (handle_fc_active c s fc)) = rxv s.
Proof.
  unfold handle_fc_active.
  destruct (fc_status fc =? FS_WAIT).
  - destruct (p_wftmax _ =? 0); [reflexivity|]. destruct (timer_timed_out _ _); [reflexivity|].
    destruct (p_wftmax _ <=? _); reflexivity.
  - destruct ((fc_status fc =? FS_CTS) && _); [|reflexivity].
    cbn. destruct (tx_state s); reflexivity.
Qed.

Lemma rxv_handle_fc c s fc : rxv (fst (snd (handle_fc c s fc))) = rxv s.
Proof.
  unfold handle_fc. destruct (fc_status fc =? FS_OVFLW); [reflexivity|].
  cbn [snd]. destruct (tx_state s); try reflexivity; apply rxv_handle_fc_active.
Qed.

Lemma rxv_tx_after_fc c s :
  match tx_after_fc c s with
  | inl r => rxv (tr_s r) = rxv s
  | inr (s', _) => rxv s' = rxv s
  end.
Proof.
  unfold tx_after_fc.
  set (s0 := s <| last_fc := None |>).
  assert (H0 : rxv s0 = rxv s) by reflexivity.
  assert (Ha : forall b s1 e, (match last_fc s with None => (false, (s0, [])) | Some f => handle_fc c s0 f end) = (b, (s1, e)) -> rxv s1 = rxv s).
  { intros b s1 e. destruct (last_fc s) as [f|].
    - intros E. pose proof (rxv_handle_fc c s0 f) as H. rewrite E in H. cbn in H. congruence.
    - intros E; injection E as _ <- _. exact H0. }
  destruct (match last_fc s with None => _ | Some f => _ end) as [b [s1 evs1]] eqn:E.
  specialize (Ha b s1 evs1 eq_refl).
  destruct b; [exact Ha|].
  destruct (timer_timed_out (now s1) (timer_rx_fc s1)).
  - cbn. exact Ha.
  - destruct (tx_state s1); [exact Ha|..];
      (destruct (active s1) as [r|]; [|exact Ha];
       destruct (r_is_depleted r && _); exact Ha).
Qed.

Lemma rxv_tx_cf c allowed s evs : rxv (tr_s (tx_cf c allowed s evs)) = rxv s.
Proof.
  unfold tx_cf.
  destruct (remote_bs s) as [rbs|]; [|reflexivity].
  destruct (active s) as [r|]; [|reflexivity].
  destruct (timer_timed_out _ _); [|apply rxv_tx_finish].
  destruct (_ <=? allowed); [|apply rxv_tx_finish].
  destruct (consume _ false r) as [[payload|] r']; [|reflexivity].
  destruct (0 <? zlen payload).
  - destruct (make_tx_msg _ _ _); [|reflexivity].
    destruct (r_is_depleted r').
    + destruct (0 <? r_remaining r'); unfold stop_sending; cbv beta iota; rewrite rxv_tx_finish; reflexivity.
    + destruct (negb (rbs =? 0) && _); rewrite rxv_tx_finish; reflexivity.
  - destruct (r_is_depleted r').
    + destruct (0 <? r_remaining r'); unfold stop_sending; cbv beta iota; rewrite rxv_tx_finish; reflexivity.
    + destruct (negb (rbs =? 0) && _); rewrite rxv_tx_finish; reflexivity.
Qed.

Lemma rxv_tx_fsm c allowed s evs : rxv (tr_s (tx_fsm c allowed s evs)) = rxv s.
Proof.
  unfold tx_fsm. destruct (tx_state s) eqn:Est.
  - destruct (idle_dequeue _ _ _ _ _) as [site|s4 e4 out] eqn:Ed; [reflexivity|].
    rewrite rxv_tx_finish. apply rxv_idle_dequeue in Ed. exact Ed.
  - apply rxv_tx_finish.
  - apply rxv_tx_cf.
  - destruct (tx_standby s); [|apply rxv_tx_finish].
    destruct (_ <=? allowed); [|apply rxv_tx_finish]. unfold stop_sending; cbv beta iota. rewrite rxv_tx_finish. reflexivity.
  - destruct (tx_standby s); [|apply rxv_tx_finish].
    destruct (_ <=? allowed); [|apply rxv_tx_finish]. rewrite rxv_tx_finish. reflexivity.
Qed.

(** The transmit state machine (everything of _process_tx after the emission of a pending Flow
    Control) never modifies reception state. *)
Theorem tx_preserves_rx c allowed s : rxv (tr_s (process_tx_main c allowed s)) = rxv s.
Proof.
  unfold process_tx_main. pose proof (rxv_tx_after_fc c s) as H.
  destruct (tx_after_fc c s) as [r|[s3 evs]]; [exact H|].
  rewrite rxv_tx_fsm. exact H.
Qed.

(** A pass that has a Flow Control to emit emits just that and leaves the transmit state machine
    untouched (the receive side gets its N_Cr timer restarted for ContinueToSend). *)
Theorem pending_fc_pass c s : pending_fc s = true -> p_listen (c_p c) = false ->
  txv (tr_s (process_tx c s)) = txv s /\ last_fc (tr_s (process_tx c s)) = last_fc s /\
  rx_state (tr_s (process_tx c s)) = rx_state s /\ rx_buffer (tr_s (process_tx c s)) = rx_buffer s /\
  rx_queue (tr_s (process_tx c s)) = rx_queue s /\ last_seqnum (tr_s (process_tx c s)) = last_seqnum s /\
  pending_fc (tr_s (process_tx c s)) = false.
Proof.
  intros Hp Hl. unfold process_tx. rewrite Hp, Hl. cbn [negb].
  destruct (opt_eqb _ _); cbn.
  - destruct (pending_fc_status s); [destruct (make_flow_control c z)|]; cbn; auto 10.
  - destruct (pending_fc_status s); [destruct (make_flow_control c z)|]; cbn; auto 10.
Qed.

(** send() only appends to the transmit queue *)
Lemma send_preserves_rx c s g size t : rxv (fst (send c s g size t)) = rxv s /\ last_fc (fst (send c s g size t)) = last_fc s.
Proof.
  unfold send. destruct (size <? 0); [auto|]. destruct (_ <? size); [auto|].
  destruct (match match t with Some x => x | None => _ end with Functional => _ | Physical => _ end); auto.
Qed.

(** *** reception leaves the transmission view alone *)
Lemma txv_stop_receiving s : txv (stop_receiving s) = txv s.
Proof. reflexivity. Qed.

Lemma txv_start_reception c s len data rxdl :
  txv (fst (fst (start_reception_after_ff c s len data rxdl))) = txv s.
Proof.
  unfold start_reception_after_ff. destruct (negb (valid_rxdl rxdl)); [reflexivity|].
  destruct (p_max_frame_size _ <? len); reflexivity.
Qed.

(** A frame that is not a Flow Control: the transmission view is unchanged; the flow-control
    mailbox is unchanged or emptied (end / abort of a reception). *)
Theorem rx_data_preserves_tx c s f :
  (forall d fs bs st, pdu_decode (f_data f) (c_rx_prefix_size c) = Some d -> d_pdu d <> PFC fs bs st) ->
  txv (rr_s (process_rx c s f)) = txv s /\
  (last_fc (rr_s (process_rx c s f)) = last_fc s \/ last_fc (rr_s (process_rx c s f)) = None).
Proof.
  intros Hnfc. unfold process_rx.
  destruct (pdu_decode _ _) as [d|]; [|cbn; auto].
  specialize (Hnfc d).
  destruct (d_pdu d) as [esc l data|l len data|sn data|fs bs st] eqn:Ep.
  4: { exfalso. apply (Hnfc fs bs st eq_refl eq_refl). }
  - (* SF *)
    destruct ((8 <? d_can_dl d) && negb esc); [cbn; auto|].
    destruct (rx_state s); cbn; auto.
  - (* FF *)
    cbn match.
    destruct (rx_state s).
    + destruct (start_reception_after_ff _ _ _ _ _) as [[s2 evs] started] eqn:Es.
      match type of Es with start_reception_after_ff ?cc ?ss ?ll ?dd ?rr = _ => pose proof (txv_start_reception cc ss ll dd rr) as Ht end.
      rewrite Es in Ht. cbn [fst] in Ht. cbn [rr_s mk_rr]. split; [rewrite Ht; reflexivity|].
      revert Es. unfold start_reception_after_ff. destruct (negb (valid_rxdl _)).
      * intros E; injection E as <- _ _. right. reflexivity.
      * destruct (p_max_frame_size _ <? len); intros E; injection E as <- _ _; left; reflexivity.
    + destruct (start_reception_after_ff _ _ _ _ _) as [[s2 evs] started] eqn:Es.
      match type of Es with start_reception_after_ff ?cc ?ss ?ll ?dd ?rr = _ => pose proof (txv_start_reception cc ss ll dd rr) as Ht end.
      rewrite Es in Ht. cbn [fst] in Ht. cbn [rr_s mk_rr]. split; [rewrite Ht; reflexivity|].
      revert Es. unfold start_reception_after_ff. destruct (negb (valid_rxdl _)).
      * intros E; injection E as <- _ _. right. reflexivity.
      * destruct (p_max_frame_size _ <? len); intros E; injection E as <- _ _; left; reflexivity.
  - (* CF *)
    cbn match.
    destruct (rx_state s); [cbn; auto|].
    destruct (sn =? _); [|cbn; auto].
    destruct (negb _ && _); [cbn; auto|].
    match goal with |- context [if ?b then _ else _] => destruct b end; [cbn; auto|].
    match goal with |- context [if ?b then _ else _] => destruct b end; cbn; auto.
Qed.

(** A Flow Control frame only fills the mailbox: nothing else changes, nothing is reported, and
    the reception loop hands over to the transmit pass at once. *)
Theorem rx_fc_only_mailbox c s f d fs bs st :
  pdu_decode (f_data f) (c_rx_prefix_size c) = Some d -> d_pdu d = PFC fs bs st ->
  process_rx c s f = mk_rr (s <| last_fc := Some {| fc_status := fs; fc_bs := bs; fc_stmin := st |} |>) [] true false.
Proof. intros Hd Hp. unfold process_rx. rewrite Hd, Hp. reflexivity. Qed.

Lemma recv_preserves_tx s : txv (fst (recv s)) = txv s /\ last_fc (fst (recv s)) = last_fc s.
Proof. unfold recv. destruct (rx_queue s); auto. Qed.

Lemma check_timeouts_preserves_tx s : txv (fst (check_timeouts_rx s)) = txv s.
Proof. unfold check_timeouts_rx. destruct (timer_timed_out _ _); reflexivity. Qed.

From IsoTp Require Import Model.Micro Proofs.Inv Proofs.FsmProps.

Lemma user_calls c s g size t :
  (rxv (fst (send c s g size t)) = rxv s /\ last_fc (fst (send c s g size t)) = last_fc s) /\
  (txv (fst (recv s)) = txv s /\ last_fc (fst (recv s)) = last_fc s).
Proof. split; [apply send_preserves_rx|apply recv_preserves_tx]. Qed.

Theorem no_wedge c s : reachable c s ->
  (tx_state s <> TxIdle ->
    (tx_state s = TxWaitFC /\ timer_running (timer_rx_fc s) = true /\ t_timeout (timer_rx_fc s) = p_tbs_ns (c_p c)) \/
    (tx_state s = TxTransmitCF /\ timer_running (timer_tx_stmin s) = true /\ remote_bs s <> None) \/
    ((tx_state s = TxSFStandby \/ tx_state s = TxFFStandby) /\ tx_standby s <> None)) /\
  (rx_state s = RxWaitCF ->
    (timer_running (timer_rx_cf s) = true /\ t_timeout (timer_rx_cf s) = p_tcr_ns (c_p c)) \/
    (pending_fc s = true /\ pending_fc_status s = Some FS_CTS)).
Proof. intros Hr. split; [apply nowedge; exact Hr|apply rx_live; exact Hr]. Qed.
