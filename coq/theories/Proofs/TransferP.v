(** Composition used by C01: segmentation (SegP) then reassembly (FaultP.rx_messages). *)
From IsoTp Require Import Base.Prelude Model.Layer Model.Address Spec.ConfigSpec Spec.Stream Spec.Segment
  Proofs.RxP Proofs.SegP Proofs.FaultP.

Theorem transfer_reference : forall ca cb mk t, params_ok (c_p ca) -> (forall d, f_data (mk d) = d) ->
  zlen (tx_prefix (c_txa ca)) = c_rx_prefix_size cb ->
  forall msgs s,
  Forall (fun p => 1 <= zlen p < 2 ^ 32 /\ zlen p <= p_max_frame_size (c_p cb)) msgs ->
  rx_state s = RxIdle ->
  let '(s', evs) := rx_run cb s (concat (map (fun p => map f_data (seg ca t p)) msgs)) mk in
  evs = [] /\ rx_queue s' = rx_queue s ++ msgs /\ rx_state s' = RxIdle.
Proof.
  intros ca cb mk t Hok Hmk Hpre msgs s Hall Hidle.
  pose proof (rx_messages cb mk Hmk (map (fun p => (p, map f_data (seg ca t p))) msgs) s) as H.
  rewrite !map_map in H. cbn [fst snd] in H. rewrite map_id in H.
  destruct (rx_run cb s _ mk) as [s' evs].
  destruct H as (H1 & H2 & H3 & _); auto.
  apply Forall_map. eapply Forall_impl; [|exact Hall].
  intros p [Hn Hm]. cbn [fst snd]. split; [|exact Hm].
  rewrite <- Hpre. apply seg_wf; assumption.
Qed.


Lemma recv_fifo s :
  match rx_queue s with
  | [] => recv s = (s, None)
  | x :: rest => snd (recv s) = Some x /\ rx_queue (fst (recv s)) = rest
  end.
Proof. unfold recv. destruct (rx_queue s); auto. Qed.

From IsoTp Require Import Proofs.CoopP Proofs.TxP.

(** End to end, one multi-frame message, cooperative schedule: what the sender emits (First Frame,
    then Consecutive Frames as the peer grants them) is reassembled by a receiver with the
    mirrored prefix into exactly the payload, delivered once, with no error on either side. *)
Theorem end_to_end_multi ca cb (Hok : params_ok (c_p ca)) (Htbs : 0 < p_tbs_ns (c_p ca)) fc (Hfc : fc_status fc = FS_CTS)
    a (Ha : p_tx_dl (c_p ca) <= a) s rid payload extra t mk (Hmk : forall d, f_data (mk d) = d) :
  zlen (tx_prefix (c_txa ca)) = c_rx_prefix_size cb ->
  1 <= zlen payload < 2 ^ 32 -> zlen payload <= p_max_frame_size (c_p cb) -> is_single ca (zlen payload) = false ->
  exists ff s1,
    start_request ca (s <| active := Some (fresh_req rid payload extra t) |>) (fresh_req rid payload extra t) a = SRDone s1 [] (Some ff) /\
    let '(cfs, evs, s') := coop ca fc a (2 * Z.to_nat (n_cf ca (zlen payload))) s1 [] [] in
    evs = [EDone rid true] /\ tx_state s' = TxIdle /\ active s' = None /\
    forall srx, rx_state srx = RxIdle ->
      let '(s2, e2) := rx_run cb srx (map f_data (ff :: cfs)) mk in
      e2 = [] /\ rx_queue s2 = rx_queue srx ++ [payload] /\ rx_state s2 = RxIdle.
Proof.
  intros Hpre Hn Hmax Hns.
  destruct (multi_frame_run ca Hok Htbs fc Hfc a Ha s rid payload extra t Hn Hns) as (ff & s1 & Hsr & Hrun).
  exists ff, s1. split; [exact Hsr|].
  destruct (coop ca fc a _ s1 [] []) as [[cfs evs] s']. destruct Hrun as (Hseg & He & Hi & Ha').
  repeat split; try assumption.
  intros srx Hidle.
  pose proof (transfer_reference ca cb mk t Hok Hmk Hpre [payload] srx) as Ht.
  cbn [map concat] in Ht. rewrite app_nil_r in Ht. rewrite Hseg.
  destruct (rx_run cb srx (map f_data (seg ca t payload)) mk) as [s2 e2].
  apply Ht; [|exact Hidle]. constructor; [split; assumption|constructor].
Qed.
