(** Composition used by C01: segmentation (SegP) then reassembly (FaultP.rx_messages). *)
From IsoTp Require Import Base.Prelude Model.Layer Model.Address Spec.ConfigSpec Spec.Stream Spec.Segment
  Proofs.RxP Proofs.SegP Proofs.FaultP.

Theorem transfer_reference : forall ca cb mk t, params_ok (c_p ca) -> (forall d, f_data (mk d) = d) ->
  zlen (tx_prefix (c_txa ca)) = c_rx_prefix_size cb ->
  forall msgs s,
  Forall (fun p => 1 <= zlen p < 2 ^ 32 /\ zlen p <= p_max_frame_size (c_p cb)) msgs ->
  rx_state s = RxIdle ->
  let '(s', evs) := rx_run cb s (concat (map (fun p => map f_data (seg ca t p)) msgs)) mk in
  evs = [] /\ rx_queue s' = rx_queue s ++ msgs /\ rx_state s' = RxIdle.
Proof.
  intros ca cb mk t Hok Hmk Hpre msgs s Hall Hidle.
  pose proof (rx_messages cb mk Hmk (map (fun p => (p, map f_data (seg ca t p))) msgs) s) as H.
  rewrite !map_map in H. cbn [fst snd] in H. rewrite map_id in H.
  destruct (rx_run cb s _ mk) as [s' evs].
  destruct H as (H1 & H2 & H3 & _); auto.
  apply Forall_map. eapply Forall_impl; [|exact Hall].
  intros p [Hn Hm]. cbn [fst snd]. split; [|exact Hm].
  rewrite <- Hpre. apply seg_wf; assumption.
Qed.


Lemma recv_fifo s :
  match rx_queue s with
  | [] => recv s = (s, None)
  | x :: rest => snd (recv s) = Some x /\ rx_queue (fst (recv s)) = rest
  end.
Proof. unfold recv. destruct (rx_queue s); auto. Qed.

From IsoTp Require Import Proofs.CoopP Proofs.TxP.

(** End to end, one multi-frame message, cooperative schedule: what the sender emits (First Frame,
    then Consecutive Frames as the peer grants them) is reassembled by a receiver with the
    mirrored prefix into exactly the payload, delivered once, with no error on either side. *)
Theorem end_to_end_multi ca cb (Hok : params_ok (c_p ca)) (Htbs : 0 < p_tbs_ns (c_p ca)) fc (Hfc : fc_status fc = FS_CTS)
    a (Ha : p_tx_dl (c_p ca) <= a) s rid payload extra t mk (Hmk : forall d, f_data (mk d) = d) :
  zlen (tx_prefix (c_txa ca)) = c_rx_prefix_size cb ->
  1 <= zlen payload < 2 ^ 32 -> zlen payload <= p_max_frame_size (c_p cb) -> is_single ca (zlen payload) = false ->
  exists ff s1,
    start_request ca (s <| active := Some (fresh_req rid payload extra t) |>) (fresh_req rid payload extra t) a = SRDone s1 [] (Some ff) /\
    let '(cfs, evs, s') := coop ca fc a (2 * Z.to_nat (n_cf ca (zlen payload))) s1 [] [] in
    evs = [EDone rid true] /\ tx_state s' = TxIdle /\ active s' = None /\
    forall srx, rx_state srx = RxIdle ->
      let '(s2, e2) := rx_run cb srx (map f_data (ff :: cfs)) mk in
      e2 = [] /\ rx_queue s2 = rx_queue srx ++ [payload] /\ rx_state s2 = RxIdle.
Proof.
  intros Hpre Hn Hmax Hns.
  destruct (multi_frame_run ca Hok Htbs fc Hfc a Ha s rid payload extra t Hn Hns) as (ff & s1 & Hsr & Hrun).
  exists ff, s1. split; [exact Hsr|].
  destruct (coop ca fc a _ s1 [] []) as [[cfs evs] s']. destruct Hrun as (Hseg & He & Hi & Ha').
  repeat split; try assumption.
  intros srx Hidle.
  pose proof (transfer_reference ca cb mk t Hok Hmk Hpre [payload] srx) as Ht.
  cbn [map concat] in Ht. rewrite app_nil_r in Ht. rewrite Hseg.
  destruct (rx_run cb srx (map f_data (seg ca t payload)) mk) as [s2 e2].
  apply Ht; [|exact Hidle]. constructor; [split; assumption|constructor].
Qed.

From IsoTp Require Import Proofs.FcPosP.

(** *** Lock step with real flow control
    Sender [ca] and receiver [cb] (mirrored prefix; the sender uses the ContinueToSend the receiver
    really answers with: its blocksize and stmin).  The sender's run under the cooperative driver
    and the receiver's run with immediate answers are over the same frames; the sender has to be
    granted exactly where the receiver emits a Flow Control - before the first Consecutive Frame
    (answer to the First Frame) and after every completed block - so the two runs interleave
    without either side ever waiting for the other in vain. *)
Theorem lockstep_multi ca cb (Hok : params_ok (c_p ca)) (Hokb : params_ok (c_p cb)) (Hlb : p_listen (c_p cb) = false)
    (Htbs : 0 < p_tbs_ns (c_p ca)) a (Ha : p_tx_dl (c_p ca) <= a) s rid payload extra t mk (Hmk : forall d, f_data (mk d) = d) :
  zlen (tx_prefix (c_txa ca)) = c_rx_prefix_size cb ->
  1 <= zlen payload < 2 ^ 32 -> zlen payload <= p_max_frame_size (c_p cb) -> is_single ca (zlen payload) = false ->
  let fc := {| fc_status := FS_CTS; fc_bs := p_blocksize (c_p cb); fc_stmin := p_stmin (c_p cb) |} in
  let ncf := n_cf ca (zlen payload) in
  let fcref := spec_frame cb (Address.tx_arb_id (c_txa cb) Physical)
                 (Address.tx_prefix (c_txa cb) ++ [0x30 + FS_CTS; p_blocksize (c_p cb); p_stmin (c_p cb)]) in
  exists ff s1,
    start_request ca (s <| active := Some (fresh_req rid payload extra t) |>) (fresh_req rid payload extra t) a = SRDone s1 [] (Some ff) /\
    let '(cfs, evs, s') := coopw ca fc a (2 * Z.to_nat ncf) s1 true [] [] in
    (* sender: exactly the reference frames, completed once with success, idle *)
    ff :: map snd cfs = seg ca t payload /\ evs = [EDone rid true] /\ tx_state s' = TxIdle /\ active s' = None /\
    (* where the sender had to be granted *)
    map fst cfs = map (waits_before fc) (zseq 1 ncf) /\
    forall srx, rx_state srx = RxIdle -> pending_fc srx = false ->
      let '(s2, e2, fcs) := rx_run_fc cb srx (map f_data (ff :: map snd cfs)) mk in
      (* receiver: payload delivered once, no error, and its Flow Controls *)
      e2 = [] /\ rx_queue s2 = rx_queue srx ++ [payload] /\ rx_state s2 = RxIdle /\
      fcs = Some fcref :: map (fun i => if fc_due cb i ncf then Some fcref else None) (zseq 1 ncf) /\
      (* ... are emitted exactly where the sender waits: after the First Frame, and after Consecutive
         Frame i-1 iff the sender must be granted before Consecutive Frame i *)
      (forall i, 2 <= i <= ncf -> waits_before fc i = fc_due cb (i - 1) ncf).
Proof.
  intros Hpre Hn Hmax Hns fc ncf fcref.
  pose proof (plen_bounds ca) as Hp. pose proof (tx_dl_in ca Hok) as Hdl.
  destruct (start_first ca Hok s rid payload extra t a Hn Hns) as (Hhd & Hcap & Hgo & _).
  set (n := zlen payload) in *.
  set (d := Address.tx_prefix (c_txa ca) ++ ff_header n ++ ztake (ff_cap ca n) payload) in *.
  assert (Hlen : zlen d <= a).
  { subst d. rewrite !zlen_app, zlen_ztake by lia.
    assert (zlen (ff_header n) = p_tx_dl (c_p ca) - zlen (Address.tx_prefix (c_txa ca)) - ff_cap ca n).
    { unfold ff_header, ff_cap. destruct (n <=? 4095); rewrite !zlen_cons, zlen_nil; lia. }
    lia. }
  destruct Hgo as (s1 & Hsr & Hw & Hact & Hsq & Hts & _); [apply Z.leb_le; exact Hlen|].
  exists (spec_frame ca (Address.tx_arb_id (c_txa ca) Physical) d), s1. split; [exact Hsr|].
  destruct (start_request_waitfc ca _ _ a s1 [] _ Hsr Hw) as (T1 & T2 & T3).
  assert (Hcf6 : 6 <= cf_cap ca).
  { unfold cf_cap. unfold c_tx_prefix in Hp. cbv zeta in *. lia. }
  assert (Hnc : 0 <= n_cf ca n) by (unfold n_cf; apply Z.div_pos; lia).
  pose proof Hokb as (_ & _ & _ & _ & Hbsb & _).
  assert (Hat : at_cfw ca fc rid payload extra t 1 s1 true).
  { split; [rewrite Hact; f_equal; f_equal; fold n; lia|]. split; [exact Hsq|].
    left. split; [exact Hw|]. rewrite T3. cbn [now set RecordSet.set] in T1. split; [exact T1|]. split; [exact T2|]. reflexivity. }
  pose proof (coopw_run ca Hok Htbs fc eq_refl ltac:(cbn; lia) a ltac:(unfold cf_cap; unfold c_tx_prefix in Hp; cbv zeta in *; lia)
                rid payload extra t ltac:(fold n; lia) (Z.to_nat (n_cf ca n)) 1 s1 true [] [] ltac:(lia) Hat) as Hrun.
  fold n in Hrun. specialize (Hrun ltac:(lia)). rewrite Z2Nat.id in Hrun by exact Hnc.
  specialize (Hrun ltac:(unfold n_cf; f_equal; lia) (2 * Z.to_nat (n_cf ca n))%nat ltac:(lia)).
  fold ncf in Hrun. subst ncf.
  destruct (coopw ca fc a _ s1 true [] []) as [[cfs evs] s']. destruct Hrun as (Hfr & He & Hi & Ha').
  cbn [app] in Hfr.
  assert (Hsnd : map snd cfs = map (fun i => spec_frame ca (Address.tx_arb_id (c_txa ca) Physical) (cf_data ca payload i)) (zseq 1 (n_cf ca n))).
  { rewrite Hfr, map_map. reflexivity. }
  assert (Hfst : map fst cfs = map (waits_before fc) (zseq 1 (n_cf ca n))).
  { rewrite Hfr, map_map. reflexivity. }
  assert (Hseg : spec_frame ca (Address.tx_arb_id (c_txa ca) Physical) d :: map snd cfs = seg ca t payload).
  { rewrite Hsnd. unfold seg. fold n. unfold is_single in Hns. apply orb_false_iff in Hns. destruct Hns as [-> ->]. reflexivity. }
  split; [exact Hseg|]. split; [exact He|]. split; [exact Hi|]. split; [exact Ha'|]. split; [exact Hfst|].
  intros srx Hidle Hpf.
  (* the receiver on the same frames *)
  rewrite Hseg.
  pose proof (seg_wf ca Hok t payload Hn) as Hwf. rewrite Hpre in Hwf.
  assert (Hlen2 : length (seg ca t payload) = S (length cfs)) by (rewrite <- Hseg; cbn; rewrite map_length; reflexivity).
  assert (Hcn : zlen cfs = n_cf ca n).
  { unfold zlen. rewrite <- (map_length fst), Hfst, map_length. unfold zseq. rewrite map_length, seq_length. lia. }
  assert (Hncpos : 1 <= n_cf ca n).
  { unfold n_cf. apply Z.div_le_lower_bound; lia. }
  inversion Hwf as [pre pad Hp1 Hp2 Hp3 Heq | pre pad Hp1 Hp2 Hp3 Heq | T pre first rest cfsd HT Hpr Hpay Hne Hn2 Hl2 Hcfs Heq].
  - exfalso. apply (f_equal (@length _)) in Heq. rewrite map_length, Hlen2 in Heq. cbn in Heq.
    assert (1 <= length cfs)%nat by (unfold zlen in Hcn; lia). lia.
  - exfalso. apply (f_equal (@length _)) in Heq. rewrite map_length, Hlen2 in Heq. cbn in Heq.
    assert (1 <= length cfs)%nat by (unfold zlen in Hcn; lia). lia.
  - pose proof (rx_stream_fc cb mk Hmk Hokb Hlb payload T pre first rest cfsd srx HT Hpr Hpay Hne Hn2 Hl2 Hcfs Hmax Hidle Hpf) as Hrx.
    destruct (rx_run_fc cb srx ((pre ++ ff_hdr (zlen payload) ++ first) :: cfsd) mk) as [[s2 e2] fcs].
    destruct Hrx as (R1 & R2 & R3 & R4).
    assert (Hcd : zlen cfsd = n_cf ca n).
    { apply (f_equal (@length _)) in Heq. rewrite map_length, Hlen2 in Heq. cbn in Heq. unfold zlen in *. lia. }
    rewrite Hcd in R4. repeat split; try assumption.
    intros i Hi2. unfold waits_before, fc_due. cbn [fc_bs].
    destruct (Z.eqb_spec i 1); [lia|]. cbn [orb].
    destruct (Z.ltb_spec (i - 1) (n_cf ca n)); [|lia]. rewrite andb_true_r. reflexivity.
Qed.
