(** Composition used by C01: segmentation (SegP) then reassembly (FaultP.rx_messages). *)
From IsoTp Require Import Base.Prelude Model.Layer Model.Address Spec.ConfigSpec Spec.Stream Spec.Segment
  Proofs.RxP Proofs.SegP Proofs.FaultP.

Theorem transfer_reference : forall ca cb mk t, params_ok (c_p ca) -> (forall d, f_data (mk d) = d) ->
  zlen (tx_prefix (c_txa ca)) = c_rx_prefix_size cb ->
  forall msgs s,
  Forall (fun p => 1 <= zlen p < 2 ^ 32 /\ zlen p <= p_max_frame_size (c_p cb)) msgs ->
  rx_state s = RxIdle ->
  let '(s', evs) := rx_run cb s (concat (map (fun p => map f_data (seg ca t p)) msgs)) mk in
  evs = [] /\ rx_queue s' = rx_queue s ++ msgs /\ rx_state s' = RxIdle.
Proof.
  intros ca cb mk t Hok Hmk Hpre msgs s Hall Hidle.
  pose proof (rx_messages cb mk Hmk (map (fun p => (p, map f_data (seg ca t p))) msgs) s) as H.
  rewrite !map_map in H. cbn [fst snd] in H. rewrite map_id in H.
  destruct (rx_run cb s _ mk) as [s' evs].
  destruct H as (H1 & H2 & H3 & _); auto.
  apply Forall_map. eapply Forall_impl; [|exact Hall].
  intros p [Hn Hm]. cbn [fst snd]. split; [|exact Hm].
  rewrite <- Hpre. apply seg_wf; assumption.
Qed.


Lemma recv_fifo s :
  match rx_queue s with
  | [] => recv s = (s, None)
  | x :: rest => snd (recv s) = Some x /\ rx_queue (fst (recv s)) = rest
  end.
Proof. unfold recv. destruct (rx_queue s); auto. Qed.
