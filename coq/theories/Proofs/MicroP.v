(** process() is a sequence of micro-steps. *)
From IsoTp Require Import Base.Prelude Model.Micro.

Lemma mrun_app c ms1 : forall s ms2,
  mrun c s (ms1 ++ ms2) =
  let '(s1, e1) := mrun c s ms1 in let '(s2, e2) := mrun c s1 ms2 in (s2, e1 ++ e2).
Proof.
  induction ms1 as [|m r IH]; intros s ms2; simpl.
  - destruct (mrun c s ms2); reflexivity.
  - destruct (mstep c s m) as [s1 e1]. rewrite IH.
    destruct (mrun c s1 r) as [s2 e2]. destruct (mrun c s2 ms2) as [s3 e3].
    rewrite app_assoc. reflexivity.
Qed.

Lemma mrun_snoc c ms s m s1 e1 s2 e2 :
  mrun c s ms = (s1, e1) -> mstep c s1 m = (s2, e2) -> mrun c s (ms ++ [m]) = (s2, e1 ++ e2).
Proof.
  intros H1 H2. rewrite mrun_app, H1. simpl. rewrite H2. rewrite app_nil_r. reflexivity.
Qed.

(** reception loop *)
Lemma rx_loop_micro c inbox : forall s evs st,
  exists ms enew,
    Forall (rx_micro c) ms /\
    mrun c s ms = (snd (fst (fst (rx_loop c inbox s evs st))), enew) /\
    snd (fst (rx_loop c inbox s evs st)) = evs ++ enew.
Proof.
  induction inbox as [|m rest IH]; intros s evs st; simpl.
  - destruct (check_timeouts_rx s) as [s1 e1] eqn:E.
    exists [MCheck], e1. simpl. rewrite E, app_nil_r.
    repeat split. constructor; [left; reflexivity|constructor].
  - destruct (check_timeouts_rx s) as [s1 e1] eqn:E.
    destruct (c_is_for_me c m) eqn:Efm.
    + destruct (rr_imm_tx (process_rx c s1 m)) eqn:Ei.
      * exists [MCheck; MRx m], (e1 ++ rr_evs (process_rx c s1 m)). simpl. rewrite E. simpl.
        rewrite app_nil_r. repeat split.
        constructor; [left; reflexivity|constructor; [right; exists m; auto|constructor]].
      * match goal with |- context [rx_loop c rest ?s' ?e' ?st'] =>
          destruct (IH s' e' st') as (ms & enew & Hf & Hr & He) end.
        exists (MCheck :: MRx m :: ms), (e1 ++ rr_evs (process_rx c s1 m) ++ enew).
        simpl. rewrite E. simpl. rewrite Hr. repeat split.
        -- constructor; [left; reflexivity|constructor; [right; exists m; auto|exact Hf]].
        -- rewrite He. rewrite <- !app_assoc. reflexivity.
    + match goal with |- context [rx_loop c rest ?s' ?e' ?st'] =>
        destruct (IH s' e' st') as (ms & enew & Hf & Hr & He) end.
      exists (MCheck :: ms), (e1 ++ enew). simpl. rewrite E, Hr. repeat split.
      * constructor; [left; reflexivity|exact Hf].
      * rewrite He, <- app_assoc. reflexivity.
Qed.

(** transmission loop *)
Lemma tx_loop_micro c fuel : forall s evs st,
  exists n enew,
    mrun c s (repeat MTx n) = (fst (fst (fst (tx_loop fuel c s evs st))), enew) /\
    snd (fst (fst (tx_loop fuel c s evs st))) = evs ++ enew.
Proof.
  induction fuel as [|fuel IH]; intros s evs st; simpl.
  - exists 0%nat, []. simpl. rewrite app_nil_r. auto.
  - destruct (tr_crash (process_tx c s)) eqn:Ec.
    + exists 1%nat, (tx_events (process_tx c s)). simpl. rewrite app_nil_r. split; [reflexivity|].
      unfold tx_events. rewrite Ec, app_nil_r. reflexivity.
    + destruct (tr_msg (process_tx c s)) as [m|] eqn:Em.
      * destruct (tr_imm_rx (process_tx c s)) eqn:Ei.
        -- exists 1%nat, (tx_events (process_tx c s)). simpl. rewrite app_nil_r. split; [reflexivity|].
           unfold tx_events. rewrite Ec, Em. rewrite <- ?app_assoc. reflexivity.
        -- match goal with |- context [tx_loop fuel c ?s' ?e' ?st'] =>
             destruct (IH s' e' st') as (n & enew & Hr & He) end.
           exists (S n), (tx_events (process_tx c s) ++ enew). simpl. rewrite Hr. split; [reflexivity|].
           rewrite He. unfold tx_events. rewrite Ec, Em. rewrite <- ?app_assoc. reflexivity.
      * exists 1%nat, (tx_events (process_tx c s)). simpl. rewrite app_nil_r.
        unfold tx_events. rewrite Ec, Em, app_nil_r.
        destruct (tr_imm_rx (process_tx c s)); simpl; split; reflexivity.
Qed.

Lemma Forall_repeat {A} (P : A -> Prop) x n : P x -> Forall P (repeat x n).
Proof. intros H; induction n; simpl; constructor; auto. Qed.

(** process(): for every fuel, flags, state and inbox there is a sequence of micro-steps
    (timeout checks, accepted frames, limiter updates, transmit passes) producing exactly
    the resulting state and events. *)
Theorem process_micro c fuel do_rx do_tx : forall w evs st,
  exists ms enew,
    Forall (proc_micro c) ms /\
    mrun c (w_l w) ms = (w_l (fst (fst (fst (process_loop fuel c do_rx do_tx w evs st)))), enew) /\
    snd (fst (fst (process_loop fuel c do_rx do_tx w evs st))) = evs ++ enew.
Proof.
  induction fuel as [|fuel IH]; intros w evs st; simpl.
  - exists [], []. simpl. rewrite app_nil_r. auto.
  - set (swt := do_tx && negb (is_nil (tx_queue (w_l w))) && rxst_eqb (rx_state (w_l w)) RxIdle &&
                txst_eqb (tx_state (w_l w)) TxIdle).
    (* reception part *)
    assert (Hrx : exists ms1 e1,
      Forall (proc_micro c) ms1 /\
      mrun c (w_l w) ms1 =
        (snd (fst (fst (if do_rx && negb swt then rx_loop c (w_inbox w) (w_l w) evs st
                        else (w_inbox w, w_l w, evs, st)))), e1) /\
      snd (fst (if do_rx && negb swt then rx_loop c (w_inbox w) (w_l w) evs st
                else (w_inbox w, w_l w, evs, st))) = evs ++ e1).
    { destruct (do_rx && negb swt).
      - destruct (rx_loop_micro c (w_inbox w) (w_l w) evs st) as (ms & en & Hf & Hr & He).
        exists ms, en. repeat split; try assumption.
        eapply Forall_impl; [|exact Hf]. intros a Ha; left; exact Ha.
      - exists [], []. simpl. rewrite app_nil_r. auto. }
    destruct Hrx as (ms1 & e1 & Hf1 & Hr1 & He1).
    destruct (if do_rx && negb swt then rx_loop c (w_inbox w) (w_l w) evs st
              else (w_inbox w, w_l w, evs, st)) as [[[inbox1 s1] evs1] st1].
    simpl in Hr1, He1. subst evs1.
    (* transmission part *)
    assert (Htx : exists ms2 e2,
      Forall (proc_micro c) ms2 /\
      mrun c (lim_update (c_p c) s1) ms2 =
        (fst (fst (fst (if do_tx then tx_loop fuel c (lim_update (c_p c) s1) (evs ++ e1) st1
                        else (lim_update (c_p c) s1, evs ++ e1, st1, LEnd)))), e2) /\
      snd (fst (fst (if do_tx then tx_loop fuel c (lim_update (c_p c) s1) (evs ++ e1) st1
                     else (lim_update (c_p c) s1, evs ++ e1, st1, LEnd)))) = (evs ++ e1) ++ e2).
    { destruct do_tx.
      - destruct (tx_loop_micro c fuel (lim_update (c_p c) s1) (evs ++ e1) st1) as (n & en & Hr & He).
        exists (repeat MTx n), en. repeat split; try assumption.
        apply Forall_repeat. right; right; reflexivity.
      - exists [], []. simpl. rewrite app_nil_r. auto. }
    destruct Htx as (ms2 & e2 & Hf2 & Hr2 & He2).
    destruct (if do_tx then tx_loop fuel c (lim_update (c_p c) s1) (evs ++ e1) st1
              else (lim_update (c_p c) s1, evs ++ e1, st1, LEnd)) as [[[s3 evs3] st3] e].
    simpl in Hr2, He2. subst evs3.
    assert (Hhere : mrun c (w_l w) (ms1 ++ MLim :: ms2) = (s3, e1 ++ e2)).
    { rewrite mrun_app, Hr1. simpl. rewrite Hr2. reflexivity. }
    assert (Hfhere : Forall (proc_micro c) (ms1 ++ MLim :: ms2)).
    { apply Forall_app; split; [exact Hf1|constructor; [right; left; reflexivity|exact Hf2]]. }
    assert (Hagain : forall w3, w_l w3 = s3 ->
      exists ms enew, Forall (proc_micro c) ms /\
        mrun c (w_l w) ms = (w_l (fst (fst (fst (process_loop fuel c do_rx do_tx w3 ((evs ++ e1) ++ e2) st3)))), enew) /\
        snd (fst (fst (process_loop fuel c do_rx do_tx w3 ((evs ++ e1) ++ e2) st3))) = evs ++ enew).
    { intros w3 Hw3. destruct (IH w3 ((evs ++ e1) ++ e2) st3) as (ms & en & Hf & Hr & He).
      exists ((ms1 ++ MLim :: ms2) ++ ms), ((e1 ++ e2) ++ en). repeat split.
      - apply Forall_app; split; assumption.
      - rewrite mrun_app, Hhere. rewrite <- Hw3, Hr. reflexivity.
      - rewrite He. rewrite <- !app_assoc. reflexivity. }
    assert (Hstop : exists ms enew, Forall (proc_micro c) ms /\
        mrun c (w_l w) ms = (s3, enew) /\ (evs ++ e1) ++ e2 = evs ++ enew).
    { exists (ms1 ++ MLim :: ms2), (e1 ++ e2). repeat split; try assumption. rewrite app_assoc; reflexivity. }
    destruct e; simpl.
    + destruct swt; [apply Hagain; reflexivity|exact Hstop].
    + apply Hagain; reflexivity.
    + exact Hstop.
    + exact Hstop.
Qed.
