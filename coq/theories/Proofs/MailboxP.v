(** The hand-over between reception and transmission inside one layer: the received Flow Control waits in a one-place mailbox
    ([last_fc]) for the next transmit pass.  A transmit pass that first has to emit the layer's OWN Flow Control (owed to the peer's
    First Frame or block) returns right after it: that pass must leave the mailbox, and everything else the sender holds, untouched -
    the grant is looked at by the pass that follows. *)
From IsoTp Require Import Base.Prelude Model.Micro Proofs.FramesP.

Definition sender_part (s : layer) :=
  (last_fc s, tx_state s, active s, tx_queue s, tx_standby s, remote_bs s, tx_block_counter s, tx_seqnum s, wft_counter s,
   timer_rx_fc s, timer_tx_stmin s).

Lemma pending_pass_keeps_sender c s0 :
  pending_fc s0 = true -> p_listen (c_p c) = false -> tr_crash (process_tx c s0) = false ->
  sender_part (tr_s (process_tx c s0)) = sender_part s0 /\
  pending_fc (tr_s (process_tx c s0)) = false /\
  tr_evs (process_tx c s0) = [] /\
  exists st m, pending_fc_status s0 = Some st /\ make_flow_control c st = Some m /\ tr_msg (process_tx c s0) = Some m.
Proof.
  intros Hp Hl. unfold process_tx. rewrite Hp, Hl. cbn [negb].
  set (s1 := s0 <| pending_fc := false |>).
  assert (Hst : forall x, pending_fc_status (if opt_eqb (pending_fc_status s1) (Some FS_CTS) then start_rx_cf_timer c s1 else s1) = x ->
                 pending_fc_status s0 = x).
  { intros x. destruct (opt_eqb _ _); cbn; auto. }
  destruct (pending_fc_status (if opt_eqb (pending_fc_status s1) (Some FS_CTS) then start_rx_cf_timer c s1 else s1)) as [st|] eqn:E.
  - destruct (make_flow_control c st) as [m|] eqn:Em.
    + cbn. intros _. repeat split.
      * destruct (opt_eqb _ _); reflexivity.
      * destruct (opt_eqb _ _); reflexivity.
      * exists st, m. repeat split; auto.
    + cbn. discriminate.
  - cbn. discriminate.
Qed.
