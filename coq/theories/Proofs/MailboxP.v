(** The hand-over between reception and transmission inside one layer: the received Flow Control waits in a one-place mailbox
    ([last_fc]) for the next transmit pass.  A transmit pass that first has to emit the layer's OWN Flow Control (owed to the peer's
    First Frame or block) returns right after it: that pass must leave the mailbox, and everything else the sender holds, untouched -
    the grant is looked at by the pass that follows. *)
From IsoTp Require Import Base.Prelude Model.Micro Proofs.FramesP.

Definition sender_part (s : layer) :=
  (last_fc s, tx_state s, active s, tx_queue s, tx_standby s, remote_bs s, tx_block_counter s, tx_seqnum s, wft_counter s,
   timer_rx_fc s, timer_tx_stmin s).

Lemma pending_pass_keeps_sender c s0 :
  pending_fc s0 = true -> p_listen (c_p c) = false -> tr_crash (process_tx c s0) = false ->
  sender_part (tr_s (process_tx c s0)) = sender_part s0 /\
  pending_fc (tr_s (process_tx c s0)) = false /\
  tr_evs (process_tx c s0) = [] /\
  exists st m, pending_fc_status s0 = Some st /\ make_flow_control c st = Some m /\ tr_msg (process_tx c s0) = Some m.
Proof.
  intros Hp Hl. unfold process_tx. rewrite Hp, Hl. cbn [negb].
  set (s1 := s0 <| pending_fc := false |>).
  assert (Hst : forall x, pending_fc_status (if opt_eqb (pending_fc_status s1) (Some FS_CTS) then start_rx_cf_timer c s1 else s1) = x ->
                 pending_fc_status s0 = x).
  { intros x. destruct (opt_eqb _ _); cbn; auto. }
  destruct (pending_fc_status (if opt_eqb (pending_fc_status s1) (Some FS_CTS) then start_rx_cf_timer c s1 else s1)) as [st|] eqn:E.
  - destruct (make_flow_control c st) as [m|] eqn:Em.
    + cbn. intros _. repeat split.
      * destruct (opt_eqb _ _); reflexivity.
      * destruct (opt_eqb _ _); reflexivity.
      * exists st, m. repeat split; auto.
    + cbn. discriminate.
  - cbn. discriminate.
Qed.

(** ** The two halves of a layer do not disturb each other (full duplex) *)

Definition receiver_part (s : layer) :=
  (rx_state s, rx_buffer s, rx_frame_length s, last_seqnum s, rx_block_counter s, actual_rxdl s,
   pending_fc s, pending_fc_status s, timer_rx_cf s, rx_queue s).

Definition limiter_part (s : layer) := (lim_times s, lim_bits s, lim_total s).

(** Ending a transmission - success, protocol error or the user's stop_sending() - touches nothing of the reception in progress
    (state, buffer, announced length, sequence and block counters, the Flow Control the layer still owes, its deadline, the delivered
    payloads), nothing of the rate limiter's window, and not the queue of requests still to send. *)
Lemma stop_sending_keeps_reception b s :
  receiver_part (fst (stop_sending b s)) = receiver_part s /\
  limiter_part (fst (stop_sending b s)) = limiter_part s /\
  tx_queue (fst (stop_sending b s)) = tx_queue s /\
  last_fc (fst (stop_sending b s)) = last_fc s.
Proof. unfold stop_sending. cbn. repeat split. Qed.

(** Ending a reception - completion, protocol error, timeout or the user's stop_receiving() - leaves the transmission in progress
    alone: state, request, queue, frame in standby, granted block, counters, timers, limiter.  (It does empty the one-place mailbox
    of received Flow Controls, as _stop_receiving does: with combined process() calls the mailbox is always read by the transmit
    pass of the call that filled it.) *)
Definition sender_core (s : layer) :=
  (tx_state s, active s, tx_queue s, tx_standby s, remote_bs s, tx_block_counter s, tx_seqnum s, wft_counter s, tx_frame_length s,
   timer_rx_fc s, timer_tx_stmin s).

Lemma stop_receiving_keeps_transmission s :
  sender_core (stop_receiving s) = sender_core s /\ limiter_part (stop_receiving s) = limiter_part s /\
  rx_queue (stop_receiving s) = rx_queue s.
Proof. unfold stop_receiving, stop_sending_fc. cbn. repeat split. Qed.

(** ** The deadline itself is not yet missed *)

(** A running timer with a non-zero timeout expires when MORE than the timeout has elapsed: a frame (or Flow Control) processed
    exactly [timeout] after the start is still in time, one nanosecond later it is not. *)
Lemma timer_boundary nw t s :
  t_start t = Some s -> 0 < t_timeout t ->
  (timer_timed_out nw t = true <-> t_timeout t < nw - s).
Proof.
  intros Hs Hpos. unfold timer_timed_out. rewrite Hs.
  destruct (Z.ltb_spec (t_timeout t) (nw - s)); destruct (Z.eqb_spec (t_timeout t) 0); cbn; split; intros; try lia; try discriminate; auto.
Qed.

Lemma timer_on_deadline t s :
  t_start t = Some s -> 0 < t_timeout t ->
  timer_timed_out (s + t_timeout t) t = false /\ timer_timed_out (s + t_timeout t + 1) t = true.
Proof.
  intros Hs Hpos. split.
  - destruct (timer_timed_out (s + t_timeout t) t) eqn:E; [|reflexivity].
    apply (timer_boundary _ _ _ Hs Hpos) in E. lia.
  - apply (timer_boundary _ _ _ Hs Hpos). lia.
Qed.
