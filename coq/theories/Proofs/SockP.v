(** C19 / C20: the socket wrapper writes the exact kernel ABI, keeps what it is not asked to
    change, and bind() gives the kernel the addressing the Python layer uses. *)
From IsoTp Require Import Base.Prelude Base.Bits Model.Sock Spec.AddrSpec Proofs.AddressP.

Lemma u32_le32 z : 0 <= z < 2 ^ 32 -> u32_of (le32 z) = z.
Proof.
  intros H. unfold u32_of, le32.
  assert (E3 : (z / 16777216) mod 256 = z / 16777216).
  { apply Z.mod_small. split; [apply Z.div_pos; lia|apply Z.div_lt_upper_bound; lia]. }
  rewrite E3.
  pose proof (Z.div_mod z 256 ltac:(lia)) as D0.
  pose proof (Z.div_mod (z / 256) 256 ltac:(lia)) as D1.
  pose proof (Z.div_mod (z / 256 / 256) 256 ltac:(lia)) as D2.
  rewrite !Z.div_div in D2 by lia. rewrite Z.div_div in D1 by lia.
  change (256 * 256) with 65536 in *. change (65536 * 256) with 16777216 in *. lia.
Qed.

Lemma le32_bytes z : Forall (fun b => 0 <= b < 256) (le32 z).
Proof. unfold le32. repeat constructor; apply Z.mod_pos_bound; lia. Qed.

Definition byte (b : Z) : Prop := 0 <= b <= 255.
Definition u32 (z : Z) : Prop := 0 <= z < 2 ^ 32.

Record kstate_ok (k : kstate) : Prop := {
  ok_flags : u32 (k_flags k); ok_txtime : u32 (k_txtime k);
  ok_ext : byte (k_ext k); ok_txpad : byte (k_txpad k); ok_rxpad : byte (k_rxpad k); ok_rxext : byte (k_rxext k);
  ok_txstmin : u32 (k_txstmin k) }.

Lemma kinit_ok : kstate_ok kinit.
Proof. constructor; unfold u32, byte; cbn; lia. Qed.

Lemma lor_u32 a b : u32 a -> u32 b -> u32 (Z.lor a b).
Proof.
  unfold u32. intros Ha Hb. split; [apply Z.lor_nonneg; lia|].
  destruct (Z.eq_dec (Z.lor a b) 0) as [E|E]; [rewrite E; lia|].
  apply Z.log2_lt_pow2; [pose proof (Z.lor_nonneg a b); lia|].
  rewrite Z.log2_lor by lia.
  destruct (Z.max_spec (Z.log2 a) (Z.log2 b)) as [[_ ->]|[_ ->]].
  - destruct (Z.eq_dec b 0) as [->|Hb0]; [cbn; lia|]. apply Z.log2_lt_pow2; lia.
  - destruct (Z.eq_dec a 0) as [->|Ha0]; [cbn; lia|]. apply Z.log2_lt_pow2; lia.
Qed.

Lemma has_flag_lor_self a f : f <> 0 -> 0 <= f -> has_flag (Z.lor a f) f = true.
Proof.
  intros Hf Hp. unfold has_flag.
  assert (Z.land (Z.lor a f) f = f) as ->.
  { apply Z.bits_inj'; intros n Hn. rewrite Z.land_spec, Z.lor_spec.
    destruct (Z.testbit a n), (Z.testbit f n); reflexivity. }
  destruct (Z.eqb_spec f 0); [contradiction|reflexivity].
Qed.

Lemma has_flag_lor_mono a g f : has_flag a f = true -> has_flag (Z.lor a g) f = true.
Proof.
  unfold has_flag. intros H. apply negb_true_iff in H. apply Z.eqb_neq in H.
  apply negb_true_iff. apply Z.eqb_neq. intros E. apply H.
  rewrite Z.land_lor_distr_l in E. apply Z.lor_eq_0_iff in E. tauto.
Qed.

(** the flags written by set_opts: the requested (or current) flags plus the implied ones *)
Definition implied (v : pyv) (f : Z) (flags : Z) : Z := match v with VInt _ => Z.lor flags f | _ => flags end.
Definition new_flags (k : kstate) (optflag ext txpad rxpad rxext txstmin : pyv) : Z :=
  implied txstmin F_FORCE_TXSTMIN (implied rxext F_RX_EXT_ADDR (implied rxpad F_RX_PADDING (implied txpad F_TX_PADDING
    (implied ext F_EXTEND_ADDR (match optflag with VInt f => f | _ => k_flags k end))))).
Definition newv (v : pyv) (old : Z) : Z := match v with VInt z => z | _ => old end.

Lemma chk_some v hi o : chk v hi = Some o ->
  (v = VNone /\ o = None) \/ (exists z, v = VInt z /\ o = Some z /\ 0 <= z <= hi).
Proof.
  destruct v as [|z|]; cbn; [intros E; injection E as <-; left; auto| |discriminate].
  destruct (Z.leb_spec 0 z), (Z.leb_spec z hi); cbn; try discriminate.
  intros E; injection E as <-. right. exists z. repeat split; lia.
Qed.

Lemma chk_none v hi : chk v hi = None <-> (v = VOther \/ exists z, v = VInt z /\ ~ (0 <= z <= hi)).
Proof.
  destruct v as [|z|]; cbn.
  - split; [discriminate|]. intros [H|(z & H & _)]; discriminate.
  - destruct (Z.leb_spec 0 z) as [A|A], (Z.leb_spec z hi) as [B|B]; cbn; split; intros Hx; try discriminate; try reflexivity;
      try (right; exists z; split; [reflexivity|lia]).
    destruct Hx as [Hx|(z' & E & Hn)]; [discriminate|]. injection E as <-. lia.
  - split; auto.
Qed.

Lemma kapply_opts k f t e tp rp re :
  kapply k (SetOpt SOL_CAN_ISOTP CAN_ISOTP_OPTS (pack_opts f t e tp rp re)) =
  {| k_flags := u32_of (le32 f); k_txtime := u32_of (le32 t); k_ext := e; k_txpad := tp; k_rxpad := rp; k_rxext := re;
     k_bs := k_bs k; k_stmin := k_stmin k; k_wft := k_wft k; k_mtu := k_mtu k; k_txdl := k_txdl k;
     k_llflags := k_llflags k; k_txstmin := k_txstmin k; k_bound := k_bound k |}.
Proof. reflexivity. Qed.

Lemma kapply_txstmin k v :
  kapply k (SetOpt SOL_CAN_ISOTP CAN_ISOTP_TX_STMIN (le32 v)) =
  {| k_flags := k_flags k; k_txtime := k_txtime k; k_ext := k_ext k; k_txpad := k_txpad k; k_rxpad := k_rxpad k;
     k_rxext := k_rxext k; k_bs := k_bs k; k_stmin := k_stmin k; k_wft := k_wft k; k_mtu := k_mtu k; k_txdl := k_txdl k;
     k_llflags := k_llflags k; k_txstmin := u32_of (le32 v); k_bound := k_bound k |}.
Proof. reflexivity. Qed.

Lemma zlen_pack f t e tp rp re : zlen (pack_opts f t e tp rp re) = 12.
Proof. reflexivity. Qed.
Lemma zlen_le32 v : zlen (le32 v) = 4.
Proof. reflexivity. Qed.

(** C19: what set_opts writes. For arguments that pass validation the wrapper issues, at
    SOL_CAN_ISOTP, the TX_STMIN image (only if tx_stmin is given) then the can_isotp_options
    image, and the kernel then holds: each given field, each other field unchanged, the
    requested-or-previous flags plus exactly the implied ones. *)
Theorem general_write_effect k a1 a2 a3 a4 a5 a6 a7 calls :
  kstate_ok k -> general_write k a1 a2 a3 a4 a5 a6 a7 = Some calls ->
  let k' := kapply_all k calls in
  k_flags k' = new_flags k a1 a3 a4 a5 a6 a7 /\
  k_txtime k' = newv a2 (k_txtime k) /\ k_ext k' = newv a3 (k_ext k) /\ k_txpad k' = newv a4 (k_txpad k) /\
  k_rxpad k' = newv a5 (k_rxpad k) /\ k_rxext k' = newv a6 (k_rxext k) /\ k_txstmin k' = newv a7 (k_txstmin k) /\
  k_bs k' = k_bs k /\ k_stmin k' = k_stmin k /\ k_wft k' = k_wft k /\
  k_mtu k' = k_mtu k /\ k_txdl k' = k_txdl k /\ k_llflags k' = k_llflags k /\ k_bound k' = k_bound k /\
  kstate_ok k' /\
  Forall (fun cl => match cl with SetOpt l o b => l = SOL_CAN_ISOTP /\ (o = CAN_ISOTP_OPTS /\ zlen b = 12 \/ o = CAN_ISOTP_TX_STMIN /\ zlen b = 4) | Bind _ _ => False end) calls.
Proof.
  intros Hk. unfold general_write.
  destruct (chk a1 _) as [o1|] eqn:E1; [|discriminate].
  destruct (chk a2 _) as [o2|] eqn:E2; [|discriminate].
  destruct (chk a3 _) as [o3|] eqn:E3; [|discriminate].
  apply chk_some in E1, E2, E3.
  destruct Hk as [Kf Kt Ke Ktp Krp Kre Kst]. unfold u32, byte in *.
  assert (Fx : u32 F_EXTEND_ADDR /\ u32 F_TX_PADDING /\ u32 F_RX_PADDING /\ u32 F_RX_EXT_ADDR /\ u32 F_FORCE_TXSTMIN)
    by (unfold u32, F_EXTEND_ADDR, F_TX_PADDING, F_RX_PADDING, F_RX_EXT_ADDR, F_FORCE_TXSTMIN; lia).
  destruct Fx as (Fx1 & Fx2 & Fx3 & Fx4 & Fx5).
  destruct E1 as [[-> ->]|(z1 & -> & -> & R1)]; destruct E2 as [[-> ->]|(z2 & -> & -> & R2)];
  destruct E3 as [[-> ->]|(z3 & -> & -> & R3)]; cbv iota beta;
  (destruct (chk a4 _) as [o4|] eqn:E4; [|discriminate]); apply chk_some in E4;
  (destruct E4 as [[-> ->]|(z4 & -> & -> & R4)]); cbv iota beta;
  (destruct (chk a5 _) as [o5|] eqn:E5; [|discriminate]); apply chk_some in E5;
  (destruct E5 as [[-> ->]|(z5 & -> & -> & R5)]); cbv iota beta;
  (destruct (chk a6 _) as [o6|] eqn:E6; [|discriminate]); apply chk_some in E6;
  (destruct E6 as [[-> ->]|(z6 & -> & -> & R6)]); cbv iota beta;
  (destruct (chk a7 _) as [o7|] eqn:E7; [|discriminate]); apply chk_some in E7;
  (destruct E7 as [[-> ->]|(z7 & -> & -> & R7)]); cbv iota beta;
  intros E; injection E as <-; unfold kapply_all; cbn [fold_left app];
  rewrite ?kapply_txstmin, kapply_opts; cbn [k_flags k_txtime k_ext k_txpad k_rxpad k_rxext k_bs k_stmin k_wft k_mtu k_txdl k_llflags k_txstmin k_bound];
  match goal with |- context [u32_of (le32 ?f) = _] =>
    assert (Hf : u32 f) by (repeat apply lor_u32; unfold u32; try assumption; lia) end;
  rewrite !u32_le32 by (unfold u32 in *; lia);
  unfold new_flags, implied, newv;
  (repeat split; try reflexivity; try assumption; try (unfold u32 in *; lia); try (unfold byte; lia));
  try (cbn [k_flags k_txtime k_ext k_txpad k_rxpad k_rxext k_txstmin]; unfold u32, byte in *; lia);
  repeat (apply Forall_cons; [split; [reflexivity|first [left; split; reflexivity|right; split; reflexivity]]|]); try apply Forall_nil.
Qed.

(** C19: an out-of-range or non-integer argument raises ValueError and NO setsockopt is issued. *)
Theorem general_write_invalid k a1 a2 a3 a4 a5 a6 a7 :
  (chk a1 0xFFFFFFFF = None \/ chk a2 0xFFFFFFFF = None \/ chk a3 0xFF = None \/ chk a4 0xFF = None \/
   chk a5 0xFF = None \/ chk a6 0xFF = None \/ chk a7 0xFFFFFFFF = None) <->
  general_write k a1 a2 a3 a4 a5 a6 a7 = None.
Proof.
  unfold general_write.
  destruct (chk a1 _) as [o1|]; [|intuition].
  destruct (chk a2 _) as [o2|]; [|intuition].
  destruct (chk a3 _) as [[?|]|]; [| |intuition]; cbv iota beta;
  (destruct (chk a4 _) as [[?|]|]; [| |intuition]); cbv iota beta;
  (destruct (chk a5 _) as [[?|]|]; [| |intuition]); cbv iota beta;
  (destruct (chk a6 _) as [[?|]|]; [| |intuition]); cbv iota beta;
  (destruct (chk a7 _) as [[?|]|]; [| |intuition]); cbv iota beta;
  (split; intros H; [decompose [or] H; discriminate|discriminate]).
Qed.

(** Flow-control and link-layer options: exact 3-byte images, None keeps the stored value. *)
Theorem fc_write_effect k a1 a2 a3 calls : fc_write k a1 a2 a3 = Some calls ->
  calls = [SetOpt SOL_CAN_ISOTP CAN_ISOTP_RECV_FC [newv a1 (k_bs k); newv a2 (k_stmin k); newv a3 (k_wft k)]] /\
  let k' := kapply_all k calls in
  k_bs k' = newv a1 (k_bs k) /\ k_stmin k' = newv a2 (k_stmin k) /\ k_wft k' = newv a3 (k_wft k) /\
  k_flags k' = k_flags k /\ k_ext k' = k_ext k /\ k_txstmin k' = k_txstmin k /\ k_mtu k' = k_mtu k.
Proof.
  unfold fc_write.
  destruct (chk a1 _) as [o1|] eqn:E1; [|discriminate].
  destruct (chk a2 _) as [o2|] eqn:E2; [|discriminate].
  destruct (chk a3 _) as [o3|] eqn:E3; [|discriminate].
  apply chk_some in E1, E2, E3.
  destruct E1 as [[-> ->]|(z1 & -> & -> & R1)]; destruct E2 as [[-> ->]|(z2 & -> & -> & R2)];
  destruct E3 as [[-> ->]|(z3 & -> & -> & R3)]; intros E; injection E as <-; cbn; repeat split.
Qed.

Theorem fc_write_invalid k a1 a2 a3 :
  (chk a1 0xFF = None \/ chk a2 0xFF = None \/ chk a3 0xFF = None) <-> fc_write k a1 a2 a3 = None.
Proof.
  unfold fc_write. destruct (chk a1 _); [|intuition]. destruct (chk a2 _); [|intuition]. destruct (chk a3 _); [|intuition].
  split; intros H; [decompose [or] H; discriminate|discriminate].
Qed.

Theorem ll_write_effect k a1 a2 a3 calls : ll_write k a1 a2 a3 = Some calls ->
  calls = [SetOpt SOL_CAN_ISOTP CAN_ISOTP_LL_OPTS [newv a1 (k_mtu k); newv a2 (k_txdl k); newv a3 (k_llflags k)]] /\
  let k' := kapply_all k calls in
  k_mtu k' = newv a1 (k_mtu k) /\ k_txdl k' = newv a2 (k_txdl k) /\ k_llflags k' = newv a3 (k_llflags k) /\
  k_flags k' = k_flags k /\ k_bs k' = k_bs k /\ k_txstmin k' = k_txstmin k.
Proof.
  unfold ll_write.
  destruct (chk a1 _) as [o1|] eqn:E1; [|discriminate].
  destruct (chk a2 _) as [o2|] eqn:E2; [|discriminate].
  destruct (chk a3 _) as [o3|] eqn:E3; [|discriminate].
  apply chk_some in E1, E2, E3.
  destruct E1 as [[-> ->]|(z1 & -> & -> & R1)]; destruct E2 as [[-> ->]|(z2 & -> & -> & R2)];
  destruct E3 as [[-> ->]|(z3 & -> & -> & R3)]; intros E; injection E as <-; cbn; repeat split.
Qed.

(** The implied flags: giving ext_address / rx_ext_address / txpad / rxpad / tx_stmin sets the
    corresponding flag, and flags configured earlier (or passed in optflag) are kept. *)
Theorem new_flags_implied k a1 z a4 a5 a6 a7 :
  has_flag (new_flags k a1 (VInt z) a4 a5 a6 a7) F_EXTEND_ADDR = true.
Proof.
  unfold new_flags, implied.
  set (base := match a1 with VInt f => f | _ => k_flags k end).
  assert (H0 : has_flag (Z.lor base F_EXTEND_ADDR) F_EXTEND_ADDR = true)
    by (apply has_flag_lor_self; unfold F_EXTEND_ADDR; lia).
  generalize dependent (Z.lor base F_EXTEND_ADDR). intros x H0.
  destruct a7, a6, a5, a4; repeat (apply has_flag_lor_mono); exact H0.
Qed.

Theorem new_flags_keeps k a3 a4 a5 a6 a7 f :
  has_flag (k_flags k) f = true -> has_flag (new_flags k VNone a3 a4 a5 a6 a7) f = true.
Proof.
  intros H. unfold new_flags, implied.
  generalize dependent (k_flags k). intros x H.
  destruct a7, a6, a5, a4, a3; repeat (apply has_flag_lor_mono); exact H.
Qed.

Theorem new_flags_txstmin k a1 a3 a4 a5 a6 z :
  has_flag (new_flags k a1 a3 a4 a5 a6 (VInt z)) F_FORCE_TXSTMIN = true.
Proof. unfold new_flags, implied. apply has_flag_lor_self; unfold F_FORCE_TXSTMIN; lia. Qed.

(** ** The wrapper automaton (C20 guards) *)
Theorem set_after_bind_refused w a1 a2 a3 a4 a5 a6 a7 : w_bound w = true ->
  w_set_opts w a1 a2 a3 a4 a5 a6 a7 = (w, RRuntimeError) /\
  w_set_fc_opts w a1 a2 a3 = (w, RRuntimeError) /\ w_set_ll_opts w a1 a2 a3 = (w, RRuntimeError).
Proof. intros H. unfold w_set_opts, w_set_fc_opts, w_set_ll_opts. rewrite H. auto. Qed.

Theorem io_guard w : (w_send w = RRuntimeError <-> w_bound w = false) /\ (w_recv w = RRuntimeError <-> w_bound w = false).
Proof. unfold w_send, w_recv. destruct (w_bound w); split; split; intros H; try discriminate; reflexivity. Qed.

Theorem closed_refuses_io w : w_send (w_close w) = RRuntimeError /\ w_recv (w_close w) = RRuntimeError.
Proof. split; reflexivity. Qed.

Theorem bind_refuses_inconsistent w txa rxa :
  requires_ext_byte rxa <> requires_ext_byte txa -> w_bind w txa rxa true = (w, RValueError).
Proof.
  intros H. unfold w_bind. cbn [andb].
  destruct (requires_ext_byte rxa), (requires_ext_byte txa); cbn; try reflexivity; congruence.
Qed.

(** ** bind(): identifiers *)
Lemma eff_id id : 0 <= id < 2 ^ 29 ->
  let x := Z.lor (Z.land id CAN_EFF_MASK) CAN_EFF_FLAG in
  has_flag x CAN_EFF_FLAG = true /\ Z.land x CAN_EFF_MASK = id.
Proof.
  intros H x. subst x. unfold CAN_EFF_MASK, CAN_EFF_FLAG.
  assert (E29 : 2 ^ 29 = 536870912) by reflexivity. assert (E31 : 2 ^ 31 = 2147483648) by reflexivity.
  assert (Em : Z.land id 536870911 = id).
  { replace 536870911 with (Z.ones 29) by reflexivity. rewrite Z.land_ones by lia. apply Z.mod_small. lia. }
  rewrite Em.
  assert (El : Z.lor id 2147483648 = 1 * 2 ^ 31 + id).
  { rewrite Z.lor_comm. rewrite <- E31. replace (2 ^ 31) with (1 * 2 ^ 31) at 1 by lia.
    apply lor_mul_pow2_add; lia. }
  rewrite El. split.
  - unfold has_flag. apply negb_true_iff. apply Z.eqb_neq. intros E.
    assert (Hb : Z.testbit (Z.land (1 * 2 ^ 31 + id) 2147483648) 31 = false) by (rewrite E; apply Z.bits_0).
    rewrite Z.land_spec in Hb.
    assert (Hp : Z.testbit 2147483648 31 = true) by (rewrite <- E31; apply Z.pow2_bits_true; lia).
    rewrite Hp, andb_true_r in Hb.
    assert (Ht : Z.testbit (1 * 2 ^ 31 + id) 31 = true).
    { apply Z.testbit_true; [lia|]. rewrite E31.
      replace (1 * 2147483648 + id) with (id + 1 * 2147483648) by lia.
      rewrite Z.div_add by lia. rewrite Z.div_small by lia. reflexivity. }
    congruence.
  - replace 536870911 with (Z.ones 29) by reflexivity. rewrite Z.land_ones by lia.
    replace (1 * 2 ^ 31 + id) with (id + 4 * 2 ^ 29) by lia.
    rewrite Z.mod_add by lia. apply Z.mod_small; lia.
Qed.

Lemma sff_id id : 0 <= id < 2 ^ 11 ->
  let x := Z.land id CAN_SFF_MASK in has_flag x CAN_EFF_FLAG = false /\ Z.land x CAN_SFF_MASK = id.
Proof.
  intros H x. subst x. unfold CAN_SFF_MASK, CAN_EFF_FLAG.
  assert (E11 : 2 ^ 11 = 2048) by reflexivity. assert (E31 : 2 ^ 31 = 2147483648) by reflexivity.
  assert (Em : Z.land id 2047 = id).
  { replace 2047 with (Z.ones 11) by reflexivity. rewrite Z.land_ones by lia. apply Z.mod_small. lia. }
  rewrite !Em. split; [|reflexivity].
  unfold has_flag. apply negb_false_iff. apply Z.eqb_eq.
  rewrite Z.land_comm. rewrite <- E31. replace (2 ^ 31) with (1 * 2 ^ 31) by lia.
  apply land_mul_pow2_small; lia.
Qed.

(** ** bind(): extension-byte options *)
Lemma has_flag_sub f a b : 0 <= f -> has_flag f (Z.lor a b) = false -> has_flag f a = false /\ has_flag f b = false.
Proof.
  unfold has_flag. intros Hf H. apply negb_false_iff in H. apply Z.eqb_eq in H.
  rewrite Z.land_lor_distr_r in H. apply Z.lor_eq_0_iff in H. destruct H as [-> ->]. auto.
Qed.

Lemma has_flag_cleared f m g : Z.land g m = g -> has_flag (Z.land f (Z.lnot m)) g = false.
Proof.
  intros Hg. unfold has_flag. apply negb_false_iff. apply Z.eqb_eq.
  apply Z.bits_inj'; intros n Hn. rewrite !Z.land_spec, Z.lnot_spec, Z.bits_0 by lia.
  assert (Hb : Z.testbit g n = Z.testbit g n && Z.testbit m n) by (rewrite <- Z.land_spec, Hg; reflexivity).
  destruct (Z.testbit f n), (Z.testbit m n), (Z.testbit g n); cbn in *; congruence.
Qed.

Definition id_in_range (m : amode) (id : Z) : Prop := 0 <= id < (if is29 m then 2 ^ 29 else 2 ^ 11).

(** The can_ids handed to bind(): the EFF flag exactly for 29-bit identifiers, the identifier
    itself under the mask - so the kernel emits the identifier the Python layer emits for
    physical addressing, with the same 11/29-bit type. *)
Theorem bind_ids txa rxa :
  id_in_range (a_mode txa) (tx_arb_id txa Physical) -> id_in_range (a_mode rxa) (rx_arb_id rxa Physical) ->
  let rxid' := if is29 (a_mode rxa) then Z.lor (Z.land (rx_arb_id rxa Physical) CAN_EFF_MASK) CAN_EFF_FLAG
               else Z.land (rx_arb_id rxa Physical) CAN_SFF_MASK in
  let txid' := if is29 (a_mode txa) then Z.lor (Z.land (tx_arb_id txa Physical) CAN_EFF_MASK) CAN_EFF_FLAG
               else Z.land (tx_arb_id txa Physical) CAN_SFF_MASK in
  forall k, kernel_tx_id (kapply k (Bind rxid' txid')) = Some (tx_arb_id txa Physical, is29 (a_mode txa)) /\
    forall id ext data,
      kernel_accepts (kapply k (Bind rxid' txid')) id ext data =
      Bool.eqb ext (is29 (a_mode rxa)) && (id =? rx_arb_id rxa Physical) &&
      match kernel_rx_byte k with None => true | Some b => match data with x :: _ => x =? b | [] => false end end.
Proof.
  unfold id_in_range. intros Ht Hr. cbv zeta. intros k.
  unfold kernel_tx_id, kernel_accepts, kernel_rx_byte. cbn [kapply k_bound k_flags k_rxext k_ext].
  split.
  - destruct (is29 (a_mode txa)).
    + destruct (eff_id _ Ht) as [H1 H2]. cbn zeta in H1, H2. rewrite H1, H2. reflexivity.
    + destruct (sff_id _ Ht) as [H1 H2]. cbn zeta in H1, H2. rewrite H1, H2. reflexivity.
  - intros id ext data. destruct (is29 (a_mode rxa)).
    + destruct (eff_id _ Hr) as [H1 H2]. cbn zeta in H1, H2. rewrite H1, H2. reflexivity.
    + destruct (sff_id _ Hr) as [H1 H2]. cbn zeta in H1, H2. rewrite H1, H2. reflexivity.
Qed.

(** With an address that uses a prefix byte, bind() sets EXTEND_ADDR and RX_EXT_ADDR with the
    transmit / receive extension bytes of the address and keeps every other option. *)
Theorem bind_ext_opts w txa rxa tb rb asym :
  kstate_ok (w_k w) -> w_bound w = false ->
  requires_ext_byte txa = true -> requires_ext_byte rxa = true ->
  tx_ext_byte txa = Some tb -> rx_ext_byte rxa = Some rb -> 0 <= tb <= 255 -> 0 <= rb <= 255 ->
  exists w' calls, w_bind w txa rxa asym = (w', ROk calls) /\ w_bound w' = true /\
    kernel_tx_prefix (w_k w') = [tb] /\ kernel_rx_byte (w_k w') = Some rb /\
    k_txtime (w_k w') = k_txtime (w_k w) /\ k_txpad (w_k w') = k_txpad (w_k w) /\ k_rxpad (w_k w') = k_rxpad (w_k w) /\
    k_txstmin (w_k w') = k_txstmin (w_k w) /\ k_bs (w_k w') = k_bs (w_k w) /\ k_mtu (w_k w') = k_mtu (w_k w) /\
    (forall f, has_flag (k_flags (w_k w)) f = true -> has_flag (k_flags (w_k w')) f = true).
Proof.
  intros Hk Hb Hrt Hrr Et Er Rt Rr. unfold w_bind. rewrite Hrt, Hrr. cbn [Bool.eqb negb andb orb].
  rewrite andb_false_r. rewrite Et, Er. cbn [opt_pyv]. unfold w_set_opts. rewrite Hb.
  set (f2 := Z.lor (Z.lor (k_flags (w_k w)) F_EXTEND_ADDR) F_RX_EXT_ADDR).
  assert (Hf2 : 0 <= f2 < 2 ^ 32).
  { apply lor_u32; [apply lor_u32; [exact (ok_flags _ Hk)|]|]; unfold u32, F_EXTEND_ADDR, F_RX_EXT_ADDR; lia. }
  destruct (general_write (w_k w) (VInt f2) VNone (VInt tb) VNone VNone (VInt rb) VNone) as [calls|] eqn:Eg.
  2:{ exfalso. apply general_write_invalid in Eg. cbn in Eg.
      destruct (Z.leb_spec 0 f2), (Z.leb_spec f2 4294967295), (Z.leb_spec 0 tb), (Z.leb_spec tb 255), (Z.leb_spec 0 rb), (Z.leb_spec rb 255);
        cbn in Eg; try lia; decompose [or] Eg; discriminate. }
  pose proof (general_write_effect _ _ _ _ _ _ _ _ _ Hk Eg) as Heff. cbn zeta in Heff.
  destruct Heff as (Hfl & Htt & Hex & Htp & Hrp & Hre & Hst & Hbs & _ & _ & Hmtu & _ & _ & Hbd & Hok' & _).
  cbn [apply_res]. eexists. eexists. split; [reflexivity|]. cbn [w_bound w_k].
  unfold kernel_tx_prefix, kernel_rx_byte. cbn [kapply k_flags k_ext k_rxext k_txtime k_txpad k_rxpad k_txstmin k_bs k_mtu].
  rewrite Hfl, Hex, Hre, Htt, Htp, Hrp, Hst, Hbs, Hmtu. unfold newv, new_flags, implied.
  assert (H1 : has_flag (Z.lor (Z.lor f2 F_EXTEND_ADDR) F_RX_EXT_ADDR) F_EXTEND_ADDR = true).
  { apply has_flag_lor_mono. apply has_flag_lor_self; unfold F_EXTEND_ADDR; lia. }
  assert (H2 : has_flag (Z.lor (Z.lor f2 F_EXTEND_ADDR) F_RX_EXT_ADDR) F_RX_EXT_ADDR = true).
  { apply has_flag_lor_self; unfold F_RX_EXT_ADDR; lia. }
  rewrite H1, H2. repeat split.
  intros f Hf. subst f2. repeat apply has_flag_lor_mono. exact Hf.
Qed.

(** With an address that uses no prefix byte, the kernel emits none and checks none after
    bind() - even if EXTEND_ADDR / RX_EXT_ADDR had been configured earlier. *)
Theorem bind_plain_opts w txa rxa asym :
  kstate_ok (w_k w) -> w_bound w = false ->
  requires_ext_byte txa = false -> requires_ext_byte rxa = false ->
  exists w' calls, w_bind w txa rxa asym = (w', ROk calls) /\ w_bound w' = true /\
    kernel_tx_prefix (w_k w') = [] /\ kernel_rx_byte (w_k w') = None /\
    k_txtime (w_k w') = k_txtime (w_k w) /\ k_txpad (w_k w') = k_txpad (w_k w) /\ k_rxpad (w_k w') = k_rxpad (w_k w) /\
    k_txstmin (w_k w') = k_txstmin (w_k w) /\ k_bs (w_k w') = k_bs (w_k w) /\ k_mtu (w_k w') = k_mtu (w_k w).
Proof.
  intros Hk Hb Hrt Hrr. unfold w_bind. rewrite Hrt, Hrr. cbn [Bool.eqb negb andb orb]. rewrite andb_false_r.
  destruct (has_flag (k_flags (w_k w)) (Z.lor F_EXTEND_ADDR F_RX_EXT_ADDR)) eqn:Ef.
  - unfold w_set_opts. rewrite Hb.
    set (f2 := Z.land (k_flags (w_k w)) (Z.lnot (Z.lor F_EXTEND_ADDR F_RX_EXT_ADDR))).
    assert (Hf2 : 0 <= f2 < 2 ^ 32).
    { pose proof (ok_flags _ Hk) as [H0 H1]. subst f2. split; [apply Z.land_nonneg; left; exact H0|].
      assert (Hle : Z.land (k_flags (w_k w)) (Z.lnot (Z.lor F_EXTEND_ADDR F_RX_EXT_ADDR)) <= k_flags (w_k w)).
      { rewrite <- Z.ldiff_land. set (a := k_flags (w_k w)) in *. set (b := Z.lor F_EXTEND_ADDR F_RX_EXT_ADDR).
        assert (Hs : Z.lor (Z.ldiff a b) (Z.land a b) = a) by apply Z.lor_ldiff_and.
        assert (Hd : Z.land (Z.ldiff a b) (Z.land a b) = 0).
        { rewrite Z.land_assoc. rewrite (Z.land_comm (Z.ldiff a b) a). rewrite <- Z.land_assoc. rewrite Z.land_ldiff. apply Z.land_0_r. }
        rewrite (lor_add_disjoint _ _ Hd) in Hs.
        assert (0 <= Z.land a b) by (apply Z.land_nonneg; left; exact H0). lia. }
      lia. }
    destruct (general_write (w_k w) (VInt f2) VNone VNone VNone VNone VNone VNone) as [calls|] eqn:Eg.
    2:{ exfalso. apply general_write_invalid in Eg. cbn in Eg.
        destruct (Z.leb_spec 0 f2), (Z.leb_spec f2 4294967295); cbn in Eg; try lia; decompose [or] Eg; discriminate. }
    pose proof (general_write_effect _ _ _ _ _ _ _ _ _ Hk Eg) as Heff. cbn zeta in Heff.
    destruct Heff as (Hfl & Htt & Hex & Htp & Hrp & Hre & Hst & Hbs & _ & _ & Hmtu & _).
    cbn [apply_res]. eexists. eexists. split; [reflexivity|]. cbn [w_bound w_k].
    unfold kernel_tx_prefix, kernel_rx_byte. cbn [kapply k_flags k_ext k_rxext k_txtime k_txpad k_rxpad k_txstmin k_bs k_mtu].
    rewrite Hfl, Htt, Htp, Hrp, Hst, Hbs, Hmtu. unfold newv, new_flags, implied. subst f2.
    rewrite (has_flag_cleared (k_flags (w_k w)) (Z.lor F_EXTEND_ADDR F_RX_EXT_ADDR) F_EXTEND_ADDR) by reflexivity.
    repeat split.
  - eexists. eexists. split; [reflexivity|]. cbn [w_bound w_k].
    unfold kernel_tx_prefix, kernel_rx_byte. cbn [kapply k_flags k_ext k_rxext k_txtime k_txpad k_rxpad k_txstmin k_bs k_mtu].
    destruct (has_flag_sub _ _ _ (proj1 (ok_flags _ Hk)) Ef) as [E1 _]. rewrite E1. repeat split.
Qed.
