(** Local (one-step) facts about pacing, completion, the generator and the rate limiter, used by
    the property files C08, C12, C15, C17. *)
From IsoTp Require Import Base.Prelude Model.Layer Model.FloatTables Spec.ConfigSpec Proofs.Inv Proofs.Events.

(** ** Pacing (C08) *)
Lemma timed_out_elapsed nw t : timer_timed_out nw t = true ->
  exists t0, t_start t = Some t0 /\ (t_timeout t < nw - t0 \/ t_timeout t = 0).
Proof.
  unfold timer_timed_out. destruct (t_start t) as [t0|]; [|discriminate].
  intros H. exists t0. split; [reflexivity|]. apply orb_true_iff in H.
  destruct H as [H|H]; [left; apply Z.ltb_lt; exact H|right; apply Z.eqb_eq; exact H].
Qed.

(** A Consecutive Frame is produced only when the STmin timer has expired ... *)
Lemma cf_gate c a s evs m : tr_msg (tx_cf c a s evs) = Some m -> timer_timed_out (now s) (timer_tx_stmin s) = true.
Proof.
  unfold tx_cf. destruct (remote_bs s); [|discriminate]. destruct (active s); [|discriminate].
  destruct (timer_timed_out _ _); [reflexivity|]. unfold tx_finish. discriminate.
Qed.

Lemma lim_inform_stmin p n s : timer_tx_stmin (lim_inform p n s) = timer_tx_stmin s /\ tx_state (lim_inform p n s) = tx_state s.
Proof.
  unfold lim_inform. destruct (negb (p_lim_enable p)); [auto|].
  destruct (lim_times s); [cbn; auto|]. destruct (SLOT_NS <? _); cbn; auto.
Qed.

(** ... and producing it restarts the timer at the current instant with the same separation time. *)
Lemma cf_restarts_timer c a s evs m :
  tr_msg (tx_cf c a s evs) = Some m -> tx_state (tr_s (tx_cf c a s evs)) = TxTransmitCF ->
  t_start (timer_tx_stmin (tr_s (tx_cf c a s evs))) = Some (now s) /\
  t_timeout (timer_tx_stmin (tr_s (tx_cf c a s evs))) = t_timeout (timer_tx_stmin s).
Proof.
  unfold tx_cf. destruct (remote_bs s) as [rbs|]; [|discriminate]. destruct (active s) as [r|]; [|discriminate].
  destruct (timer_timed_out _ _); [|unfold tx_finish; discriminate].
  destruct (_ <=? a); [|unfold tx_finish; discriminate].
  destruct (consume _ false r) as [[payload|] r']; [|discriminate].
  destruct (0 <? zlen payload).
  - destruct (make_tx_msg _ _ _) as [mm|]; [|discriminate].
    destruct (r_is_depleted r').
    + destruct (0 <? r_remaining r'); unfold stop_sending, tx_finish; cbn;
        intros _; rewrite (proj2 (lim_inform_stmin _ _ _)); cbn; discriminate.
    + destruct (negb (rbs =? 0) && _); unfold tx_finish; cbn; intros _.
      * rewrite (proj2 (lim_inform_stmin _ _ _)). cbn. discriminate.
      * intros _. rewrite (proj1 (lim_inform_stmin _ _ _)). cbn. auto.
  - destruct (r_is_depleted r').
    + destruct (0 <? r_remaining r'); unfold stop_sending, tx_finish; cbn; discriminate.
    + destruct (negb (rbs =? 0) && _); unfold tx_finish; cbn; discriminate.
Qed.

(** An accepted ContinueToSend programs the separation time: the override when set, the decoded
    STmin byte otherwise. *)
Lemma cts_sets_stmin c s fc :
  fc_status fc = FS_CTS -> timer_timed_out (now s) (timer_rx_fc s) = false ->
  let s' := fst (handle_fc_active c s fc) in
  t_timeout (timer_tx_stmin s') =
    (match p_override_stmin_ns (c_p c) with Some o => o | None => stmin_ns (fc_stmin fc) end) /\
  tx_state s' = TxTransmitCF /\ remote_bs s' = Some (fc_bs fc) /\
  (tx_state s = TxWaitFC -> t_start (timer_tx_stmin s') = Some (now s) /\ tx_block_counter s' = 0).
Proof.
  intros Hf Ht. unfold handle_fc_active. rewrite Hf, Ht. cbn.
  destruct (tx_state s); cbn; repeat split; intros; try discriminate; reflexivity.
Qed.

(** With a zero separation time a running timer is always expired: frames are not delayed. *)
Lemma zero_stmin_no_delay nw t : t_timeout t = 0 -> timer_running t = true -> timer_timed_out nw t = true.
Proof.
  unfold timer_running, timer_timed_out. intros H0. destruct (t_start t); [|discriminate].
  intros _. rewrite H0. apply orb_true_r.
Qed.

(** STmin decoding: exactly the documented values for every byte (the float computation of the
    implementation, FloatTables.stmin_float_ns, equals the integer table used by the model). *)
Lemma stmin_ns_table b : 0 <= b < 256 ->
  stmin_float_ns b = stmin_ns b /\
  (0 <= b <= 0x7F -> stmin_ns b = b * 1000000) /\ (0xF1 <= b <= 0xF9 -> stmin_ns b = (b - 0xF0) * 100000).
Proof.
  intros Hb. pose proof stmin_table as Ht. rewrite forallb_forall in Ht.
  assert (Hin : In b (zrange 0 (Z.to_nat 256))) by (apply zrange_In; lia).
  specialize (Ht b Hin). apply Z.eqb_eq in Ht. unfold stmin_ns.
  split; [exact Ht|].
  split; intros Hr.
  - destruct (Z.leb_spec 0 b), (Z.leb_spec b 127); try lia. reflexivity.
  - destruct (Z.leb_spec 0 b); [|lia]. destruct (Z.leb_spec b 127); [lia|]. cbn [andb].
    destruct (Z.leb_spec 241 b), (Z.leb_spec b 249); try lia. reflexivity.
Qed.

(** ** Completion of requests (C12) *)
Lemma stop_sending_completes b s :
  snd (stop_sending b s) = match active s with Some r => [EDone (r_id r) b] | None => [] end /\
  active (fst (stop_sending b s)) = None /\ tx_state (fst (stop_sending b s)) = TxIdle /\
  tx_queue (fst (stop_sending b s)) = tx_queue s.
Proof. unfold stop_sending. repeat split. Qed.

Lemma reset_completes_all c s :
  snd (reset c s) = map (fun r => EDone (r_id r) false) (tx_queue s) ++
                    match active s with Some r => [EDone (r_id r) false] | None => [] end /\
  tx_queue (fst (reset c s)) = [] /\ active (fst (reset c s)) = None /\
  tx_state (fst (reset c s)) = TxIdle /\ rx_state (fst (reset c s)) = RxIdle /\ rx_queue (fst (reset c s)) = [].
Proof. unfold reset, stop_sending. cbn. repeat split. Qed.

(** an empty payload is completed with success as soon as it is dequeued and is forgotten *)
Lemma empty_request_completed c r rest s evs allowed :
  r_is_depleted r = true ->
  idle_dequeue c (r :: rest) s evs allowed =
  idle_dequeue c rest (s <| active := None |>) (evs ++ [EDone (r_id r) true]) allowed.
Proof. intros H. simpl. rewrite H. reflexivity. Qed.

(** ** Generator (C17) *)
(** one consume() pulls at most the requested number of values *)
Lemma consume_pull_bound size exact r res r' :
  consume size exact r = (res, r') -> r_consumed r <= r_consumed r' <= r_consumed r + Z.max 0 size.
Proof.
  unfold consume. pose proof (gen_take_length size (r_gen r)) as Hl.
  destruct (gen_take size (r_gen r)) as [data g']. simpl in Hl. cbn.
  pose proof (zlen_nonneg data).
  destruct (r_size r <? _); [intros E; injection E as _ <-; cbn; lia|].
  destruct (zlen data <? size); [destruct exact|]; intros E; injection E as _ <-; cbn; lia.
Qed.

(** a generator that ends before the declared size while a Single / First Frame is built:
    BadGeneratorError, request failed, nothing emitted *)
Lemma start_request_short_generator c s r allowed :
  (forall k, 0 <= k -> fst (consume k true r) = None \/ k < 0) \/ True ->
  forall s' evs out, start_request c s r allowed = SRDone s' evs out ->
  (fst (consume (r_size r) true r) = None -> r_size r <= p_tx_dl (c_p c) - (if sf_on_first_byte c (r_remaining r) then 1 else 2) - zlen (c_tx_prefix c) ->
     out = None /\ exists e, evs = EErr BadGenerator :: e /\ forallb done_only e = true) .
Proof.
  intros _ s' evs out. unfold start_request.
  destruct (r_size r <=? _) eqn:Efit.
  - destruct (consume (r_size r) true r) as [[payload|] r'] eqn:Ec.
    + intros _ Hn. cbn in Hn. discriminate.
    + match goal with |- context [stop_sending false ?x] => pose proof (stop_sending_done false x) as Hd; destruct (stop_sending false x) as [s2 e2] end.
      intros E _ _. injection E as _ <- <-. split; [reflexivity|]. exists e2. auto.
  - intros _ _ Hle. apply Z.leb_gt in Efit. lia.
Qed.

(** ** Rate limiter (C15) *)
Lemma limiter_off_no_limit p s : p_lim_enable p = false -> lim_allowed_bytes p s = 0xFFFFFFFF.
Proof. intros H. unfold lim_allowed_bytes. rewrite H. reflexivity. Qed.

(** the budget check: a positive allowance means the bits already accounted in the live window
    slots plus the allowance stay within bitrate x window *)
Lemma limiter_allowance p s : 0 < p_lim_bd p -> p_lim_enable p = true ->
  0 <= lim_allowed_bytes p s /\
  8 * lim_allowed_bytes p s * p_lim_bd p + lim_total s * p_lim_bd p <= Z.max (p_lim_bn p) (lim_total s * p_lim_bd p).
Proof.
  intros Hbd He. unfold lim_allowed_bytes. rewrite He. cbn [negb].
  destruct (Z.leb_spec (p_lim_bn p - lim_total s * p_lim_bd p) 0) as [H|H].
  - lia.
  - split; [apply Z.div_pos; lia|].
    pose proof (Z.mul_div_le (p_lim_bn p - lim_total s * p_lim_bd p) (8 * p_lim_bd p) ltac:(lia)). lia.
Qed.

(** accounting: an emitted frame adds exactly its data-field bits *)
Lemma limiter_accounts p n s : p_lim_enable p = true -> lim_total (lim_inform p n s) = lim_total s + n * 8.
Proof.
  intros He. unfold lim_inform. rewrite He. cbn [negb].
  destruct (lim_times s); [reflexivity|]. destruct (SLOT_NS <? _); reflexivity.
Qed.

(** ms -> ns conversion of the timers: never above the exact value, at most 1 ns below it. *)
Lemma to_ns_bounds ms : 0 <= ms <= 20000 -> ms * 1000000 - 1 <= to_ns ms <= ms * 1000000.
Proof.
  intros H. pose proof to_ns_bounds_table as Ht. rewrite forallb_forall in Ht.
  specialize (Ht ms (zrange_In 0 (Z.to_nat 20001) ms ltac:(lia))).
  apply andb_true_iff in Ht. destruct Ht as [H1 H2]. apply Z.leb_le in H1, H2. lia.
Qed.
