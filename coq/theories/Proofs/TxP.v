(** C02: every data frame the sender builds is the frame of the reference segmentation that
    its counters designate: Single Frame / First Frame when a request is started, the j-th
    Consecutive Frame when [consumed = ff_cap + (j-1) cf_cap] and [tx_seqnum = j mod 16]. *)
From IsoTp Require Import Base.Prelude Base.Bits Model.Layer Spec.ConfigSpec Spec.AddrSpec Spec.Segment
  Proofs.FramesP Proofs.Inv Proofs.NoCrash Proofs.Codec.

Definition list_gen (l : list Z) : gen := {| g_items := l; g_fill := None |}.

Lemma gen_take_list n l : gen_take n (list_gen l) = (ztake n l, list_gen (zdrop n l)).
Proof. reflexivity. Qed.

Lemma lor_small a x k : 0 <= k -> 0 <= x < 2 ^ k -> Z.lor (a * 2 ^ k) x = a * 2 ^ k + x.
Proof. intros; apply lor_mul_pow2_add; assumption. Qed.

Lemma lor_10 x : 0 <= x < 16 -> Z.lor 0x10 x = 0x10 + x.
Proof. intros H. change 0x10 with (1 * 2 ^ 4). apply lor_small; [lia|exact H]. Qed.

Lemma lor_20 x : 0 <= x < 16 -> Z.lor 0x20 x = 0x20 + x.
Proof. intros H. change 0x20 with (2 * 2 ^ 4). apply lor_small; [lia|exact H]. Qed.

Lemma skipn_skipn' {A} (a b : nat) (l : list A) : skipn a (skipn b l) = skipn (b + a) l.
Proof.
  revert l. induction b as [|b IH]; intros l; [reflexivity|].
  destruct l as [|x l]; [destruct a; reflexivity|]. simpl. apply IH.
Qed.

Lemma lim_inform_fields p n s :
  active (lim_inform p n s) = active s /\ tx_seqnum (lim_inform p n s) = tx_seqnum s /\
  tx_block_counter (lim_inform p n s) = tx_block_counter s /\ tx_state (lim_inform p n s) = tx_state s.
Proof.
  unfold lim_inform. destruct (negb (p_lim_enable p)); [auto|].
  destruct (lim_times s); [cbn; auto|]. destruct (SLOT_NS <? _); cbn; auto.
Qed.

Lemma tx_finish_some p s evs m imm :
  tr_msg (tx_finish p s evs (Some m) imm) = Some m /\ tr_crash (tx_finish p s evs (Some m) imm) = false /\
  tr_evs (tx_finish p s evs (Some m) imm) = evs /\
  active (tr_s (tx_finish p s evs (Some m) imm)) = active s /\
  tx_seqnum (tr_s (tx_finish p s evs (Some m) imm)) = tx_seqnum s /\
  tx_block_counter (tr_s (tx_finish p s evs (Some m) imm)) = tx_block_counter s /\
  tx_state (tr_s (tx_finish p s evs (Some m) imm)) = tx_state s.
Proof.
  unfold tx_finish. cbn. destruct (lim_inform_fields p (zlen (f_data m)) s) as (H1 & H2 & H3 & H4). auto 10.
Qed.

Section Tx.
Variable c : cfg.
Hypothesis Hok : params_ok (c_p c).

Let pfx := c_tx_prefix c.
Let plen := zlen pfx.
Let tx_dl := p_tx_dl (c_p c).

Lemma plen_bounds : 0 <= plen <= 1.
Proof. apply prefix_len. Qed.

Lemma tx_dl_in : tx_dl = 8 \/ tx_dl = 12 \/ tx_dl = 16 \/ tx_dl = 20 \/ tx_dl = 24 \/ tx_dl = 32 \/ tx_dl = 48 \/ tx_dl = 64.
Proof. destruct Hok as (H & _). apply in_ll_sizes in H. exact H. Qed.

Lemma spec_frame_of_make id d :
  2 <= zlen d <= tx_dl -> make_tx_msg c id d = Some (spec_frame c id d).
Proof.
  intros Hl. destruct (make_tx_msg_spec c id d Hok Hl) as (E & _); [lia|]. exact E.
Qed.

(** the code's Single Frame decision is the reference one *)
Lemma pad_target_le8 x : 2 <= x <= 8 ->
  (pad_target (c_p c) x <=? 8) = negb (match p_tx_min_len (c_p c) with Some m => 8 <? m | None => false end).
Proof.
  intros Hx. pose proof tx_dl_in as Hdl. destruct Hok as (_ & Hml & _).
  unfold pad_target. change (p_tx_dl (c_p c)) with tx_dl.
  destruct (p_tx_min_len (c_p c)) as [m|] eqn:Em.
  - destruct (Hml m eq_refl) as [Hm1 Hm2]. apply in_min_lens in Hm1. change (p_tx_dl (c_p c)) with tx_dl in Hm2.
    destruct (Z.eqb_spec tx_dl 8) as [E8|N8].
    + destruct (Z.ltb_spec 8 m); [lia|]. cbn [negb]. apply Z.leb_le. lia.
    + unfold next_fd. destruct (Z.leb_spec x 8); [|lia].
      destruct (Z.ltb_spec 8 m); cbn [negb]; [apply Z.leb_gt|apply Z.leb_le]; lia.
  - cbn [negb]. destruct (Z.eqb_spec tx_dl 8) as [E8|N8].
    + destruct (p_tx_padding (c_p c)); apply Z.leb_le; lia.
    + unfold next_fd. destruct (Z.leb_spec x 8); [|lia]. apply Z.leb_le; lia.
Qed.

Lemma on_first_spec n : 1 <= n -> sf_on_first_byte c n = sf_short_ok c n.
Proof.
  intros Hn. unfold sf_on_first_byte, sf_short_ok.
  change (zlen (c_tx_prefix c)) with plen. change (zlen (Address.tx_prefix (c_txa c))) with plen.
  pose proof plen_bounds as Hp.
  destruct (Z.leb_spec (n + plen) 7) as [H7|H7].
  - destruct (Z.leb_spec (plen + 1 + n) 8) as [H8|H8]; [|lia].
    cbn [andb]. rewrite pad_target_le8 by lia. reflexivity.
  - destruct (Z.leb_spec (plen + 1 + n) 8) as [H8|H8]; [lia|]. reflexivity.
Qed.

Lemma fits_spec n : 1 <= n ->
  (n <=? tx_dl - (if sf_on_first_byte c n then 1 else 2) - plen) = is_single c n.
Proof.
  intros Hn. rewrite (on_first_spec n Hn). unfold is_single.
  pose proof plen_bounds as Hp. pose proof tx_dl_in as Hdl.
  destruct (sf_short_ok c n) eqn:Es.
  - cbn [orb]. unfold sf_short_ok in Es. change (zlen (Address.tx_prefix (c_txa c))) with plen in Es. apply andb_true_iff in Es. destruct Es as [E1 _].
    apply Z.leb_le in E1. apply Z.leb_le. lia.
  - cbn [orb]. unfold sf_escape_ok. change (zlen (Address.tx_prefix (c_txa c))) with plen. change (p_tx_dl (c_p c)) with tx_dl.
    destruct (Z.ltb_spec 8 tx_dl) as [Hg|Hg]; cbn [andb].
    + destruct (Z.leb_spec n (tx_dl - 2 - plen)), (Z.leb_spec (plen + 2 + n) tx_dl); try reflexivity; lia.
    + assert (tx_dl = 8) as E8 by lia.
      (* with an 8-byte link, "not short" means the payload does not fit 7 - plen bytes *)
      rewrite <- (on_first_spec n Hn) in Es. unfold sf_on_first_byte in Es. change (zlen (c_tx_prefix c)) with plen in Es.
      destruct Hok as (_ & Hml & _).
      assert (Hmn : negb (match p_tx_min_len (c_p c) with Some m => 8 <? m | None => false end) = true).
      { destruct (p_tx_min_len (c_p c)) as [m|] eqn:Em; [|reflexivity].
        destruct (Hml m eq_refl) as [_ Hm2]. fold tx_dl in Hm2. destruct (Z.ltb_spec 8 m); [lia|reflexivity]. }
      rewrite Hmn, andb_true_r in Es. apply Z.leb_gt in Es.
      apply Z.leb_gt. lia.
Qed.

(** Starting a request whose generator yields (at least) its payload. *)
Definition fresh_req (rid : Z) (payload extra : list Z) (t : tat) : request :=
  {| r_id := rid; r_gen := list_gen (payload ++ extra); r_size := zlen payload; r_consumed := 0;
     r_depleted := false; r_tat := t |}.

Lemma consume_prefix k payload extra rid t : 0 <= k <= zlen payload ->
  consume k true (fresh_req rid payload extra t) =
  (Some (ztake k payload),
   (fresh_req rid payload extra t) <| r_gen := list_gen (zdrop k (payload ++ extra)) |> <| r_consumed := k |>).
Proof.
  intros Hk. unfold consume, fresh_req. cbn [r_gen]. rewrite gen_take_list.
  assert (Ht : ztake k (payload ++ extra) = ztake k payload).
  { unfold ztake. rewrite firstn_app. replace (Z.to_nat k - length payload)%nat with 0%nat by (unfold zlen in Hk; lia).
    cbn. apply app_nil_r. }
  rewrite Ht. cbn.
  assert (Hl : zlen (ztake k payload) = k) by (rewrite zlen_ztake; lia).
  rewrite Hl. replace (0 + k) with k by lia.
  destruct (Z.ltb_spec (zlen payload) k); [lia|].
  destruct (Z.ltb_spec k k); [lia|]. reflexivity.
Qed.

(** Single Frame: the frame built is the reference one. *)
Theorem start_single s rid payload extra t allowed :
  1 <= zlen payload -> is_single c (zlen payload) = true ->
  let r := fresh_req rid payload extra t in
  let frame := hd_error (seg c t payload) in
  exists m, frame = Some m /\
    (zlen (f_data m) <= 64) /\
    ((allowed <? zlen (pfx ++ (if sf_short_ok c (zlen payload) then [zlen payload] else [0; zlen payload]) ++ payload)) = false ->
       exists s', start_request c (s <| active := Some r |>) r allowed = SRDone s' [EDone rid true] (Some m) /\
                  tx_state s' = TxIdle /\ active s' = None) /\
    ((allowed <? zlen (pfx ++ (if sf_short_ok c (zlen payload) then [zlen payload] else [0; zlen payload]) ++ payload)) = true ->
       exists s', start_request c (s <| active := Some r |>) r allowed = SRDone s' [] None /\
                  tx_state s' = TxSFStandby /\ tx_standby s' = Some m).
Proof.
  intros Hn Hsingle r frame.
  pose proof plen_bounds as Hp. pose proof tx_dl_in as Hdl.
  set (n := zlen payload) in *.
  set (hdr := if sf_short_ok c n then [n] else [0; n]).
  set (d := pfx ++ hdr ++ payload).
  assert (Hdlen : 2 <= zlen d <= tx_dl).
  { subst d hdr. rewrite !zlen_app. fold plen n.
    unfold is_single in Hsingle. destruct (sf_short_ok c n) eqn:Es.
    - unfold sf_short_ok in Es. change (zlen (Address.tx_prefix (c_txa c))) with plen in Es. apply andb_true_iff in Es. destruct Es as [E1 _]. apply Z.leb_le in E1.
      rewrite zlen_cons, zlen_nil. lia.
    - cbn [orb] in Hsingle. unfold sf_escape_ok in Hsingle. change (zlen (Address.tx_prefix (c_txa c))) with plen in Hsingle. change (p_tx_dl (c_p c)) with tx_dl in Hsingle.
      apply andb_true_iff in Hsingle. destruct Hsingle as [_ E2]. apply Z.leb_le in E2.
      rewrite !zlen_cons, zlen_nil. lia. }
  assert (Hseg : seg c t payload = [spec_frame c (Address.tx_arb_id (c_txa c) t) d]).
  { unfold seg. fold n. subst d hdr. unfold is_single in Hsingle.
    destruct (sf_short_ok c n); [reflexivity|]. cbn [orb] in Hsingle. rewrite Hsingle. reflexivity. }
  exists (spec_frame c (Address.tx_arb_id (c_txa c) t) d).
  split; [subst frame; rewrite Hseg; reflexivity|].
  split.
  { destruct (pad_message_data_spec (c_p c) d Hok Hdlen) as (_ & Hb & _); [lia|].
    cbn [spec_frame f_data]. rewrite zlen_app, zlen_zrepeat. fold tx_dl in Hb. lia. }
  assert (Hstart : forall q, start_request c (s <| active := Some r |>) r allowed = q ->
     q = (let s1 := (s <| active := Some r |>) <| active := Some (r <| r_gen := list_gen (zdrop n (payload ++ extra)) |> <| r_consumed := n |>) |> in
          if allowed <? zlen d then SRDone (s1 <| tx_standby := Some (spec_frame c (Address.tx_arb_id (c_txa c) t) d) |> <| tx_state := TxSFStandby |>) [] None
          else let '(s2, evs) := stop_sending true s1 in SRDone s2 evs (Some (spec_frame c (Address.tx_arb_id (c_txa c) t) d)))).
  { intros q <-. unfold start_request.
    change (r_remaining r) with (n - 0). replace (n - 0) with n by lia.
    change (r_size r) with n. fold pfx plen tx_dl.
    rewrite (fits_spec n Hn), Hsingle.
    subst r. rewrite (consume_prefix n payload extra rid t) by (subst n; lia).
    rewrite (ztake_all payload n) by (subst n; lia).
    rewrite (on_first_spec n Hn). fold n.
    change (Z.lor 0 n) with n.
    replace (Z.lor 0 (zlen payload)) with n by reflexivity.
    fold hdr. fold d.
    cbn [r_tat fresh_req set]. unfold c_tx_id.
    rewrite (spec_frame_of_make (Address.tx_arb_id (c_txa c) t) d Hdlen). reflexivity. }
  split.
  - intros Ha. specialize (Hstart _ eq_refl). fold d in Ha. rewrite Ha in Hstart. cbn in Hstart.
    eexists. split; [exact Hstart|]. split; reflexivity.
  - intros Ha. specialize (Hstart _ eq_refl). fold d in Ha. rewrite Ha in Hstart. cbn in Hstart.
    eexists. split; [exact Hstart|]. split; reflexivity.
Qed.


(** a request whose generator has already delivered [k] bytes of its payload *)
Definition adv_req (rid : Z) (payload extra : list Z) (t : tat) (k : Z) : request :=
  (fresh_req rid payload extra t) <| r_gen := list_gen (zdrop k (payload ++ extra)) |> <| r_consumed := k |>.

Lemma ff_header_code n : 0 < n < 2 ^ 32 ->
  (if n <=? 0xFFF then [Z.lor 0x10 (Z.land (Z.shiftr n 8) 0xF); Z.land n 0xFF]
   else [0x10; 0x00; Z.land (Z.shiftr n 24) 0xFF; Z.land (Z.shiftr n 16) 0xFF; Z.land (Z.shiftr n 8) 0xFF;
         Z.land (Z.shiftr n 0) 0xFF]) = ff_header n.
Proof.
  intros Hn. unfold ff_header. change 0xFFF with 4095.
  destruct (Z.leb_spec n 4095).
  - rewrite land_F, land_FF, shiftr_div by lia. change (2 ^ 8) with 256.
    assert (0 <= n / 256 < 16) by (split; [apply Z.div_pos; lia|apply Z.div_lt_upper_bound; lia]).
    rewrite Z.mod_small by lia. rewrite lor_10 by lia. reflexivity.
  - rewrite !land_FF, !shiftr_div by lia.
    change (2 ^ 24) with 16777216. change (2 ^ 16) with 65536. change (2 ^ 8) with 256. change (2 ^ 0) with 1.
    rewrite Z.div_1_r. reflexivity.
Qed.

(** First Frame: the frame built is the first frame of the reference segmentation; the
    generator has delivered exactly its payload bytes. *)
Theorem start_first s rid payload extra t allowed :
  1 <= zlen payload < 2 ^ 32 -> is_single c (zlen payload) = false ->
  let n := zlen payload in
  let r := fresh_req rid payload extra t in
  let d := pfx ++ ff_header n ++ ztake (ff_cap c n) payload in
  let ff := spec_frame c (Address.tx_arb_id (c_txa c) Physical) d in
  hd_error (seg c t payload) = Some ff /\ 0 < ff_cap c n < n /\
  ((zlen d <=? allowed) = true ->
     exists s', start_request c (s <| active := Some r |>) r allowed = SRDone s' [] (Some ff) /\
       tx_state s' = TxWaitFC /\ active s' = Some (adv_req rid payload extra t (ff_cap c n)) /\
       tx_seqnum s' = 1 /\ t_start (timer_rx_fc s') = Some (now s) /\ tx_standby s' = tx_standby s) /\
  ((zlen d <=? allowed) = false ->
     exists s', start_request c (s <| active := Some r |>) r allowed = SRDone s' [] None /\
       tx_state s' = TxFFStandby /\ active s' = Some (adv_req rid payload extra t (ff_cap c n)) /\
       tx_seqnum s' = 1 /\ tx_standby s' = Some ff).
Proof.
  intros Hn Hmulti n r d ff.
  assert (Hnn : n = zlen payload) by reflexivity. rewrite <- Hnn in Hn, Hmulti.
  pose proof plen_bounds as Hp. pose proof tx_dl_in as Hdl.
  assert (Hcap : 0 < ff_cap c n < n).
  { unfold ff_cap. change (zlen (Address.tx_prefix (c_txa c))) with plen. change (p_tx_dl (c_p c)) with tx_dl.
    unfold is_single in Hmulti. apply orb_false_iff in Hmulti. destruct Hmulti as [Hs He].
    unfold sf_escape_ok in He. change (zlen (Address.tx_prefix (c_txa c))) with plen in He. change (p_tx_dl (c_p c)) with tx_dl in He.
    rewrite <- (on_first_spec n ltac:(lia)) in Hs. unfold sf_on_first_byte in Hs. change (zlen (c_tx_prefix c)) with plen in Hs.
    destruct (Z.leb_spec n 4095).
    - split; [lia|].
      destruct (Z.ltb_spec 8 tx_dl) as [Hg|Hg]; cbn [andb] in He.
      + apply Z.leb_gt in He. lia.
      + assert (tx_dl = 8) as E8 by lia.
        destruct Hok as (_ & Hml & _).
        assert (Hmn : negb (match p_tx_min_len (c_p c) with Some m => 8 <? m | None => false end) = true).
        { destruct (p_tx_min_len (c_p c)) as [m|] eqn:Em; [|reflexivity].
          destruct (Hml m eq_refl) as [_ Hm2]. change (p_tx_dl (c_p c)) with tx_dl in Hm2. destruct (Z.ltb_spec 8 m); [lia|reflexivity]. }
        rewrite Hmn, andb_true_r in Hs. apply Z.leb_gt in Hs. lia.
    - lia. }
  assert (Hdlen : zlen d = tx_dl).
  { subst d. rewrite !zlen_app. rewrite zlen_ztake by lia. change (zlen pfx) with plen.
    unfold ff_header. unfold ff_cap in Hcap |- *. change (zlen (Address.tx_prefix (c_txa c))) with plen in Hcap |- *. change (p_tx_dl (c_p c)) with tx_dl in Hcap |- *.
    destruct (Z.leb_spec n 4095); rewrite ?zlen_cons, ?zlen_nil; lia. }
  split.
  { unfold seg. fold n. unfold is_single in Hmulti. apply orb_false_iff in Hmulti. destruct Hmulti as [-> ->]. reflexivity. }
  split; [exact Hcap|].
  assert (Hstart : forall q, start_request c (s <| active := Some r |>) r allowed = q ->
    q = (let s1 := (s <| active := Some r |>) <| tx_frame_length := n |> <| active := Some (adv_req rid payload extra t (ff_cap c n)) |> <| tx_seqnum := 1 |> in
         if zlen d <=? allowed then SRDone (start_rx_fc_timer c (s1 <| tx_state := TxWaitFC |>)) [] (Some ff)
         else SRDone (s1 <| tx_standby := Some ff |> <| tx_state := TxFFStandby |>) [] None)).
  { intros q <-. unfold start_request.
    change (r_remaining r) with (n - 0). replace (n - 0) with n by lia. change (r_size r) with n.
    change (zlen (c_tx_prefix c)) with plen. change (p_tx_dl (c_p c)) with tx_dl.
    rewrite (fits_spec n ltac:(lia)), Hmulti.
    assert (Hdl2 : (if n <=? 0xFFF then tx_dl - 2 - plen else tx_dl - 6 - plen) = ff_cap c n).
    { unfold ff_cap. change 0xFFF with 4095. reflexivity. }
    rewrite Hdl2.
    subst r. rewrite (consume_prefix (ff_cap c n) payload extra rid t) by (fold n; lia).
    rewrite (ff_header_code n) by lia.
    fold pfx. fold d. unfold c_tx_id.
    rewrite (spec_frame_of_make (Address.tx_arb_id (c_txa c) Physical) d) by lia.
    fold ff. reflexivity. }
  split.
  - intros Ha. specialize (Hstart _ eq_refl). rewrite Ha in Hstart. cbn in Hstart.
    eexists. split; [exact Hstart|]. cbn. repeat split.
  - intros Ha. specialize (Hstart _ eq_refl). rewrite Ha in Hstart. cbn in Hstart.
    eexists. split; [exact Hstart|]. cbn. repeat split.
Qed.

(** Consecutive Frame number j: when the sender is in TRANSMIT_CF with the generator advanced by
    [ff_cap + (j-1) cf_cap] bytes and tx_seqnum = j mod 16, the frame it builds (once the STmin
    timer and the rate limiter allow) is the j-th Consecutive Frame of the reference
    segmentation, and its counters move on to j+1. *)
Theorem cf_step s evs rid payload extra t j rbs allowed :
  let n := zlen payload in
  let k := ff_cap c n + (j - 1) * cf_cap c in
  1 <= j -> 0 < ff_cap c n -> k < n ->
  tx_state s = TxTransmitCF -> remote_bs s = Some rbs ->
  active s = Some (adv_req rid payload extra t k) -> tx_seqnum s = j mod 16 ->
  timer_timed_out (now s) (timer_tx_stmin s) = true ->
  Z.min (cf_cap c) (n - k) <= allowed ->
  let r := tx_cf c allowed s evs in
  tr_msg r = Some (spec_frame c (Address.tx_arb_id (c_txa c) Physical) (cf_data c payload j)) /\
  tr_crash r = false /\
  (k + cf_cap c < n ->
     active (tr_s r) = Some (adv_req rid payload extra t (k + cf_cap c)) /\
     tx_seqnum (tr_s r) = (j + 1) mod 16 /\ tx_block_counter (tr_s r) = tx_block_counter s + 1 /\
     (tx_state (tr_s r) = TxTransmitCF \/ tx_state (tr_s r) = TxWaitFC) /\ tr_evs r = evs) /\
  (n <= k + cf_cap c ->
     tx_state (tr_s r) = TxIdle /\ active (tr_s r) = None /\ tr_evs r = evs ++ [EDone rid true]).
Proof.
  intros n k Hj Hff Hk Hst Hrb Hact Hsq Hto Hall r.
  pose proof plen_bounds as Hp. pose proof tx_dl_in as Hdl.
  assert (Hcf : cf_cap c = tx_dl - 1 - plen) by reflexivity.
  assert (Hcfpos : 6 <= cf_cap c) by lia.
  assert (Hk0 : 0 <= k).
  { subst k. assert (0 <= (j - 1) * cf_cap c) by (apply Z.mul_nonneg_nonneg; lia). lia. }
  subst r. unfold tx_cf. rewrite Hrb, Hact, Hto.
  change (zlen (c_tx_prefix c)) with plen. change (p_tx_dl (c_p c)) with tx_dl. rewrite <- Hcf.
  change (r_remaining (adv_req rid payload extra t k)) with (n - k).
  destruct (Z.leb_spec (Z.min (cf_cap c) (n - k)) allowed) as [_|Hx]; [|lia].
  set (m := Z.min (cf_cap c) (n - k)).
  assert (Hm : 1 <= m) by (subst m; lia).
  (* what the generator delivers *)
  assert (Hcons : consume m false (adv_req rid payload extra t k) =
            (Some (ztake m (zdrop k payload)), adv_req rid payload extra t (k + m))).
  { unfold consume, adv_req, fresh_req. cbn [r_gen set]. rewrite gen_take_list. cbn.
    assert (Ht : ztake m (zdrop k (payload ++ extra)) = ztake m (zdrop k payload)).
    { unfold ztake, zdrop. rewrite skipn_app. rewrite firstn_app.
      replace (Z.to_nat m - length (skipn (Z.to_nat k) payload))%nat with 0%nat.
      - cbn. apply app_nil_r.
      - rewrite skipn_length. unfold zlen in *. subst m n. lia. }
    rewrite Ht.
    assert (Hl : zlen (ztake m (zdrop k payload)) = m).
    { rewrite zlen_ztake by lia. rewrite zlen_zdrop by lia. fold n. subst m. lia. }
    rewrite Hl. change (zlen payload) with n.
    destruct (Z.ltb_spec n (k + m)); [subst m; lia|].
    destruct (Z.ltb_spec m m); [lia|].
    f_equal. unfold adv_req, fresh_req, zdrop. cbn.
    rewrite skipn_skipn'. rewrite <- Z2Nat.inj_add by lia. reflexivity. }
  rewrite Hcons.
  assert (Hl : zlen (ztake m (zdrop k payload)) = m).
  { rewrite zlen_ztake by lia. rewrite zlen_zdrop by exact Hk0. fold n. subst m. lia. }
  rewrite Hl. destruct (Z.ltb_spec 0 m); [|lia].
  cbn [tx_seqnum set]. rewrite Hsq.
  rewrite lor_20 by (apply Z.mod_pos_bound; lia).
  assert (Hdata : pfx ++ [32 + j mod 16] ++ ztake m (zdrop k payload) = cf_data c payload j).
  { unfold cf_data. fold n. fold k. change (Address.tx_prefix (c_txa c)) with pfx. f_equal. f_equal.
    subst m. destruct (Z.min_spec (cf_cap c) (n - k)) as [[_ ->]|[Hle ->]]; [reflexivity|].
    rewrite !ztake_all; [reflexivity| |]; rewrite zlen_zdrop by exact Hk0; fold n; lia. }
  change (c_tx_prefix c) with pfx. rewrite Hdata. unfold c_tx_id.
  assert (Hdl2 : 2 <= zlen (cf_data c payload j) <= tx_dl).
  { rewrite <- Hdata. rewrite !zlen_app, Hl, zlen_cons, zlen_nil. change (zlen pfx) with plen. subst m. lia. }
  rewrite (spec_frame_of_make _ _ Hdl2).
  unfold r_is_depleted. change (r_remaining (adv_req rid payload extra t (k + m))) with (n - (k + m)).
  change (r_depleted (adv_req rid payload extra t (k + m))) with false. rewrite orb_false_r.
  set (fr := spec_frame c (Address.tx_arb_id (c_txa c) Physical) (cf_data c payload j)).
  destruct (Z.leb_spec (n - (k + m)) 0) as [Hdone|Hmore].
  - (* last frame *)
    destruct (Z.ltb_spec 0 (n - (k + m))); [lia|].
    unfold stop_sending. cbn [active set].
    match goal with |- context [tx_finish ?p ?s5 ?e (Some fr) false] =>
      destruct (tx_finish_some p s5 e fr false) as (F1 & F2 & F3 & F4 & F5 & F6 & F7) end.
    split; [exact F1|]. split; [exact F2|].
    split; [intros Hc; subst m; lia|].
    intros _. rewrite F7, F4, F3. cbn. repeat split.
  - assert (Hm2 : m = cf_cap c) by (subst m; lia).
    destruct (negb (rbs =? 0) && _).
    + match goal with |- context [tx_finish ?p ?s5 ?e (Some fr) true] =>
        destruct (tx_finish_some p s5 e fr true) as (F1 & F2 & F3 & F4 & F5 & F6 & F7) end.
      split; [exact F1|]. split; [exact F2|].
      split; [|intros Hc; lia].
      intros _. rewrite F4, F5, F6, F7, F3. cbn. rewrite Hm2. repeat split.
      * rewrite land_F. rewrite Z.add_mod_idemp_l by lia. reflexivity.
      * right; reflexivity.
    + match goal with |- context [tx_finish ?p ?s5 ?e (Some fr) false] =>
        destruct (tx_finish_some p s5 e fr false) as (F1 & F2 & F3 & F4 & F5 & F6 & F7) end.
      split; [exact F1|]. split; [exact F2|].
      split; [|intros Hc; lia].
      intros _. rewrite F4, F5, F6, F7, F3. cbn. rewrite Hm2. repeat split.
      * rewrite land_F. rewrite Z.add_mod_idemp_l by lia. reflexivity.
      * left; exact Hst.
Qed.

End Tx.
