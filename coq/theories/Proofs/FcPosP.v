(** C03 at run level, with the Flow Control answers: a receiver that answers each pending Flow
    Control at once emits, for a well-formed multi-frame stream, exactly one reference Flow Control
    after the First Frame and one after every [blocksize]-th Consecutive Frame except the last -
    and nothing else. *)
From IsoTp Require Import Base.Prelude Base.Bits Model.Layer Spec.ConfigSpec Spec.Stream Spec.Segment
  Proofs.Codec Proofs.FramesP Proofs.RxP Proofs.SegP.

Definition rx_with_fc (c : cfg) (s : layer) (f : frame) : layer * list event * option frame :=
  let r := process_rx c s f in
  if pending_fc (rr_s r) then
    let t := process_tx c (rr_s r) in (tr_s t, rr_evs r ++ tr_evs t, tr_msg t)
  else (rr_s r, rr_evs r, None).

Fixpoint rx_run_fc (c : cfg) (s : layer) (fs : list (list Z)) (mk : list Z -> frame)
  : layer * list event * list (option frame) :=
  match fs with
  | [] => (s, [], [])
  | d :: r =>
      let '(s1, e1, o1) := rx_with_fc c s (mk d) in
      let '(s2, e2, o2) := rx_run_fc c s1 r mk in (s2, e1 ++ e2, o1 :: o2)
  end.

(** the transmit pass that answers a pending Flow Control: its effect on the state *)
Lemma fc_pass_state c s : pending_fc s = true -> p_listen (c_p c) = false ->
  tr_s (process_tx c s) =
  (if opt_eqb (pending_fc_status s) (Some FS_CTS) then start_rx_cf_timer c (s <| pending_fc := false |>)
   else s <| pending_fc := false |>).
Proof.
  intros Hp Hl. unfold process_tx. rewrite Hp, Hl. cbn [negb]. cbn [pending_fc_status set RecordSet.set].
  destruct (opt_eqb _ _); (destruct (pending_fc_status _) as [st|]; [destruct (make_flow_control c st)|]); reflexivity.
Qed.

Lemma zseq_one j : 0 <= j -> zseq j 1 = [j].
Proof. intros H. rewrite (zseq_cons j 1) by lia. rewrite zseq_nil by lia. reflexivity. Qed.

Lemma wf_cfs_nonempty k T j rest frames : wf_cfs k T j rest frames -> 1 <= zlen frames.
Proof. intros H. destruct H; rewrite zlen_cons; [rewrite zlen_nil; lia|]. pose proof (zlen_nonneg tl). lia. Qed.

Section Fc.
Variable c : cfg.
Variable mk : list Z -> frame.
Hypothesis mk_data : forall d, f_data (mk d) = d.
Hypothesis Hok : params_ok (c_p c).
Hypothesis Hl : p_listen (c_p c) = false.
Let k := c_rx_prefix_size c.
Let bs := p_blocksize (c_p c).
Let fcref := spec_frame c (Address.tx_arb_id (c_txa c) Physical)
               (Address.tx_prefix (c_txa c) ++ [0x30 + FS_CTS; p_blocksize (c_p c); p_stmin (c_p c)]).

(** is a Flow Control due after Consecutive Frame number [i] of [ncf]? *)
Definition fc_due (i ncf : Z) : bool := (0 <? bs) && (i mod bs =? 0) && (i <? ncf).

Lemma rx_cfs_fc T : In T LL_SIZES -> forall j rest frames, wf_cfs k T j rest frames ->
  forall s, 1 <= j ->
    rx_state s = RxWaitCF -> actual_rxdl s = Some T ->
    rx_frame_length s = zlen (rx_buffer s) + zlen rest ->
    last_seqnum s = (j - 1) mod 16 -> rx_block_counter s = j - 1 -> pending_fc s = false ->
    let '(s', evs, fcs) := rx_run_fc c s frames mk in
    evs = [] /\ rx_queue s' = rx_queue s ++ [rx_buffer s ++ rest] /\ rx_state s' = RxIdle /\ pending_fc s' = false /\
    fcs = map (fun i => if fc_due i (j - 1 + zlen frames) then Some fcref else None) (zseq j (zlen frames)).
Proof.
  intros HT. pose proof (in_ll_sizes T HT) as HTs.
  assert (Hk : 0 <= k <= 1) by (subst k; unfold c_rx_prefix_size, Address.rx_prefix_size; destruct (Address.requires_ext_byte _); lia).
  induction 1 as [j rest pre pad Hpre Hne Hlen Hmax | j chunk rest pre tl Hpre Hchunk Hne Hcfs IH];
    intros s Hj Hst Hdl Hfl Hsq Hbc Hpf.
  - (* last frame: delivered, no Flow Control *)
    cbn [rx_run_fc]. unfold rx_with_fc.
    assert (Hr : exists s1, process_rx c s (mk (pre ++ (32 + j mod 16) :: rest ++ pad)) = mk_rr s1 [] false true /\
               rx_queue s1 = rx_queue s ++ [rx_buffer s ++ rest] /\ rx_state s1 = RxIdle /\ pending_fc s1 = false).
    { unfold process_rx. rewrite mk_data. change (c_rx_prefix_size c) with k.
      rewrite (decode_cf pre (j mod 16) (rest ++ pad) k Hpre) by (apply Z.mod_pos_bound; lia).
      cbn [d_pdu d_can_dl d_rx_dl]. rewrite Hst. cbv iota.
      rewrite Hsq, seq_next by lia. rewrite Z.eqb_refl.
      set (rxdl := Z.max 8 _).
      replace (rx_frame_length s - zlen (rx_buffer s)) with (zlen rest) by lia.
      assert (Hrest : 0 < zlen rest). { destruct rest; [congruence|rewrite zlen_cons; pose proof (zlen_nonneg rest); lia]. }
      assert (Hchk : negb (opt_eqb (Some rxdl) (actual_rxdl s)) && (rxdl <? zlen rest) = false).
      { apply andb_false_iff. right. apply Z.ltb_ge. subst rxdl.
        rewrite zlen_app, zlen_cons, zlen_app. pose proof (zlen_nonneg pad). pose proof (zlen_nonneg pre). lia. }
      rewrite Hchk. rewrite (ztake_app_exact rest pad) by reflexivity.
      cbn [rx_frame_length rx_buffer start_rx_cf_timer].
      assert (Hdone : (rx_frame_length s <=? zlen (rx_buffer s ++ rest)) = true).
      { apply Z.leb_le. rewrite zlen_app. lia. }
      cbn. rewrite Hdone. cbn. eexists. split; [reflexivity|]. cbn. auto. }
    destruct Hr as (s1 & Hr & Hq & Hi & Hp1). rewrite Hr. cbn [rr_s rr_evs mk_rr]. rewrite Hp1.
    repeat split; auto.
    rewrite zlen_cons, zlen_nil. change (1 + 0) with 1. rewrite (zseq_one j) by lia. cbn [map].
    unfold fc_due. replace (j <? j - 1 + 1) with false by (symmetry; apply Z.ltb_ge; lia).
    rewrite andb_false_r. reflexivity.
  - (* a full frame followed by more *)
    cbn [rx_run_fc]. unfold rx_with_fc.
    assert (Hrest : 0 < zlen rest). { destruct rest; [congruence|rewrite zlen_cons; pose proof (zlen_nonneg rest); lia]. }
    pose proof (wf_cfs_nonempty _ _ _ _ _ Hcfs) as Htl.
    set (due := (0 <? bs) && (j mod bs =? 0)).
    assert (Hr : exists s1, process_rx c s (mk (pre ++ (32 + j mod 16) :: chunk)) = mk_rr s1 [] due false /\
               rx_state s1 = RxWaitCF /\ actual_rxdl s1 = Some T /\ rx_frame_length s1 = rx_frame_length s /\
               rx_buffer s1 = rx_buffer s ++ chunk /\ last_seqnum s1 = j mod 16 /\ rx_block_counter s1 = j /\
               rx_queue s1 = rx_queue s /\ pending_fc s1 = due /\ (due = true -> pending_fc_status s1 = Some FS_CTS)).
    { unfold process_rx. rewrite mk_data. change (c_rx_prefix_size c) with k.
      rewrite (decode_cf pre (j mod 16) chunk k Hpre) by (apply Z.mod_pos_bound; lia).
      cbn [d_pdu d_can_dl d_rx_dl]. rewrite Hst. cbv iota.
      rewrite Hsq, seq_next by lia. rewrite Z.eqb_refl.
      assert (Hrxdl : Z.max 8 (zlen (pre ++ (32 + j mod 16) :: chunk)) = T).
      { rewrite zlen_app, zlen_cons. lia. }
      rewrite Hrxdl, Hdl. cbn [opt_eqb]. rewrite Z.eqb_refl. cbn [negb andb].
      rewrite zlen_app in Hfl.
      rewrite (ztake_all chunk) by lia.
      cbn [rx_frame_length rx_buffer start_rx_cf_timer].
      assert (Hnot : (rx_frame_length s <=? zlen (rx_buffer s ++ chunk)) = false).
      { apply Z.leb_gt. rewrite zlen_app. lia. }
      cbn. rewrite Hnot. cbn. rewrite Hbc. replace (j - 1 + 1) with j by lia. fold bs. fold due.
      destruct due; cbn; rewrite ?Hpf; eexists; (split; [reflexivity|]); cbn; repeat split; auto; try discriminate. }
    destruct Hr as (s1 & Hr & H1 & H2 & H3 & H4 & H5 & H6 & H7 & H8 & H9). rewrite Hr. cbn [rr_s rr_evs mk_rr]. rewrite H8.
    assert (Hfcd : fc_due j (j - 1 + zlen ((pre ++ (32 + j mod 16) :: chunk) :: tl)) = due).
    { unfold fc_due. fold due. rewrite zlen_cons.
      replace (j <? j - 1 + (1 + zlen tl)) with true; [apply andb_true_r|]. symmetry. apply Z.ltb_lt. lia. }
    destruct due eqn:Edue.
    + (* block boundary: the Flow Control goes out at once *)
      destruct (fc_answer c s1 FS_CTS Hok Hl H8 (H9 eq_refl) (or_introl eq_refl)) as (Hm & He & _ & _ & _ & _ & _).
      rewrite Hm, He. pose proof (fc_pass_state c s1 H8 Hl) as Hps. rewrite (H9 eq_refl) in Hps. cbn [opt_eqb] in Hps.
      rewrite Z.eqb_refl in Hps. rewrite Hps.
      set (s2 := start_rx_cf_timer c (s1 <| pending_fc := false |>)).
      assert (P1 : rx_state s2 = RxWaitCF) by exact H1.
      assert (P2 : actual_rxdl s2 = Some T) by exact H2.
      assert (P3 : rx_frame_length s2 = zlen (rx_buffer s2) + zlen rest).
      { change (rx_frame_length s2) with (rx_frame_length s1). change (rx_buffer s2) with (rx_buffer s1).
        rewrite H3, H4, zlen_app. rewrite zlen_app in Hfl. lia. }
      assert (P4 : last_seqnum s2 = (j + 1 - 1) mod 16).
      { change (last_seqnum s2) with (last_seqnum s1). rewrite H5. f_equal. lia. }
      assert (P5 : rx_block_counter s2 = j + 1 - 1).
      { change (rx_block_counter s2) with (rx_block_counter s1). lia. }
      assert (P6 : pending_fc s2 = false) by reflexivity.
      specialize (IH s2 ltac:(lia) P1 P2 P3 P4 P5 P6).
      change (rx_queue s2) with (rx_queue s1) in IH. change (rx_buffer s2) with (rx_buffer s1) in IH.
      destruct (rx_run_fc c _ tl mk) as [[s' evs] fcs].
      destruct IH as (He' & Hq' & Hs' & Hp' & Hf').
      subst evs. cbn [app]. rewrite Hq', H7, H4, <- app_assoc. repeat split; auto.
      rewrite (zseq_cons j) by (rewrite ?zlen_cons; pose proof (zlen_nonneg tl); lia). cbn [map]. rewrite Hfcd.
      f_equal. rewrite Hf'. rewrite zlen_cons. replace (1 + zlen tl - 1) with (zlen tl) by lia.
      apply map_ext. intros i. replace (j + 1 - 1 + zlen tl) with (j - 1 + (1 + zlen tl)) by lia. reflexivity.
    + assert (P3 : rx_frame_length s1 = zlen (rx_buffer s1) + zlen rest).
      { rewrite H3, H4, zlen_app. rewrite zlen_app in Hfl. lia. }
      assert (P4 : last_seqnum s1 = (j + 1 - 1) mod 16) by (rewrite H5; f_equal; lia).
      assert (P5 : rx_block_counter s1 = j + 1 - 1) by lia.
      specialize (IH s1 ltac:(lia) H1 H2 P3 P4 P5 H8).
      destruct (rx_run_fc c _ tl mk) as [[s' evs] fcs].
      destruct IH as (He' & Hq' & Hs' & Hp' & Hf').
      subst evs. cbn [app]. rewrite Hq', H7, H4, <- app_assoc. repeat split; auto.
      rewrite (zseq_cons j) by (rewrite ?zlen_cons; pose proof (zlen_nonneg tl); lia). cbn [map]. rewrite Hfcd.
      f_equal. rewrite Hf'. rewrite zlen_cons. replace (1 + zlen tl - 1) with (zlen tl) by lia.
      apply map_ext. intros i. replace (j + 1 - 1 + zlen tl) with (j - 1 + (1 + zlen tl)) by lia. reflexivity.
Qed.

(** The whole multi-frame stream, from an idle receiver: delivered intact, no error, and the Flow
    Controls emitted are: one after the First Frame, one after every [blocksize]-th Consecutive
    Frame that is not the last, each equal to the reference frame; none elsewhere. *)
Theorem rx_stream_fc p T pre first rest cfs s :
  In T LL_SIZES -> zlen pre = k -> p = first ++ rest -> rest <> [] -> 0 < zlen p < 2 ^ 32 ->
  zlen (pre ++ ff_hdr (zlen p) ++ first) = T -> wf_cfs k T 1 rest cfs ->
  zlen p <= p_max_frame_size (c_p c) -> rx_state s = RxIdle -> pending_fc s = false ->
  let '(s', evs, fcs) := rx_run_fc c s ((pre ++ ff_hdr (zlen p) ++ first) :: cfs) mk in
  evs = [] /\ rx_queue s' = rx_queue s ++ [p] /\ rx_state s' = RxIdle /\
  fcs = Some fcref :: map (fun i => if fc_due i (zlen cfs) then Some fcref else None) (zseq 1 (zlen cfs)).
Proof.
  intros HT Hpre Hp Hne Hn Hlen Hcfs Hmax Hidle Hpf.
  pose proof (in_ll_sizes T HT) as HTs.
  assert (Hk : 0 <= k <= 1) by (subst k; unfold c_rx_prefix_size, Address.rx_prefix_size; destruct (Address.requires_ext_byte _); lia).
  cbn [rx_run_fc]. unfold rx_with_fc.
  assert (Hrest : 0 < zlen rest). { destruct rest; [congruence|rewrite zlen_cons; pose proof (zlen_nonneg rest); lia]. }
  assert (Hpl : zlen p = zlen first + zlen rest) by (rewrite Hp, zlen_app; reflexivity).
  pose proof (zlen_nonneg first) as Hf0.
  assert (Hdec : exists esc, pdu_decode (pre ++ ff_hdr (zlen p) ++ first) k =
            Some {| d_pdu := PFF esc (zlen p) first; d_can_dl := T; d_rx_dl := T |}).
  { unfold ff_hdr in *. destruct (Z.leb_spec (zlen p) 4095) as [Hs|Hl'].
    - exists false. cbn [app] in *. rewrite (decode_ff_short pre (zlen p) first k Hpre) by lia.
      rewrite Hlen. f_equal. f_equal; [|lia]. f_equal. apply ztake_all. lia.
    - exists true. cbn [app] in *. rewrite (decode_ff_long pre (zlen p) first k Hpre) by lia.
      rewrite Hlen. f_equal. f_equal; [|lia]. f_equal. apply ztake_all. lia. }
  destruct Hdec as [esc Hdec].
  set (ffd := pre ++ ff_hdr (zlen p) ++ first) in *.
  assert (Hrr : exists s1, process_rx c s (mk ffd) = mk_rr s1 [] true false /\
            rx_state s1 = RxWaitCF /\ actual_rxdl s1 = Some T /\ rx_frame_length s1 = zlen p /\
            rx_buffer s1 = first /\ last_seqnum s1 = 0 /\ rx_block_counter s1 = 0 /\ rx_queue s1 = rx_queue s /\
            pending_fc s1 = true /\ pending_fc_status s1 = Some FS_CTS).
  { unfold process_rx. rewrite mk_data. change (c_rx_prefix_size c) with k. rewrite Hdec.
    cbn [d_pdu d_can_dl d_rx_dl negb andb]. cbv iota. rewrite Hidle.
    unfold start_reception_after_ff. rewrite (valid_rxdl_sizes T HT). cbn [negb].
    destruct (Z.ltb_spec (p_max_frame_size (c_p c)) (zlen p)); [lia|].
    eexists. split; [reflexivity|]. cbn. repeat split. }
  destruct Hrr as (s1 & Hrr & H1 & H2 & H3 & H4 & H5 & H6 & H7 & H8 & H9). rewrite Hrr.
  cbn [rr_s rr_evs mk_rr]. rewrite H8.
  destruct (fc_answer c s1 FS_CTS Hok Hl H8 H9 (or_introl eq_refl)) as (Hm & He & _ & _ & _ & _ & _).
  rewrite Hm, He. pose proof (fc_pass_state c s1 H8 Hl) as Hps. rewrite H9 in Hps. cbn [opt_eqb] in Hps.
  rewrite Z.eqb_refl in Hps. rewrite Hps.
  set (s2 := start_rx_cf_timer c (s1 <| pending_fc := false |>)).
  pose proof (rx_cfs_fc T HT 1 rest cfs Hcfs s2 ltac:(lia)) as Hc.
  assert (P3 : rx_frame_length s2 = zlen (rx_buffer s2) + zlen rest).
  { change (rx_frame_length s2) with (rx_frame_length s1). change (rx_buffer s2) with (rx_buffer s1). rewrite H3, H4. exact Hpl. }
  specialize (Hc H1 H2 P3 H5 H6 eq_refl).
  change (rx_queue s2) with (rx_queue s1) in Hc. change (rx_buffer s2) with (rx_buffer s1) in Hc.
  destruct (rx_run_fc c s2 cfs mk) as [[s' evs] fcs].
  destruct Hc as (He' & Hq' & Hs' & _ & Hf').
  subst evs. cbn [app]. rewrite Hq', H7, H4, Hp. repeat split; auto.
  f_equal. rewrite Hf'. apply map_ext. intros i. replace (1 - 1 + zlen cfs) with (zlen cfs) by lia. reflexivity.
Qed.

End Fc.
