(** C15 at run level: in every reachable state the bits accounted by the rate limiter in its
    live window never exceed the budget (bitrate x window) by more than one frame; frames leave
    only while the budget is not exhausted. *)
From IsoTp Require Import Base.Prelude Model.Micro Spec.ConfigSpec Proofs.Inv Proofs.FramesP Proofs.DuplexP.

Definition nonneg_all (l : list Z) : Prop := Forall (fun b => 0 <= b) l.

(** limiter view *)
Definition LimOk (p : params) (s : layer) : Prop :=
  nonneg_all (lim_bits s) /\
  lim_total s * p_lim_bd p <= p_lim_bn p + 8 * 64 * p_lim_bd p.

Lemma make_tx_msg_len c id d m : make_tx_msg c id d = Some m -> 0 <= zlen (f_data m) <= 64.
Proof.
  unfold make_tx_msg. destruct (pad_message_data (c_p c) d) as [d'|]; [|discriminate].
  unfold get_dlc_tx. destruct (nearest_fd_size (zlen d')) as [fd|] eqn:En; [|discriminate].
  destruct (_ && _); [discriminate|]. destruct (dlc_of_fdlen fd); [|discriminate].
  intros E; injection E as <-. cbn [f_data]. split; [apply zlen_nonneg|].
  unfold nearest_fd_size in En.
  repeat match type of En with context [if ?a <=? ?b then _ else _] => destruct (Z.leb_spec a b) end; try discriminate; lia.
Qed.

(** [LS p s s' out]: the limiter fields of [s'] are those of [s], plus the accounting of the
    frame [out] when there is one *)
Definition LS (p : params) (s s' : layer) (out : option frame) : Prop :=
  now s' = now s /\
  match out with
  | None => lim_total s' = lim_total s /\ lim_bits s' = lim_bits s /\ lim_times s' = lim_times s
  | Some m => lim_total s' = lim_total (lim_inform p (zlen (f_data m)) s) /\
              lim_bits s' = lim_bits (lim_inform p (zlen (f_data m)) s) /\
              lim_times s' = lim_times (lim_inform p (zlen (f_data m)) s)
  end.

Lemma LS_same p s s' : now s' = now s -> lim_total s' = lim_total s -> lim_bits s' = lim_bits s -> lim_times s' = lim_times s -> LS p s s' None.
Proof. unfold LS. auto. Qed.

Lemma lim_inform_congr p n s1 s2 : now s2 = now s1 -> lim_total s2 = lim_total s1 -> lim_bits s2 = lim_bits s1 ->
  lim_times s2 = lim_times s1 ->
  lim_total (lim_inform p n s2) = lim_total (lim_inform p n s1) /\
  lim_bits (lim_inform p n s2) = lim_bits (lim_inform p n s1) /\
  lim_times (lim_inform p n s2) = lim_times (lim_inform p n s1).
Proof.
  intros N T B M. unfold lim_inform. destruct (negb (p_lim_enable p)); [auto|].
  rewrite M, N. destruct (lim_times s1) eqn:E1.
  - cbn. rewrite T. auto.
  - destruct (SLOT_NS <? _); cbn; rewrite ?T, ?B, ?M, ?E1, ?N; auto.
Qed.

Lemma LS_trans_none p s1 s2 s3 out : LS p s1 s2 None -> LS p s2 s3 out -> LS p s1 s3 out.
Proof.
  intros (N1 & T1 & B1 & M1) (N2 & H2). split; [congruence|]. destruct out as [m|].
  - destruct H2 as (T2 & B2 & M2).
    destruct (lim_inform_congr p (zlen (f_data m)) s1 s2 N1 T1 B1 M1) as (C1 & C2 & C3).
    repeat split; congruence.
  - destruct H2 as (T2 & B2 & M2). repeat split; congruence.
Qed.

Lemma LS_then_none p s1 s2 s3 out : LS p s1 s2 out -> LS p s2 s3 None -> LS p s1 s3 out.
Proof.
  intros (N1 & H1) (N2 & T2 & B2 & M2). split; [congruence|]. destruct out as [m|]; destruct H1 as (T1 & B1 & M1); repeat split; congruence.
Qed.

Lemma LS_stop_sending p b s : LS p s (fst (stop_sending b s)) None.
Proof. apply LS_same; reflexivity. Qed.

Lemma LS_tx_finish p s evs out imm : LS p s (tr_s (tx_finish p s evs out imm)) out.
Proof.
  unfold tx_finish. destruct out as [m|]; cbn [tr_s mk_tr].
  - split; [|auto]. unfold lim_inform. destruct (negb (p_lim_enable p)); [reflexivity|].
    destruct (lim_times s); [reflexivity|]. destruct (SLOT_NS <? _); reflexivity.
  - apply LS_same; reflexivity.
Qed.

(** what is known when a frame [m] is handed out under allowance [a]: either the allowance was
    positive and the frame is a CAN FD frame at most, or the whole frame fits the allowance *)
Definition Efact (a : Z) (m : frame) : Prop := (1 <= a /\ 0 <= zlen (f_data m) <= 64) \/ zlen (f_data m) <= a.

(** start_request: limiter untouched; a frame is handed out only within the allowance *)
Lemma LS_start_request c s r allowed s' evs out :
  start_request c s r allowed = SRDone s' evs out ->
  LS (c_p c) s s' None /\ (forall m, out = Some m -> Efact allowed m).
Proof.
  unfold start_request.
  destruct (r_size r <=? _).
  - destruct (consume (r_size r) true r) as [[payload|] r'].
    + destruct (make_tx_msg _ _ _) as [mm|] eqn:Em; [|discriminate].
      destruct (Z.ltb_spec allowed (zlen (c_tx_prefix c ++ (if sf_on_first_byte c (r_remaining r) then [Z.lor 0 (zlen payload)] else [0; zlen payload]) ++ payload))) as [Hlt|Hge].
      * intros E; injection E as <- _ <-. split; [apply LS_same; reflexivity|]. intros m Hm; discriminate.
      * destruct (stop_sending true _) as [s2 e2] eqn:Es. intros E; injection E as <- _ <-.
        split. { unfold stop_sending in Es. injection Es as <- _. apply LS_same; reflexivity. }
        intros m Hm; injection Hm as <-. left. split; [|eapply make_tx_msg_len; exact Em].
        rewrite !zlen_app in Hge. pose proof (zlen_nonneg (c_tx_prefix c)). pose proof (zlen_nonneg payload).
        destruct (sf_on_first_byte c (r_remaining r)); rewrite ?zlen_cons, ?zlen_nil in Hge; lia.
    + destruct (stop_sending false _) as [s2 e2] eqn:Es. intros E; injection E as <- _ <-.
      split; [unfold stop_sending in Es; injection Es as <- _; apply LS_same; reflexivity|]. intros m Hm; discriminate.
  - match goal with |- context [consume ?n true r] => destruct (consume n true r) as [[payload|] r'] end.
    + destruct (make_tx_msg _ _ _) as [mm|] eqn:Em; [|discriminate].
      match goal with |- context [zlen ?d <=? allowed] => destruct (Z.leb_spec (zlen d) allowed) as [Hle|Hgt] end.
      * intros E; injection E as <- _ <-. split; [apply LS_same; reflexivity|].
        intros m Hm; injection Hm as <-. left. split; [|eapply make_tx_msg_len; exact Em].
        rewrite !zlen_app in Hle. pose proof (zlen_nonneg (c_tx_prefix c)). pose proof (zlen_nonneg payload).
        destruct (r_size r <=? 4095); rewrite ?zlen_cons, ?zlen_nil in Hle; lia.
      * intros E; injection E as <- _ <-. split; [apply LS_same; reflexivity|]. intros m Hm; discriminate.
    + destruct (stop_sending false _) as [s2 e2] eqn:Es. intros E; injection E as <- _ <-.
      split; [unfold stop_sending in Es; injection Es as <- _; apply LS_same; reflexivity|]. intros m Hm; discriminate.
Qed.

Lemma LS_idle_dequeue c q : forall s evs allowed s' evs' out,
  idle_dequeue c q s evs allowed = SRDone s' evs' out ->
  LS (c_p c) s s' None /\ (forall m, out = Some m -> Efact allowed m).
Proof.
  induction q as [|r rest IH]; intros s evs allowed s' evs' out; cbn [idle_dequeue].
  - intros E; injection E as <- _ <-. split; [apply LS_same; reflexivity|]. intros m Hm; discriminate.
  - destruct (r_is_depleted r).
    + intros E. apply IH in E. destruct E as [E1 E2]. split; [|exact E2].
      eapply LS_trans_none; [|exact E1]. apply LS_same; reflexivity.
    + destruct (start_request _ _ _ _) as [site|s1 e1 o1] eqn:Es; [discriminate|].
      intros E; injection E as <- _ <-. apply LS_start_request in Es. destruct Es as [E1 E2].
      split; [|exact E2]. eapply LS_trans_none; [|exact E1]. apply LS_same; reflexivity.
Qed.

Lemma LS_handle_fc c s fc : LS (c_p c) s (fst (snd (handle_fc c s fc))) None.
Proof.
  unfold handle_fc. destruct (fc_status fc =? FS_OVFLW); [apply LS_same; reflexivity|].
  cbn [snd]. destruct (tx_state s); try (apply LS_same; reflexivity);
    unfold handle_fc_active;
    (destruct (fc_status fc =? FS_WAIT);
     [destruct (p_wftmax _ =? 0); [apply LS_same; reflexivity|]; destruct (timer_timed_out _ _); [apply LS_same; reflexivity|];
      destruct (p_wftmax _ <=? _); apply LS_same; reflexivity
     |destruct ((fc_status fc =? FS_CTS) && _); [|apply LS_same; reflexivity];
      cbn [fst]; cbn [tx_state set RecordSet.set]; destruct (tx_state s); apply LS_same; reflexivity]).
Qed.

Lemma LS_tx_after_fc c s :
  match tx_after_fc c s with
  | inl r => LS (c_p c) s (tr_s r) None /\ tr_msg r = None
  | inr (s', _) => LS (c_p c) s s' None
  end.
Proof.
  unfold tx_after_fc.
  set (s0 := s <| last_fc := None |>).
  assert (H0 : LS (c_p c) s s0 None) by (apply LS_same; reflexivity).
  assert (Ha : forall b s1 e, (match last_fc s with None => (false, (s0, [])) | Some f => handle_fc c s0 f end) = (b, (s1, e)) -> LS (c_p c) s s1 None).
  { intros b s1 e. destruct (last_fc s) as [f|].
    - intros E. pose proof (LS_handle_fc c s0 f) as H. rewrite E in H. cbn [fst snd] in H. exact (LS_trans_none _ _ _ _ _ H0 H).
    - intros E; injection E as _ <- _. exact H0. }
  destruct (match last_fc s with None => _ | Some f => _ end) as [b [s1 evs1]] eqn:E.
  specialize (Ha b s1 evs1 eq_refl).
  destruct b; [split; [exact Ha|reflexivity]|].
  assert (Hto : LS (c_p c) s (fst (if timer_timed_out (now s1) (timer_rx_fc s1)
                          then let '(s', e) := stop_sending false s1 in (s', EErr FlowControlTimeout :: e)
                          else (s1, []))) None).
  { destruct (timer_timed_out _ _); [|exact Ha].
    pose proof (LS_stop_sending (c_p c) false s1) as Hss. destruct (stop_sending false s1) as [s' e']. cbn [fst] in *.
    exact (LS_trans_none _ _ _ _ _ Ha Hss). }
  destruct (if timer_timed_out (now s1) (timer_rx_fc s1) then _ else _) as [s2 evs2]. cbn [fst] in Hto.
  destruct (tx_state s2) eqn:Est; [exact Hto|..];
    (destruct (active s2) as [r|]; [|split; [exact Hto|reflexivity]];
     destruct (r_is_depleted r && _); [|exact Hto];
     pose proof (LS_stop_sending (c_p c) true s2) as Hss; destruct (stop_sending true s2) as [s3 e3]; cbn [fst] in Hss;
     exact (LS_trans_none _ _ _ _ _ Hto Hss)).
Qed.

Lemma LS_tx_cf c a s evs :
  LS (c_p c) s (tr_s (tx_cf c a s evs)) (tr_msg (tx_cf c a s evs)) /\
  (forall m, tr_msg (tx_cf c a s evs) = Some m -> Efact a m).
Proof.
  assert (Hnone : forall s', LS (c_p c) s s' None -> LS (c_p c) s s' None /\ (forall m : frame, None = Some m -> Efact a m)).
  { intros s' H. split; [exact H|]. intros m Hm; discriminate. }
  unfold tx_cf.
  destruct (remote_bs s) as [rbs|]; [|cbn [tr_s tr_msg mk_crash]; apply Hnone, LS_same; reflexivity].
  destruct (active s) as [r|]; [|cbn [tr_s tr_msg mk_crash]; apply Hnone, LS_same; reflexivity].
  destruct (timer_timed_out _ _); [|unfold tx_finish; cbn [tr_s tr_msg mk_tr]; apply Hnone, LS_same; reflexivity].
  match goal with |- context [?x <=? a] => destruct (Z.leb_spec x a) as [Hle|Hgt] end;
    [|unfold tx_finish; cbn [tr_s tr_msg mk_tr]; apply Hnone, LS_same; reflexivity].
  match goal with |- context [consume ?n false r] => pose proof (Inv.consume_facts n false r) as Hcf;
    destruct (consume n false r) as [[payload|] r'] eqn:Ec end;
    [|cbn [tr_s tr_msg mk_crash]; apply Hnone, LS_same; reflexivity].
  specialize (Hcf _ _ eq_refl). destruct Hcf as (_ & _ & _ & _ & Hcf). destruct (Hcf payload eq_refl) as (_ & _ & Hpl & _).
  assert (Htail : forall s5 out, LS (c_p c) s s5 None ->
    LS (c_p c) s (tr_s (if r_is_depleted r' then
              if 0 <? r_remaining r' then let '(s6, e6) := stop_sending false s5 in tx_finish (c_p c) s6 (evs ++ EErr BadGenerator :: e6) out false
              else let '(s6, e6) := stop_sending true s5 in tx_finish (c_p c) s6 (evs ++ e6) out false
            else if negb (rbs =? 0) && (rbs <=? tx_block_counter s5) then tx_finish (c_p c) (start_rx_fc_timer c (s5 <| tx_state := TxWaitFC |>)) evs out true
            else tx_finish (c_p c) s5 evs out false)) out /\
    tr_msg (if r_is_depleted r' then
              if 0 <? r_remaining r' then let '(s6, e6) := stop_sending false s5 in tx_finish (c_p c) s6 (evs ++ EErr BadGenerator :: e6) out false
              else let '(s6, e6) := stop_sending true s5 in tx_finish (c_p c) s6 (evs ++ e6) out false
            else if negb (rbs =? 0) && (rbs <=? tx_block_counter s5) then tx_finish (c_p c) (start_rx_fc_timer c (s5 <| tx_state := TxWaitFC |>)) evs out true
            else tx_finish (c_p c) s5 evs out false) = out).
  { intros s5 out H5.
    assert (Hm : forall p0 s0 e0 i0, tr_msg (tx_finish p0 s0 e0 out i0) = out) by (intros; unfold tx_finish; destruct out; reflexivity).
    destruct (r_is_depleted r').
    - destruct (0 <? r_remaining r'); unfold stop_sending; cbv beta iota; rewrite Hm; (split; [|reflexivity]);
        (eapply LS_trans_none; [exact H5|]); (eapply LS_trans_none; [|apply LS_tx_finish]); apply LS_same; reflexivity.
    - destruct (negb (rbs =? 0) && _); rewrite Hm; (split; [|reflexivity]).
      + eapply LS_trans_none; [exact H5|]. eapply LS_trans_none; [|apply LS_tx_finish]. apply LS_same; reflexivity.
      + eapply LS_trans_none; [exact H5|]. apply LS_tx_finish. }
  destruct (Z.ltb_spec 0 (zlen payload)) as [Hpos|Hz].
  - destruct (make_tx_msg _ _ _) as [mm|] eqn:Em; [|cbn [tr_s tr_msg mk_crash]; apply Hnone, LS_same; reflexivity].
    match goal with |- LS _ _ (tr_s ?X) (tr_msg ?X) /\ _ =>
      match X with context [rbs <=? tx_block_counter ?s5x] =>
        destruct (Htail s5x (Some mm) ltac:(apply LS_same; reflexivity)) as [H1 H2] end end.
    rewrite H2. split; [exact H1|]. intros m Hm; injection Hm as <-. left. split; [lia|eapply make_tx_msg_len; exact Em].
  - match goal with |- LS _ _ (tr_s ?X) (tr_msg ?X) /\ _ =>
      match X with context [rbs <=? tx_block_counter ?s5x] =>
        destruct (Htail s5x None ltac:(apply LS_same; reflexivity)) as [H1 H2] end end.
    rewrite H2. split; [exact H1|]. intros m Hm; discriminate.
Qed.


Lemma LS_tx_fsm c a s evs :
  LS (c_p c) s (tr_s (tx_fsm c a s evs)) (tr_msg (tx_fsm c a s evs)) /\
  (forall m, tr_msg (tx_fsm c a s evs) = Some m -> Efact a m).
Proof.
  assert (Hm : forall p0 s0 e0 out i0, tr_msg (tx_finish p0 s0 e0 out i0) = out) by (intros; unfold tx_finish; destruct out; reflexivity).
  unfold tx_fsm. destruct (tx_state s) eqn:Est.
  - destruct (idle_dequeue _ _ _ _ _) as [site|s4 e4 out] eqn:Ed.
    + cbn [tr_s tr_msg mk_crash]. split; [apply LS_same; reflexivity|intros m H; discriminate].
    + apply LS_idle_dequeue in Ed. destruct Ed as [E1 E2]. rewrite Hm. split; [|exact E2].
      exact (LS_trans_none _ _ _ _ _ E1 (LS_tx_finish _ _ _ _ _)).
  - rewrite Hm. split; [apply LS_tx_finish|intros m H; discriminate].
  - apply LS_tx_cf.
  - destruct (tx_standby s) as [sm|] eqn:Esb; [|rewrite Hm; split; [apply LS_tx_finish|intros m H; discriminate]].
    destruct (Z.leb_spec (zlen (f_data sm)) a) as [Hle|Hgt]; [|rewrite Hm; split; [apply LS_tx_finish|intros m H; discriminate]].
    unfold stop_sending; cbv beta iota. rewrite Hm. split.
    + eapply LS_trans_none; [|apply LS_tx_finish]. apply LS_same; reflexivity.
    + intros m H; injection H as <-. right. exact Hle.
  - destruct (tx_standby s) as [sm|] eqn:Esb; [|rewrite Hm; split; [apply LS_tx_finish|intros m H; discriminate]].
    destruct (Z.leb_spec (zlen (f_data sm)) a) as [Hle|Hgt]; [|rewrite Hm; split; [apply LS_tx_finish|intros m H; discriminate]].
    rewrite Hm. split.
    + eapply LS_trans_none; [|apply LS_tx_finish]. apply LS_same; reflexivity.
    + intros m H; injection H as <-. right. exact Hle.
Qed.

Lemma add_last_nonneg l x : nonneg_all l -> 0 <= x -> nonneg_all (add_last l x).
Proof.
  induction l as [|y l IH]; intros H Hx; [constructor|]. inversion H; subst.
  destruct l as [|z l']; cbn [add_last].
  - constructor; [lia|constructor].
  - constructor; [assumption|]. apply IH; assumption.
Qed.

(** accounting one frame keeps the bound, given the emission fact for the allowance computed from
    the same limiter state *)
Lemma LimOk_inform p s0 s m : params_ok p ->
  lim_total s = lim_total s0 -> lim_bits s = lim_bits s0 ->
  LimOk p s0 -> Efact (lim_allowed_bytes p s0) m ->
  LimOk p (lim_inform p (zlen (f_data m)) s).
Proof.
  intros Hok Ht Hb [Hnn Hle] He.
  pose proof Hok as (_ & _ & _ & _ & _ & _ & _ & _ & _ & _ & Hbd & Hbn & _).
  pose proof (zlen_nonneg (f_data m)) as Hl0.
  unfold LimOk, lim_inform. destruct (p_lim_enable p) eqn:Een; cbn [negb]; [|rewrite Ht, Hb; split; assumption].
  assert (Hnew : (lim_total s + zlen (f_data m) * 8) * p_lim_bd p <= p_lim_bn p + 8 * 64 * p_lim_bd p).
  { rewrite Ht. unfold lim_allowed_bytes in He. rewrite Een in He. cbn [negb] in He.
    destruct (Z.leb_spec (p_lim_bn p - lim_total s0 * p_lim_bd p) 0) as [Hex|Hav].
    - destruct He as [[H1 _]|H2]; [lia|]. assert (zlen (f_data m) = 0) by lia. nia.
    - destruct He as [[H1 [_ H64]]|H2]; [nia|].
      assert (Hd : (p_lim_bn p - lim_total s0 * p_lim_bd p) / (8 * p_lim_bd p) * (8 * p_lim_bd p) <= p_lim_bn p - lim_total s0 * p_lim_bd p).
      { rewrite Z.mul_comm. apply Z.mul_div_le. lia. }
      nia. }
  assert (Hbits : 0 <= zlen (f_data m) * 8) by lia.
  destruct (lim_times s); [cbn; split; [constructor; [exact Hbits|constructor]|exact Hnew]|].
  destruct (SLOT_NS <? _); cbn; (split; [|exact Hnew]).
  - rewrite Hb. apply Forall_app. split; [exact Hnn|constructor; [exact Hbits|constructor]].
  - rewrite Hb. apply add_last_nonneg; assumption.
Qed.

Lemma LimOk_LS p s0 s s' out : params_ok p -> LS p s s' out ->
  lim_total s = lim_total s0 -> lim_bits s = lim_bits s0 -> LimOk p s0 ->
  (forall m, out = Some m -> Efact (lim_allowed_bytes p s0) m) -> LimOk p s'.
Proof.
  intros Hok (N & H) Ht Hb Hl He. destruct out as [m|].
  - destruct H as (T & B & _). pose proof (LimOk_inform p s0 s m Hok Ht Hb Hl (He m eq_refl)) as [H1 H2].
    split; [rewrite B; exact H1|rewrite T; exact H2].
  - destruct H as (T & B & _). destruct Hl as [H1 H2]. split; [rewrite B, Hb; exact H1|rewrite T, Ht; exact H2].
Qed.

(** one transmit pass keeps the bound *)
Theorem LimOk_process_tx c s : params_ok (c_p c) -> LimOk (c_p c) s -> LimOk (c_p c) (tr_s (process_tx c s)).
Proof.
  intros Hok Hl.
  assert (Hmain : forall s1, lim_total s1 = lim_total s -> lim_bits s1 = lim_bits s ->
            LimOk (c_p c) (tr_s (process_tx_main c (lim_allowed_bytes (c_p c) s) s1))).
  { intros s1 Ht Hb. unfold process_tx_main.
    pose proof (LS_tx_after_fc c s1) as Hf.
    destruct (tx_after_fc c s1) as [r|[s3 evs]].
    - destruct Hf as [Hf Hm]. eapply (LimOk_LS _ s s1 _ None Hok Hf Ht Hb Hl). intros m H; discriminate.
    - destruct (LS_tx_fsm c (lim_allowed_bytes (c_p c) s) s3 evs) as [H1 H2].
      destruct Hf as (N3 & T3 & B3 & M3).
      eapply (LimOk_LS _ s s3 _ _ Hok H1); [congruence|congruence|exact Hl|exact H2]. }
  unfold process_tx. destruct (pending_fc s); [|apply Hmain; reflexivity].
  destruct (negb (p_listen (c_p c))).
  - assert (Hsame : forall s2, lim_total s2 = lim_total s -> lim_bits s2 = lim_bits s -> LimOk (c_p c) s2).
    { intros s2 Ht Hb. destruct Hl as [H1 H2]. split; [rewrite Hb; exact H1|rewrite Ht; exact H2]. }
    destruct (opt_eqb _ _); (destruct (pending_fc_status _) as [st|]; [destruct (make_flow_control c st)|]);
      cbn [tr_s mk_tr mk_crash]; apply Hsame; reflexivity.
  - apply Hmain; destruct (opt_eqb _ _); reflexivity.
Qed.

Lemma lim_pop_ok nw w : forall times bits total, nonneg_all bits ->
  let '(ts, bs, tot) := lim_pop nw w times bits total in nonneg_all bs /\ tot <= total.
Proof.
  induction times as [|t ts IH]; intros bits total Hnn; cbn [lim_pop]; [split; [exact Hnn|lia]|].
  destruct bits as [|b bs]; [split; [exact Hnn|lia]|].
  destruct (w <? nw - t); [|split; [exact Hnn|lia]].
  inversion Hnn; subst. specialize (IH bs (total - b) H2).
  destruct (lim_pop nw w ts bs (total - b)) as [[ts' bs'] tot']. destruct IH as [I1 I2]. split; [exact I1|lia].
Qed.

(** every micro-step keeps the bound *)
Theorem LimOk_mstep c s m : params_ok (c_p c) -> LimOk (c_p c) s -> LimOk (c_p c) (fst (mstep c s m)).
Proof.
  intros Hok Hl.
  pose proof Hok as (Hdl & _ & _ & _ & _ & _ & _ & _ & _ & _ & Hbd & Hbn & _).
  apply in_ll_sizes in Hdl.
  assert (Hbn0 : 0 <= p_lim_bn (c_p c)) by nia.
  assert (Hsame : forall s2, lim_total s2 = lim_total s -> lim_bits s2 = lim_bits s -> LimOk (c_p c) s2).
  { intros s2 Ht Hb. destruct Hl as [H1 H2]. split; [rewrite Hb; exact H1|rewrite Ht; exact H2]. }
  assert (Hzero : forall s2, lim_total s2 = 0 -> lim_bits s2 = [] -> LimOk (c_p c) s2).
  { intros s2 Ht Hb. unfold LimOk, nonneg_all. rewrite Ht, Hb. split; [apply Forall_nil|lia]. }
  destruct m; cbn [mstep fst].
  - unfold check_timeouts_rx. destruct (timer_timed_out _ _); apply Hsame; reflexivity.
  - (* a received frame never touches the limiter *)
    destruct (pdu_decode (f_data f) (c_rx_prefix_size c)) as [d|] eqn:Ed.
    + destruct (d_pdu d) as [esc l data|esc len data|sn data|fs bs st] eqn:Ep.
      4: { rewrite (rx_fc_only_mailbox c s f d fs bs st Ed Ep). cbn [rr_s mk_rr]. apply Hsame; reflexivity. }
      all: pose proof (proj1 (rx_data_preserves_tx c s f
             ltac:(intros d' fs' bs' st' Hd'; rewrite Ed in Hd'; injection Hd' as <-; rewrite Ep; discriminate))) as Hv;
           unfold txv in Hv;
           pose proof (f_equal (fun '(_, _, _, _, _, _, _, _, _, _, _, _, _, lb, lt, _) => (lb, lt)) Hv) as Hv';
           cbv beta iota in Hv'; injection Hv' as Hb Ht; apply Hsame; assumption.
    + pose proof (proj1 (rx_data_preserves_tx c s f
             ltac:(intros d' fs' bs' st' Hd'; rewrite Ed in Hd'; discriminate))) as Hv.
      unfold txv in Hv.
      pose proof (f_equal (fun '(_, _, _, _, _, _, _, _, _, _, _, _, _, lb, lt, _) => (lb, lt)) Hv) as Hv'.
      cbv beta iota in Hv'. injection Hv' as Hb Ht. apply Hsame; assumption.
  - unfold lim_update. destruct (negb _).
    + apply Hzero; reflexivity.
    + pose proof (lim_pop_ok (now s) (p_lim_window_ns (c_p c)) (lim_times s) (lim_bits s) (lim_total s) (proj1 Hl)) as Hp.
      destruct (lim_pop _ _ _ _ _) as [[ts bs] tot]. destruct Hp as [P1 P2]. destruct Hl as [_ H2].
      split; [exact P1|]. cbn [lim_total set RecordSet.set].
      assert (tot * p_lim_bd (c_p c) <= lim_total s * p_lim_bd (c_p c)) by (apply Z.mul_le_mono_nonneg_r; lia). lia.
  - apply LimOk_process_tx; assumption.
  - apply Hsame; unfold send; destruct (size <? 0); try reflexivity; destruct (_ <? size); try reflexivity;
      destruct (match match t with Some x => x | None => _ end with Functional => _ | Physical => _ end); reflexivity.
  - apply Hsame; unfold recv; destruct (rx_queue s); reflexivity.
  - apply Hsame; reflexivity.
  - apply Hsame; reflexivity.
  - apply Hzero; reflexivity.
  - apply Hsame; reflexivity.
Qed.

(** In every reachable state the bits accounted in the limiter's live window stay within the budget
    (bitrate x window, as the exact rational bn/bd) plus one CAN FD frame. *)
Theorem lim_bound_run c : params_ok (c_p c) -> forall ms s, LimOk (c_p c) s -> LimOk (c_p c) (fst (mrun c s ms)).
Proof.
  intros Hok. induction ms as [|m rest IH]; intros s Hl; cbn [mrun]; [exact Hl|].
  pose proof (LimOk_mstep c s m Hok Hl) as H1.
  destruct (mstep c s m) as [s1 e1]. cbn [fst] in H1. specialize (IH s1 H1).
  destruct (mrun c s1 rest) as [s2 e2]. exact IH.
Qed.

Corollary lim_bound_reachable c t0 ms : params_ok (c_p c) ->
  let s := fst (mrun c (init_layer c t0) ms) in
  lim_total s * p_lim_bd (c_p c) <= p_lim_bn (c_p c) + 8 * 64 * p_lim_bd (c_p c).
Proof.
  intros Hok. apply (lim_bound_run c Hok ms (init_layer c t0)).
  pose proof Hok as (Hdl & _ & _ & _ & _ & _ & _ & _ & _ & _ & Hbd & Hbn & _). apply in_ll_sizes in Hdl.
  assert (Hbn0 : 0 <= p_lim_bn (c_p c)) by nia.
  unfold LimOk, nonneg_all. change (lim_bits (init_layer c t0)) with (@nil Z). change (lim_total (init_layer c t0)) with 0.
  split; [apply Forall_nil|lia].
Qed.

(** and a frame other than a Flow Control leaves only while the budget is not exhausted, or if it
    fits entirely in what is left *)
Theorem emission_needs_budget c s : params_ok (c_p c) -> pending_fc s = false ->
  forall m, tr_msg (process_tx c s) = Some m -> Efact (lim_allowed_bytes (c_p c) s) m.
Proof.
  intros Hok Hp m. unfold process_tx. rewrite Hp. unfold process_tx_main.
  pose proof (LS_tx_after_fc c s) as Hf.
  destruct (tx_after_fc c s) as [r|[s3 evs]].
  - destruct Hf as [_ Hn]. rewrite Hn. discriminate.
  - apply (proj2 (LS_tx_fsm c (lim_allowed_bytes (c_p c) s) s3 evs)).
Qed.
