(** C08 at the level of whole runs: between two Consecutive Frames of any run of micro-steps
    (any schedule of process() passes, user calls and non-negative clock ticks) at least the
    separation time held by the STmin timer at the moment of the second emission has elapsed. *)
From IsoTp Require Import Base.Prelude Model.Micro Proofs.Inv Proofs.LocalP Proofs.DuplexP.

(** [Q t0 s]: the last Consecutive Frame left at [t0]; if the sender is pacing Consecutive
    Frames, its STmin timer was (re)started at or after [t0]. *)
Definition Q (t0 : Z) (s : layer) : Prop :=
  t0 <= now s /\
  (tx_state s = TxTransmitCF -> exists ts, t_start (timer_tx_stmin s) = Some ts /\ t0 <= ts).

(** [R s s']: a step that emits no Consecutive Frame leaves the clock alone and either keeps
    the start instant of the STmin timer or restarts it now. *)
Definition R (s s' : layer) : Prop :=
  now s' = now s /\
  (tx_state s' = TxTransmitCF ->
     (tx_state s = TxTransmitCF /\ t_start (timer_tx_stmin s') = t_start (timer_tx_stmin s)) \/
     t_start (timer_tx_stmin s') = Some (now s)).

Lemma R_refl s : R s s.
Proof. split; [reflexivity|]. intros H. left. auto. Qed.

Lemma R_trans s1 s2 s3 : R s1 s2 -> R s2 s3 -> R s1 s3.
Proof.
  intros [N1 H1] [N2 H2]. split; [congruence|]. intros H3.
  destruct (H2 H3) as [[H2a H2b]|H2c].
  - destruct (H1 H2a) as [[H1a H1b]|H1c]; [left; split; congruence|right; congruence].
  - right. congruence.
Qed.

Lemma Q_R t0 s s' : Q t0 s -> R s s' -> Q t0 s'.
Proof.
  intros [Hn Hq] [N H]. split; [lia|]. intros Hs.
  destruct (H Hs) as [[Ha Hb]|Hc].
  - destruct (Hq Ha) as (ts & Hts & Hle). exists ts. split; [congruence|exact Hle].
  - exists (now s). split; [exact Hc|exact Hn].
Qed.

(** a state that is not pacing Consecutive Frames afterwards satisfies R trivially *)
Lemma R_not_cf s s' : now s' = now s -> tx_state s' <> TxTransmitCF -> R s s'.
Proof. intros N H. split; [exact N|]. intros E. contradiction. Qed.

Lemma R_same s s' : now s' = now s -> tx_state s' = tx_state s -> timer_tx_stmin s' = timer_tx_stmin s -> R s s'.
Proof. intros N H1 H2. split; [exact N|]. intros E. left. split; congruence. Qed.

Lemma R_stop_sending b s : R s (fst (stop_sending b s)).
Proof. apply R_not_cf; [reflexivity|cbn; discriminate]. Qed.

Lemma R_lim_inform p n s : R s (lim_inform p n s).
Proof.
  unfold lim_inform. destruct (negb (p_lim_enable p)); [apply R_refl|].
  destruct (lim_times s); [apply R_same; reflexivity|]. destruct (SLOT_NS <? _); apply R_same; reflexivity.
Qed.

Lemma R_tx_finish p s evs out imm : R s (tr_s (tx_finish p s evs out imm)).
Proof. unfold tx_finish. destruct out; cbn [tr_s mk_tr]; [apply R_lim_inform|apply R_refl]. Qed.

Lemma R_start_request c s r allowed s' evs out :
  start_request c s r allowed = SRDone s' evs out -> R s s'.
Proof.
  unfold start_request.
  destruct (r_size r <=? _).
  - destruct (consume (r_size r) true r) as [[payload|] r'].
    + destruct (make_tx_msg _ _ _); [|discriminate].
      destruct (allowed <? _); intros E; injection E as <- _ _; apply R_not_cf; try reflexivity; cbn; discriminate.
    + intros E; injection E as <- _ _; apply R_not_cf; try reflexivity; cbn; discriminate.
  - destruct (consume _ true r) as [[payload|] r'].
    + destruct (make_tx_msg _ _ _); [|discriminate].
      destruct (_ <=? allowed); intros E; injection E as <- _ _; apply R_not_cf; try reflexivity; cbn; discriminate.
    + intros E; injection E as <- _ _; apply R_not_cf; try reflexivity; cbn; discriminate.
Qed.

Lemma R_idle_dequeue c q : forall s evs allowed s' evs' out,
  tx_state s <> TxTransmitCF ->
  idle_dequeue c q s evs allowed = SRDone s' evs' out -> R s s'.
Proof.
  induction q as [|r rest IH]; intros s evs allowed s' evs' out Hs; cbn [idle_dequeue].
  - intros E; injection E as <- _ _. apply R_not_cf; [reflexivity|exact Hs].
  - destruct (r_is_depleted r).
    + intros E. apply IH in E; [|exact Hs]. eapply R_trans; [|exact E]. apply R_same; reflexivity.
    + destruct (start_request _ _ _ _) as [site|s1 e1 o1] eqn:Es; [discriminate|].
      intros E; injection E as <- _ _. apply R_start_request in Es.
      eapply R_trans; [|exact Es]. apply R_same; reflexivity.
Qed.

Lemma R_handle_fc_active c s fc : tx_state s = TxWaitFC \/ tx_state s = TxTransmitCF ->
  R s (fst (handle_fc_active c s fc)).
Proof.
  intros Hst. unfold handle_fc_active.
  destruct (fc_status fc =? FS_WAIT).
  - destruct (p_wftmax _ =? 0); [apply R_refl|]. destruct (timer_timed_out _ _); [apply R_refl|].
    destruct (p_wftmax _ <=? _); apply R_not_cf; try reflexivity; cbn; discriminate.
  - destruct ((fc_status fc =? FS_CTS) && _); [|apply R_refl].
    cbn [fst]. cbn [tx_state set RecordSet.set].
    destruct Hst as [Est|Est]; rewrite Est; cbn; (split; [reflexivity|]); intros _.
    + right. reflexivity.
    + left. split; [exact Est|reflexivity].
Qed.

Lemma R_handle_fc c s fc : R s (fst (snd (handle_fc c s fc))).
Proof.
  unfold handle_fc. destruct (fc_status fc =? FS_OVFLW); [apply (R_stop_sending false)|].
  cbn [snd]. destruct (tx_state s) eqn:Est; try apply R_refl; apply R_handle_fc_active; auto.
Qed.

Lemma R_tx_after_fc c s :
  match tx_after_fc c s with
  | inl r => R s (tr_s r)
  | inr (s', _) => R s s'
  end.
Proof.
  unfold tx_after_fc.
  set (s0 := s <| last_fc := None |>).
  assert (H0 : R s s0) by (apply R_same; reflexivity).
  assert (Ha : forall b s1 e, (match last_fc s with None => (false, (s0, [])) | Some f => handle_fc c s0 f end) = (b, (s1, e)) -> R s s1).
  { intros b s1 e. destruct (last_fc s) as [f|].
    - intros E. pose proof (R_handle_fc c s0 f) as H. rewrite E in H. cbn [fst snd] in H. exact (R_trans _ _ _ H0 H).
    - intros E; injection E as _ <- _. exact H0. }
  destruct (match last_fc s with None => _ | Some f => _ end) as [b [s1 evs1]] eqn:E.
  specialize (Ha b s1 evs1 eq_refl).
  destruct b; [exact Ha|].
  assert (Hto : R s (fst (if timer_timed_out (now s1) (timer_rx_fc s1)
                          then let '(s', e) := stop_sending false s1 in (s', EErr FlowControlTimeout :: e)
                          else (s1, [])))).
  { destruct (timer_timed_out _ _); [|exact Ha].
    pose proof (R_stop_sending false s1) as Hss. destruct (stop_sending false s1) as [s' e']. cbn [fst] in *.
    exact (R_trans _ _ _ Ha Hss). }
  destruct (if timer_timed_out (now s1) (timer_rx_fc s1) then _ else _) as [s2 evs2]. cbn [fst] in Hto.
  destruct (tx_state s2) eqn:Est; [exact Hto|..];
    (destruct (active s2) as [r|]; [|exact Hto];
     destruct (r_is_depleted r && _); [|exact Hto];
     pose proof (R_stop_sending true s2) as Hss; destruct (stop_sending true s2) as [s3 e3]; cbn [fst] in Hss;
     exact (R_trans _ _ _ Hto Hss)).
Qed.

(** The Consecutive Frame branch: without emission it is an R-step; with emission the STmin
    timer had expired and is restarted now. *)
Lemma tx_cf_pacing c a s evs : tx_state s = TxTransmitCF ->
  match tr_msg (tx_cf c a s evs) with
  | None => R s (tr_s (tx_cf c a s evs))
  | Some _ =>
      timer_timed_out (now s) (timer_tx_stmin s) = true /\
      now (tr_s (tx_cf c a s evs)) = now s /\
      (tx_state (tr_s (tx_cf c a s evs)) = TxTransmitCF ->
         t_start (timer_tx_stmin (tr_s (tx_cf c a s evs))) = Some (now s))
  end.
Proof.
  intros Hst.
  assert (Hnow : forall p n s0, now (lim_inform p n s0) = now s0 /\ tx_state (lim_inform p n s0) = tx_state s0 /\
                                timer_tx_stmin (lim_inform p n s0) = timer_tx_stmin s0).
  { intros p n s0. unfold lim_inform. destruct (negb (p_lim_enable p)); [auto|].
    destruct (lim_times s0); [cbn; auto|]. destruct (SLOT_NS <? _); cbn; auto. }
  unfold tx_cf.
  destruct (remote_bs s) as [rbs|]; [|cbn; apply R_refl].
  destruct (active s) as [r|]; [|cbn; apply R_refl].
  destruct (timer_timed_out (now s) (timer_tx_stmin s)) eqn:Eto; [|cbn; apply R_refl].
  destruct (_ <=? a); [|cbn; apply R_refl].
  destruct (consume _ false r) as [[payload|] r']; [|cbn; apply R_same; reflexivity].
  destruct (0 <? zlen payload).
  - destruct (make_tx_msg _ _ _) as [mm|]; [|cbn; apply R_same; reflexivity].
    destruct (r_is_depleted r').
    + destruct (0 <? r_remaining r'); unfold stop_sending; cbv beta iota; unfold tx_finish; cbn [tr_msg tr_s mk_tr];
        (split; [reflexivity|]);
        destruct (Hnow (c_p c) (zlen (f_data mm))
                    (s <| active := Some r' |> <| tx_seqnum := Z.land (tx_seqnum (s <| active := Some r' |>) + 1) 0xF |>
                       <| timer_tx_stmin ::= timer_start (now (s <| active := Some r' |>)) |>
                       <| tx_block_counter := tx_block_counter (s <| active := Some r' |>) + 1 |>
                       <| active := None |> <| tx_state := TxIdle |> <| tx_frame_length := 0 |>
                       <| timer_rx_fc ::= timer_stop |> <| timer_tx_stmin ::= timer_stop |>
                       <| remote_bs := None |> <| tx_block_counter := 0 |> <| tx_seqnum := 0 |>
                       <| wft_counter := 0 |> <| tx_standby := None |>)) as (N1 & N2 & N3);
        (split; [exact N1|]); rewrite N2; cbn; discriminate.
    + destruct (negb (rbs =? 0) && _); unfold tx_finish; cbn [tr_msg tr_s mk_tr]; (split; [reflexivity|]).
      * match goal with |- context [lim_inform ?p ?n ?s0] => destruct (Hnow p n s0) as (N1 & N2 & N3) end.
        split; [exact N1|]. rewrite N2. cbn. discriminate.
      * match goal with |- context [lim_inform ?p ?n ?s0] => destruct (Hnow p n s0) as (N1 & N2 & N3) end.
        split; [exact N1|]. intros _. rewrite N3. reflexivity.
  - destruct (r_is_depleted r').
    + destruct (0 <? r_remaining r'); unfold stop_sending; cbv beta iota; unfold tx_finish; cbn [tr_msg tr_s mk_tr];
        apply R_not_cf; try reflexivity; cbn; discriminate.
    + destruct (negb (rbs =? 0) && _); unfold tx_finish; cbn [tr_msg tr_s mk_tr].
      * apply R_not_cf; [reflexivity|cbn; discriminate].
      * apply R_same; reflexivity.
Qed.

Lemma R_tx_fsm_other c a s evs : tx_state s <> TxTransmitCF -> R s (tr_s (tx_fsm c a s evs)).
Proof.
  intros Hn. unfold tx_fsm. destruct (tx_state s) eqn:Est; [| |contradiction| |].
  - destruct (idle_dequeue _ _ _ _ _) as [site|s4 e4 out] eqn:Ed; [cbn; apply R_refl|].
    apply R_idle_dequeue in Ed; [|congruence]. exact (R_trans _ _ _ Ed (R_tx_finish _ _ _ _ _)).
  - apply R_tx_finish.
  - destruct (tx_standby s); [|apply R_tx_finish].
    destruct (_ <=? a); [|apply R_tx_finish]. unfold stop_sending; cbv beta iota.
    eapply R_trans; [|apply R_tx_finish]. apply R_not_cf; [reflexivity|cbn; discriminate].
  - destruct (tx_standby s); [|apply R_tx_finish].
    destruct (_ <=? a); [|apply R_tx_finish].
    eapply R_trans; [|apply R_tx_finish]. apply R_not_cf; [reflexivity|cbn; discriminate].
Qed.

(** *** One transmit pass *)

(** the state on which the transmit state machine of this pass runs; [None]: the pass only
    answers with a Flow Control *)
Definition tx_input (c : cfg) (s : layer) : option layer :=
  if pending_fc s then
    let s1 := s <| pending_fc := false |> in
    let s2 := if opt_eqb (pending_fc_status s1) (Some FS_CTS) then start_rx_cf_timer c s1 else s1 in
    if negb (p_listen (c_p c)) then None else Some s2
  else Some s.

(** the pass reaches the Consecutive Frame branch, with this state and these events so far *)
Definition cf_pass (c : cfg) (s : layer) : option (layer * list event) :=
  match tx_input c s with
  | Some s1 =>
      match tx_after_fc c s1 with
      | inr (s3, evs) => if txst_eqb (tx_state s3) TxTransmitCF then Some (s3, evs) else None
      | inl _ => None
      end
  | None => None
  end.

(** ... and emits a Consecutive Frame; the result is the state the frame was built from *)
Definition cf_emitted (c : cfg) (s : layer) : option layer :=
  match cf_pass c s with
  | Some (s3, evs) =>
      match tr_msg (tx_cf c (lim_allowed_bytes (c_p c) s) s3 evs) with Some _ => Some s3 | None => None end
  | None => None
  end.

Lemma txst_eqb_true a b : txst_eqb a b = true <-> a = b.
Proof. destruct a, b; cbn; split; intros H; try reflexivity; try discriminate. Qed.

Lemma R_tx_input c s s1 : tx_input c s = Some s1 -> R s s1.
Proof.
  unfold tx_input. destruct (pending_fc s); [|intros E; injection E as <-; apply R_refl].
  cbv zeta. destruct (negb (p_listen (c_p c))); [discriminate|].
  intros E; injection E as <-. destruct (opt_eqb _ _); apply R_same; reflexivity.
Qed.

Lemma process_tx_by_input c s :
  match tx_input c s with
  | Some s1 => process_tx c s = process_tx_main c (lim_allowed_bytes (c_p c) s) s1
  | None => R s (tr_s (process_tx c s))
  end.
Proof.
  unfold tx_input, process_tx. destruct (pending_fc s); [|reflexivity].
  cbv zeta. destruct (negb (p_listen (c_p c))); [|reflexivity].
  destruct (opt_eqb _ _).
  - destruct (pending_fc_status _) as [st|]; [destruct (make_flow_control c st)|]; cbn [tr_s mk_tr mk_crash]; apply R_same; reflexivity.
  - destruct (pending_fc_status _) as [st|]; [destruct (make_flow_control c st)|]; cbn [tr_s mk_tr mk_crash]; apply R_same; reflexivity.
Qed.

(** One transmit pass, classified: without Consecutive Frame it is an R-step; with one, the
    frame was built from a state [s3] reached by R-steps, in TRANSMIT_CF, with the STmin timer
    expired, and the timer is restarted now. *)
Lemma tx_pass_cases c s :
  match cf_emitted c s with
  | None => R s (tr_s (process_tx c s))
  | Some s3 =>
      R s s3 /\ tx_state s3 = TxTransmitCF /\ timer_timed_out (now s3) (timer_tx_stmin s3) = true /\
      now (tr_s (process_tx c s)) = now s /\
      (tx_state (tr_s (process_tx c s)) = TxTransmitCF ->
         t_start (timer_tx_stmin (tr_s (process_tx c s))) = Some (now s))
  end.
Proof.
  unfold cf_emitted, cf_pass.
  pose proof (process_tx_by_input c s) as Hp. pose proof (R_tx_input c s) as Hi.
  destruct (tx_input c s) as [s1|]; [|exact Hp].
  specialize (Hi s1 eq_refl). rewrite Hp. unfold process_tx_main.
  pose proof (R_tx_after_fc c s1) as Hf.
  destruct (tx_after_fc c s1) as [r|[s3 evs]]; [exact (R_trans _ _ _ Hi Hf)|].
  assert (H3 : R s s3) by exact (R_trans _ _ _ Hi Hf).
  destruct (txst_eqb (tx_state s3) TxTransmitCF) eqn:Ecf.
  - apply txst_eqb_true in Ecf.
    assert (Hfsm : tx_fsm c (lim_allowed_bytes (c_p c) s) s3 evs = tx_cf c (lim_allowed_bytes (c_p c) s) s3 evs)
      by (unfold tx_fsm; rewrite Ecf; reflexivity).
    rewrite Hfsm. pose proof (tx_cf_pacing c (lim_allowed_bytes (c_p c) s) s3 evs Ecf) as Hc.
    destruct (tr_msg (tx_cf _ _ _ _)) as [m|].
    + destruct Hc as (Hto & Hn & Hst). destruct H3 as [N3 H3'].
      repeat split; try assumption; try congruence.
      intros Hs. rewrite (Hst Hs). congruence.
    + exact (R_trans _ _ _ H3 Hc).
  - assert (Hne : tx_state s3 <> TxTransmitCF).
    { intros E. apply txst_eqb_true in E. congruence. }
    exact (R_trans _ _ _ H3 (R_tx_fsm_other c _ s3 evs Hne)).
Qed.

(** If the pass emits a Consecutive Frame, the separation time held by the STmin timer has
    elapsed since the previous one and the invariant restarts from now; otherwise it is kept. *)
Theorem tx_pass_pacing c s t0 : Q t0 s ->
  match cf_emitted c s with
  | Some s3 => t_timeout (timer_tx_stmin s3) <= now s - t0 /\ Q (now s) (tr_s (process_tx c s))
  | None => Q t0 (tr_s (process_tx c s))
  end.
Proof.
  intros HQ. pose proof (tx_pass_cases c s) as H.
  destruct (cf_emitted c s) as [s3|]; [|exact (Q_R _ _ _ HQ H)].
  destruct H as (H3 & Ecf & Hto & Hn & Hst).
  destruct (Q_R _ _ _ HQ H3) as [Hle Hq3]. destruct H3 as [N3 _].
  destruct (Hq3 Ecf) as (ts & Hts & Hge).
  destruct (timed_out_elapsed _ _ Hto) as (ts' & Hts' & Hel). rewrite Hts in Hts'. injection Hts' as <-.
  split; [rewrite <- N3; lia|].
  split; [lia|]. intros Hs. exists (now s). split; [auto|lia].
Qed.

Lemma tx_pass_first c s s3 : cf_emitted c s = Some s3 -> Q (now s) (tr_s (process_tx c s)).
Proof.
  intros E. pose proof (tx_pass_cases c s) as H. rewrite E in H.
  destruct H as (_ & _ & _ & Hn & Hst). split; [lia|]. intros Hs. exists (now s). split; [auto|lia].
Qed.

(** *** Whole runs *)
Definition Qo (lc : option Z) (s : layer) : Prop := match lc with Some t0 => Q t0 s | None => True end.

Definition gstep (c : cfg) (s : layer) (lc : option Z) (m : micro) : option Z :=
  match m with
  | MTx => match cf_emitted c s with Some _ => Some (now s) | None => lc end
  | _ => lc
  end.

Definition gap_ok (c : cfg) (s : layer) (lc : option Z) (m : micro) : Prop :=
  match m with
  | MTx => match cf_emitted c s with
           | Some s3 => forall t0, lc = Some t0 -> t_timeout (timer_tx_stmin s3) <= now s - t0
           | None => True
           end
  | _ => True
  end.

Fixpoint paced (c : cfg) (s : layer) (lc : option Z) (ms : list micro) : Prop :=
  match ms with
  | [] => True
  | m :: rest => gap_ok c s lc m /\ paced c (fst (mstep c s m)) (gstep c s lc m) rest
  end.

Definition ticks_nonneg (ms : list micro) : Prop := forall d, In (MTick d) ms -> 0 <= d.

Lemma txv_R s s' : txv s' = txv s -> R s s'.
Proof.
  unfold txv. intros E.
  pose proof (f_equal (fun '(n, st, _, _, _, _, _, _, _, _, _, tm, _, _, _, _) => (n, st, tm)) E) as E'.
  cbv beta iota in E'. injection E' as E1 E2 E3. apply R_same; assumption.
Qed.

Lemma Qo_step c s lc m : Qo lc s -> (forall d, m = MTick d -> 0 <= d) ->
  gap_ok c s lc m /\ Qo (gstep c s lc m) (fst (mstep c s m)).
Proof.
  intros HQ Ht.
  assert (Hkeep : forall s', R s s' -> Qo lc s').
  { intros s' Hr. destruct lc as [t0|]; [exact (Q_R _ _ _ HQ Hr)|exact I]. }
  destruct m; cbn [gap_ok gstep mstep fst]; try (split; [exact I|]).
  - apply Hkeep, txv_R, check_timeouts_preserves_tx.
  - (* MRx: a Flow Control only fills the mailbox; any other frame leaves the transmit view alone *)
    apply Hkeep.
    destruct (pdu_decode (f_data f) (c_rx_prefix_size c)) as [d|] eqn:Ed.
    + destruct (d_pdu d) as [esc l data|l len data|sn data|fs bs st] eqn:Ep.
      4: { rewrite (rx_fc_only_mailbox c s f d fs bs st Ed Ep). cbn [rr_s mk_rr]. apply R_same; reflexivity. }
      all: apply txv_R, rx_data_preserves_tx; intros d' fs' bs' st' Hd'; rewrite Ed in Hd'; injection Hd' as <-; rewrite Ep; discriminate.
    + apply txv_R, rx_data_preserves_tx. intros d' fs' bs' st' Hd'. rewrite Ed in Hd'. discriminate.
  - apply Hkeep. unfold lim_update. destruct (negb _); [apply R_same; reflexivity|].
    destruct (lim_pop _ _ _ _ _) as [[ts bs] tot]. apply R_same; reflexivity.
  - (* MTx *)
    destruct lc as [t0|].
    + pose proof (tx_pass_pacing c s t0 HQ) as Hp. destruct (cf_emitted c s) as [s3|].
      * destruct Hp as [Hg Hq]. split; [intros t E; injection E as <-; exact Hg|exact Hq].
      * split; [exact I|exact Hp].
    + destruct (cf_emitted c s) as [s3|] eqn:Ee; [|split; exact I].
      split; [intros t E; discriminate|].
      (* first Consecutive Frame ever: the invariant starts now *)
      exact (tx_pass_first c s s3 Ee).
  - apply Hkeep. unfold send. destruct (size <? 0); [apply R_refl|]. destruct (_ <? size); [apply R_refl|].
    destruct (match match t with Some x => x | None => _ end with Functional => _ | Physical => _ end); [apply R_refl|].
    apply R_same; reflexivity.
  - apply Hkeep. unfold recv. destruct (rx_queue s); [apply R_refl|apply R_same; reflexivity].
  - apply Hkeep. apply R_stop_sending.
  - apply Hkeep. apply R_same; reflexivity.
  - apply Hkeep. apply R_not_cf; [reflexivity|cbn; discriminate].
  - destruct lc as [t0|]; [|exact I]. destruct HQ as [Hn Hq]. specialize (Ht d eq_refl).
    split; [cbn; lia|]. intros Hs. destruct (Hq Hs) as (ts & H1 & H2). exists ts. auto.
Qed.

(** Every run of micro-steps with non-negative clock ticks is paced: each Consecutive Frame
    leaves at least the separation time programmed at that moment after the previous one. *)
Theorem pacing_run c : forall ms s lc, ticks_nonneg ms -> Qo lc s -> paced c s lc ms.
Proof.
  induction ms as [|m rest IH]; intros s lc Ht HQ; cbn [paced]; [exact I|].
  destruct (Qo_step c s lc m HQ) as [Hg Hq].
  { intros d E. apply Ht. rewrite E. left. reflexivity. }
  split; [exact Hg|]. apply IH; [|exact Hq]. intros d Hd. apply Ht. right. exact Hd.
Qed.

Corollary pacing_from_init c t0 ms : ticks_nonneg ms -> paced c (init_layer c t0) None ms.
Proof. intros H. apply pacing_run; [exact H|exact I]. Qed.
