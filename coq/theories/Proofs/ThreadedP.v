(** Lifecycle (C14) and multi-thread hand-over (C13) facts about Model/Threaded.v. *)
From IsoTp Require Import Base.Prelude Model.Layer Model.Threaded Proofs.LocalP.

(** ** C14 *)

(** The only exception of the lifecycle methods is the documented RuntimeError, raised exactly
    by a second start() and by process() / reset() on a started layer. *)
Theorem lstep_runtime_error fuel c s o :
  snd (fst (lstep fuel c s o)) = LRuntimeError <->
  (t_started s = true /\ (o = LStart \/ o = LProcess \/ o = LReset)).
Proof.
  destruct o; cbn [lstep].
  - destruct (t_started s); cbn; intuition (try discriminate; auto).
  - destruct (reset c _) as [l1 evs]. cbn. intuition (try discriminate).
  - destruct (send c _ g size t) as [l1 r]. destruct r; cbn; intuition discriminate.
  - destruct (recv _) as [l1 r]. cbn. intuition discriminate.
  - destruct (stop_sending false _) as [l1 evs]. cbn. intuition discriminate.
  - cbn. intuition discriminate.
  - destruct (t_started s).
    + cbn. intuition (try discriminate; auto).
    + destruct (process _ _ _ _ _) as [[[w1 evs] st] e]. cbn. intuition discriminate.
  - destruct (t_started s).
    + cbn. intuition (try discriminate; auto).
    + destruct (reset c _) as [l1 evs]. cbn. intuition discriminate.
  - destruct (t_started s).
    + destruct (process _ _ _ _ _) as [[[w1 evs] st] e]. cbn. intuition discriminate.
    + cbn. intuition discriminate.
  - cbn. intuition discriminate.
  - cbn. intuition discriminate.
Qed.

(** Worker and relay thread exist exactly while the layer is started. *)
Definition threads_ok (s : tl) : Prop := t_threads s = if t_started s then 2%nat else 0%nat.

Lemma threads_ok_step fuel c s o : threads_ok s -> threads_ok (fst (fst (lstep fuel c s o))).
Proof.
  unfold threads_ok. intros H. destruct o; cbn [lstep].
  - destruct (t_started s) eqn:E; cbn; [rewrite E; exact H|reflexivity].
  - destruct (reset c _) as [l1 evs]. reflexivity.
  - destruct (send c _ g size t) as [l1 r]. exact H.
  - destruct (recv _) as [l1 r]. exact H.
  - destruct (stop_sending false _) as [l1 evs]. exact H.
  - exact H.
  - destruct (t_started s) eqn:E; [cbn; rewrite E; exact H|].
    destruct (process _ _ _ _ _) as [[[w1 evs] st] e]. cbn. rewrite E. exact H.
  - destruct (t_started s) eqn:E; [cbn; rewrite E; exact H|].
    destruct (reset c _) as [l1 evs]. cbn. rewrite E. exact H.
  - destruct (t_started s) eqn:E; [|cbn; rewrite E; exact H].
    destruct (process _ _ _ _ _) as [[[w1 evs] st] e]. cbn. rewrite E. exact H.
  - exact H.
  - exact H.
Qed.

Theorem threads_ok_run fuel c ops : forall s, threads_ok s -> threads_ok (fst (lrun fuel c s ops)).
Proof.
  induction ops as [|o r IH]; intros s H; cbn [lrun]; [exact H|].
  pose proof (threads_ok_step fuel c s o H) as H1.
  destruct (lstep fuel c s o) as [[s1 out] evs]. cbn [fst] in H1.
  specialize (IH s1 H1). destruct (lrun fuel c s1 r) as [s2 outs]. exact IH.
Qed.

(** stop(), in any state (never started, idle, in the middle of a transfer in either direction):
    succeeds; no thread left; not started; both state machines idle; every queue empty; every
    request that was queued or active has been completed with failure. *)
Theorem stop_clean fuel c s :
  let '(s', out, evs) := lstep fuel c s LStop in
  let l := w_l (t_w s) in let l' := w_l (t_w s') in
  out = LOk /\ t_started s' = false /\ t_threads s' = 0%nat /\
  tx_state l' = TxIdle /\ rx_state l' = RxIdle /\ tx_queue l' = [] /\ rx_queue l' = [] /\ active l' = None /\
  w_inbox (t_w s') = [] /\
  transmitting l' = false /\ available l' = false /\ is_rx_active l' = false /\
  evs = map (fun r => EDone (r_id r) false) (tx_queue l) ++
        match active l with Some r => [EDone (r_id r) false] | None => [] end.
Proof.
  cbn [lstep].
  destruct (reset_completes_all c (w_l (t_w s))) as (He & Hq & Ha & Ht & Hr & Hrq).
  destruct (reset c (w_l (t_w s))) as [l1 evs]. cbn [fst snd] in *. cbn.
  unfold transmitting, available, is_rx_active. rewrite Hq, Ht, Hr, Hrq. cbn. auto 15.
Qed.

(** stop() on a layer that was never started changes nothing observable and reports nothing. *)
Theorem stop_never_started fuel c t0 :
  let '(s', out, evs) := lstep fuel c (tl_init c t0) LStop in
  out = LOk /\ evs = [] /\ t_started s' = false /\ t_threads s' = 0%nat.
Proof. cbn. auto. Qed.

(** A stopped layer starts again, and is then in the same protocol state as a fresh one: both
    state machines idle, nothing queued, nothing pending. *)
Theorem restart_idle fuel c s :
  let s1 := fst (fst (lstep fuel c s LStop)) in
  let '(s2, out, evs) := lstep fuel c s1 LStart in
  let l := w_l (t_w s2) in
  out = LOk /\ evs = [] /\ t_started s2 = true /\ t_threads s2 = 2%nat /\
  tx_state l = TxIdle /\ rx_state l = RxIdle /\ tx_queue l = [] /\ rx_queue l = [] /\ active l = None /\
  pending_fc l = false /\ last_fc l = None /\ tx_standby l = None /\
  timer_running (timer_rx_cf l) = false /\ timer_running (timer_rx_fc l) = false /\ w_inbox (t_w s2) = [].
Proof.
  cbn [lstep].
  destruct (reset c (w_l (t_w s))) as [l1 evs] eqn:E. cbn.
  unfold reset in E. cbn in E. injection E as <- _. cbn. auto 20.
Qed.

(** ** C13 *)
Lemma nth_set_nth {A} (d : A) j x : forall (l : list A) i,
  (j < length l)%nat -> nth i (set_nth j x l) d = if Nat.eqb i j then x else nth i l d.
Proof.
  induction j as [|j IH]; intros l i Hj; destruct l as [|y r]; cbn in Hj; try lia.
  - destruct i; reflexivity.
  - destruct i; cbn; [reflexivity|]. apply IH. lia.
Qed.

Lemma of_thread_app {A} i (a b : list (nat * A)) : of_thread i (a ++ b) = of_thread i a ++ of_thread i b.
Proof. unfold of_thread. rewrite filter_app, map_app. reflexivity. Qed.

(** Whatever the schedule: what thread [i] has put in the queue so far, followed by what it has
    not sent yet, is the list it was given - its payloads are queued in its own order, none
    twice, none invented. *)
Theorem run_sched_thread {A} (sched : list nat) : forall (pend : list (list A)) q i,
  let '(q', pend') := run_sched sched pend q in
  of_thread i q' ++ nth i pend' [] = of_thread i q ++ nth i pend [].
Proof.
  induction sched as [|j rest IH]; intros pend q i; cbn [run_sched]; [reflexivity|].
  destruct (nth j pend []) as [|x more] eqn:Ej; [apply IH|].
  specialize (IH (set_nth j more pend) (q ++ [(j, x)]) i).
  destruct (run_sched rest _ _) as [q' pend']. rewrite IH.
  assert (Hj : (j < length pend)%nat).
  { destruct (Nat.lt_ge_cases j (length pend)) as [H|H]; [exact H|].
    rewrite nth_overflow in Ej by exact H. discriminate. }
  rewrite of_thread_app, nth_set_nth by exact Hj.
  unfold of_thread at 2. cbn [filter fst map snd].
  destruct (Nat.eqb_spec j i) as [->|Hne].
  - rewrite Nat.eqb_refl, Ej. cbn. rewrite <- app_assoc. reflexivity.
  - destruct (Nat.eqb_spec i j) as [->|_]; [contradiction|]. cbn. rewrite app_nil_r. reflexivity.
Qed.

(** A schedule that lets every thread finish: the queue restricted to thread [i] is exactly its list. *)
Corollary run_sched_complete {A} sched (pend : list (list A)) i :
  let '(q', pend') := run_sched sched pend [] in
  nth i pend' [] = [] -> of_thread i q' = nth i pend [].
Proof.
  pose proof (run_sched_thread sched pend [] i) as H.
  destruct (run_sched sched pend []) as [q' pend']. intros E. rewrite E, app_nil_r in H. exact H.
Qed.

(** The queue itself only grows at its end (no reordering of what is already queued). *)
Lemma run_sched_extends {A} sched : forall (pend : list (list A)) q,
  exists more, fst (run_sched sched pend q) = q ++ more.
Proof.
  induction sched as [|j rest IH]; intros pend q; cbn [run_sched].
  - exists []. cbn. rewrite app_nil_r. reflexivity.
  - destruct (nth j pend []) as [|x m]; [apply IH|].
    destruct (IH (set_nth j m pend) (q ++ [(j, x)])) as [more H]. exists ((j, x) :: more).
    rewrite H, <- app_assoc. reflexivity.
Qed.

(** send() appends one request at the end of the transmit queue and touches nothing else of it ... *)
Lemma send_appends c s g size t :
  snd (send c s g size t) = SendOk ->
  exists r, tx_queue (fst (send c s g size t)) = tx_queue s ++ [r] /\ r_gen r = g /\ r_size r = size /\
            r_consumed r = 0 /\ r_id r = next_req_id s.
Proof.
  unfold send. destruct (size <? 0); [discriminate|]. destruct (_ <? size); [discriminate|].
  destruct (match match t with Some x => x | None => _ end with Functional => _ | Physical => _ end); [discriminate|].
  intros _. eexists. cbn. repeat split.
Qed.

(** ... and the worker starts the request at the head of the queue: the transmit queue is FIFO. *)
Lemma dequeue_head c r rest s evs allowed :
  r_is_depleted r = false ->
  idle_dequeue c (r :: rest) s evs allowed =
  match start_request c (s <| tx_queue := rest |> <| active := Some r |>) r allowed with
  | SRCrash site => SRCrash site
  | SRDone s' evs' out => SRDone s' (evs ++ evs') out
  end.
Proof. intros H. cbn [idle_dequeue]. rewrite H. reflexivity. Qed.
