(** C05 / C16: for valid parameters no modelled Python exception site is reachable:
    process() never raises, whatever the traffic, the user calls and the schedule. *)
From IsoTp Require Import Base.Prelude Model.Micro Spec.ConfigSpec Proofs.FramesP Proofs.Inv Proofs.MicroP.

Lemma prefix_len c : 0 <= zlen (c_tx_prefix c) <= 1.
Proof. unfold c_tx_prefix, tx_prefix. destruct (a_mode (c_txa c)); cbn; lia. Qed.

Lemma tx_dl_bounds p : params_ok p -> 8 <= p_tx_dl p <= 64.
Proof. intros (H & _). apply in_ll_sizes in H. lia. Qed.

Lemma make_tx_msg_some c id d :
  params_ok (c_p c) -> 2 <= zlen d <= p_tx_dl (c_p c) -> make_tx_msg c id d <> None.
Proof.
  intros Hok Hl. destruct (make_tx_msg_spec c id d Hok Hl) as [E _]; [lia|]. rewrite E. discriminate.
Qed.

Lemma make_flow_control_some c st : params_ok (c_p c) -> make_flow_control c st <> None.
Proof.
  intros Hok. unfold make_flow_control. apply make_tx_msg_some; [exact Hok|].
  pose proof (prefix_len c). pose proof (tx_dl_bounds _ Hok).
  rewrite zlen_app. unfold craft_fc_data. rewrite !zlen_cons, zlen_nil. lia.
Qed.

Lemma consume_exact_len size r payload r' : 0 <= size ->
  consume size true r = (Some payload, r') -> zlen payload = size.
Proof.
  intros Hs E. destruct (consume_facts _ _ _ _ _ E) as (_ & _ & _ & _ & Hd).
  destruct (Hd payload eq_refl) as (_ & _ & H1 & H2). specialize (H2 eq_refl). lia.
Qed.

Lemma start_request_nocrash c s r allowed :
  params_ok (c_p c) -> req_fresh r -> r_is_depleted r = false ->
  forall site, start_request c s r allowed <> SRCrash site.
Proof.
  intros Hok (Hr1 & Hr2 & Hr3) Hnd site.
  pose proof (prefix_len c) as Hp. pose proof (tx_dl_bounds _ Hok) as Hdl.
  assert (Hpos : 0 < r_size r).
  { unfold r_is_depleted, r_remaining in Hnd. rewrite Hr1, Hr2 in Hnd.
    rewrite orb_false_r in Hnd. apply Z.leb_gt in Hnd. lia. }
  unfold start_request.
  destruct (r_size r <=? _) eqn:Efit.
  - apply Z.leb_le in Efit.
    destruct (consume (r_size r) true r) as [[payload|] r'] eqn:Ec; [|destruct (stop_sending _ _); discriminate].
    pose proof (consume_exact_len _ _ _ _ (Z.lt_le_incl _ _ Hpos) Ec) as Hlen.
    destruct (make_tx_msg _ _ _) eqn:Em.
    + destruct (allowed <? _); [discriminate|]. destruct (stop_sending _ _); discriminate.
    + exfalso. revert Em. apply make_tx_msg_some; [exact Hok|].
      rewrite !zlen_app, Hlen. destruct (sf_on_first_byte c (r_remaining r)); rewrite ?zlen_cons, ?zlen_nil; lia.
  - destruct (r_size r <=? 0xFFF) eqn:Eshort.
    + destruct (consume _ true r) as [[payload|] r'] eqn:Ec; [|destruct (stop_sending _ _); discriminate].
      assert (zlen payload = p_tx_dl (c_p c) - 2 - zlen (c_tx_prefix c)) as Hlen
        by (eapply consume_exact_len; [|exact Ec]; lia).
      destruct (make_tx_msg _ _ _) eqn:Em.
      * destruct (_ <=? allowed); discriminate.
      * exfalso. revert Em. apply make_tx_msg_some; [exact Hok|].
        rewrite !zlen_app, Hlen, !zlen_cons, zlen_nil. lia.
    + destruct (consume _ true r) as [[payload|] r'] eqn:Ec; [|destruct (stop_sending _ _); discriminate].
      assert (zlen payload = p_tx_dl (c_p c) - 6 - zlen (c_tx_prefix c)) as Hlen
        by (eapply consume_exact_len; [|exact Ec]; lia).
      destruct (make_tx_msg _ _ _) eqn:Em.
      * destruct (_ <=? allowed); discriminate.
      * exfalso. revert Em. apply make_tx_msg_some; [exact Hok|].
        rewrite !zlen_app, Hlen, !zlen_cons, zlen_nil. lia.
Qed.

Lemma idle_dequeue_nocrash c q : forall s evs allowed,
  params_ok (c_p c) -> Forall req_fresh q -> forall site, idle_dequeue c q s evs allowed <> SRCrash site.
Proof.
  induction q as [|r rest IH]; intros s evs allowed Hok Hq site; simpl; [discriminate|].
  inversion Hq as [|? ? Hr Hrest]; subst.
  destruct (r_is_depleted r) eqn:Ed.
  - apply IH; assumption.
  - destruct (start_request c _ r allowed) as [st|s2 evs2 out] eqn:Es; [|discriminate].
    exfalso. eapply start_request_nocrash; eauto.
Qed.

Lemma tx_finish_nocrash p s evs out imm : tr_crash (tx_finish p s evs out imm) = false.
Proof. unfold tx_finish. destruct out; reflexivity. Qed.

Lemma tx_cf_nocrash c allowed s evs :
  params_ok (c_p c) -> WF c s -> tx_state s = TxTransmitCF -> tr_crash (tx_cf c allowed s evs) = false.
Proof.
  intros Hok H Et. pose proof (prefix_len c) as Hp. pose proof (tx_dl_bounds _ Hok) as Hdl.
  unfold tx_cf.
  destruct (wf_cf c s H Et) as [Hrb _].
  destruct (remote_bs s) as [rbs|]; [|congruence].
  destruct (active s) as [r|] eqn:Ea.
  2:{ exfalso. assert (tx_state s = TxIdle) by (apply (wf_active c s H); exact Ea). congruence. }
  destruct (timer_timed_out _ _); [|apply tx_finish_nocrash].
  destruct (_ <=? allowed); [|apply tx_finish_nocrash].
  pose proof (wf_req c s H r Ea) as Hr.
  destruct (consume _ false r) as [res r'] eqn:Ec.
  assert (Hres : res <> None).
  { unfold consume in Ec. pose proof (gen_take_length (Z.min (p_tx_dl (c_p c) - 1 - zlen (c_tx_prefix c)) (r_remaining r)) (r_gen r)) as Hl.
    destruct (gen_take _ (r_gen r)) as [data g']. simpl in Hl. cbn in Ec.
    unfold r_remaining in *.
    destruct (r_size r <? r_consumed r + zlen data) eqn:E1.
    - apply Z.ltb_lt in E1. lia.
    - destruct (zlen data <? _); injection Ec as <- _; discriminate. }
  destruct res as [payload|]; [|congruence].
  destruct (consume_facts _ _ _ _ _ Ec) as (_ & _ & _ & _ & Hd).
  destruct (Hd payload eq_refl) as (_ & _ & Hpl & _).
  destruct (0 <? zlen payload) eqn:Epos.
  - apply Z.ltb_lt in Epos.
    destruct (make_tx_msg _ _ _) eqn:Em.
    + destruct (r_is_depleted r').
      * destruct (0 <? r_remaining r'); destruct (stop_sending _ _); apply tx_finish_nocrash.
      * destruct (negb (rbs =? 0) && _); apply tx_finish_nocrash.
    + exfalso. revert Em. apply make_tx_msg_some; [exact Hok|].
      rewrite !zlen_app, !zlen_cons, zlen_nil. lia.
  - destruct (r_is_depleted r').
    + destruct (0 <? r_remaining r'); destruct (stop_sending _ _); apply tx_finish_nocrash.
    + destruct (negb (rbs =? 0) && _); apply tx_finish_nocrash.
Qed.

Theorem process_tx_nocrash c s :
  params_ok (c_p c) -> WF c s -> tr_crash (process_tx c s) = false.
Proof.
  intros Hok H0. unfold process_tx.
  assert (Hmain : forall s2 a, WF c s2 -> tr_crash (process_tx_main c a s2) = false).
  { intros s2 a H2. unfold process_tx_main.
    pose proof (WF_tx_after_fc c s2 H2) as Hf.
    destruct (tx_after_fc c s2) as [r|[s3 evs]] eqn:Ea.
    - (* early returns of tx_after_fc are never crashes *)
      unfold tx_after_fc in Ea.
      destruct (match last_fc s2 with None => _ | Some f => _ end) as [r0 [s' evs1]].
      destruct r0; [injection Ea as <-; reflexivity|].
      destruct (if timer_timed_out (now s') (timer_rx_fc s') then _ else _) as [sx evs2] eqn:Eto.
      assert (Hsx : WF c sx).
      { (* re-derive: same reasoning as WF_tx_after_fc, through its statement on this branch *)
        destruct (tx_state sx); destruct (active sx); try discriminate;
        try (destruct (r_is_depleted _ && _); [destruct (stop_sending _ _)|]; discriminate).
        all: injection Ea as <-; exact Hf. }
      destruct (tx_state sx) eqn:Et; [discriminate| | | |];
      (destruct (active sx) eqn:Eac;
       [destruct (r_is_depleted _ && _); [destruct (stop_sending _ _)|]; discriminate
       |exfalso; assert (tx_state sx = TxIdle) by (apply (wf_active c sx Hsx); exact Eac); congruence]).
    - destruct Hf as [H3 Hact]. unfold tx_fsm.
      destruct (tx_state s3) eqn:Et.
      + destruct (idle_dequeue c (tx_queue s3) s3 [] a) as [site|? ? ?] eqn:Ei; [|apply tx_finish_nocrash].
        exfalso. exact (idle_dequeue_nocrash c (tx_queue s3) s3 [] a Hok (wf_queue c s3 H3) site Ei).
      + apply tx_finish_nocrash.
      + apply tx_cf_nocrash; assumption.
      + destruct (tx_standby s3); [|apply tx_finish_nocrash].
        destruct (_ <=? a); [|apply tx_finish_nocrash].
        destruct (stop_sending _ _); apply tx_finish_nocrash.
      + destruct (tx_standby s3); [|apply tx_finish_nocrash].
        destruct (_ <=? a); apply tx_finish_nocrash. }
  destruct (pending_fc s) eqn:Ep.
  - pose proof (wf_pending c s H0 Ep) as Hq.
    set (s2 := if opt_eqb _ _ then _ else _).
    assert (Hst : pending_fc_status s2 = pending_fc_status s).
    { subst s2. destruct (opt_eqb _ _); reflexivity. }
    destruct (negb (p_listen (c_p c))).
    + rewrite Hst. destruct (pending_fc_status s) as [z|]; [|destruct Hq; discriminate].
      destruct (make_flow_control c z) eqn:Em; [reflexivity|].
      exfalso. revert Em. apply make_flow_control_some, Hok.
    + apply Hmain. subst s2. apply WF_tx_pending; assumption.
  - apply Hmain, H0.
Qed.

Lemma tx_loop_nocrash c fuel : params_ok (c_p c) -> forall s evs st,
  WF c s ->
  WF c (fst (fst (fst (tx_loop fuel c s evs st)))) /\ snd (tx_loop fuel c s evs st) <> LCrash.
Proof.
  intros Hok. induction fuel as [|fuel IH]; intros s evs st H; simpl.
  - split; [exact H|discriminate].
  - rewrite (process_tx_nocrash c s Hok H).
    pose proof (WF_process_tx c s H) as H1.
    destruct (tr_msg (process_tx c s)).
    + destruct (tr_imm_rx (process_tx c s)); simpl.
      * split; [exact H1|discriminate].
      * apply IH. exact H1.
    + destruct (tr_imm_rx (process_tx c s)); simpl; (split; [exact H1|discriminate]).
Qed.

Lemma rx_loop_WF c inbox s evs st :
  WF c s -> WF c (snd (fst (fst (rx_loop c inbox s evs st)))).
Proof.
  intros H. destruct (rx_loop_micro c inbox s evs st) as (ms & en & _ & Hr & _).
  pose proof (WF_mrun c ms s H) as Hw. rewrite Hr in Hw. exact Hw.
Qed.

(** process() never raises (never ends in the modelled crash outcome), for every inbox
    content, every flag combination, every fuel. *)
Theorem process_nocrash c fuel do_rx do_tx : params_ok (c_p c) -> forall w evs st,
  WF c (w_l w) ->
  WF c (w_l (fst (fst (fst (process_loop fuel c do_rx do_tx w evs st))))) /\
  snd (process_loop fuel c do_rx do_tx w evs st) <> LCrash.
Proof.
  intros Hok. induction fuel as [|fuel IH]; intros w evs st H; simpl.
  - split; [exact H|discriminate].
  - set (swt := do_tx && negb (is_nil (tx_queue (w_l w))) && rxst_eqb (rx_state (w_l w)) RxIdle &&
                txst_eqb (tx_state (w_l w)) TxIdle).
    assert (H1 : WF c (snd (fst (fst (if do_rx && negb swt then rx_loop c (w_inbox w) (w_l w) evs st
                                    else (w_inbox w, w_l w, evs, st)))))).
    { destruct (do_rx && negb swt); [apply rx_loop_WF, H|exact H]. }
    destruct (if do_rx && negb swt then rx_loop c (w_inbox w) (w_l w) evs st
              else (w_inbox w, w_l w, evs, st)) as [[[inbox1 s1] evs1] st1]. simpl in H1.
    pose proof (WF_lim_update c (c_p c) s1 H1) as H2.
    assert (H3 : WF c (fst (fst (fst (if do_tx then tx_loop fuel c (lim_update (c_p c) s1) evs1 st1
                                    else (lim_update (c_p c) s1, evs1, st1, LEnd))))) /\
                 snd (if do_tx then tx_loop fuel c (lim_update (c_p c) s1) evs1 st1
                      else (lim_update (c_p c) s1, evs1, st1, LEnd)) <> LCrash).
    { destruct do_tx; [apply tx_loop_nocrash; assumption|]. split; [exact H2|discriminate]. }
    destruct (if do_tx then tx_loop fuel c (lim_update (c_p c) s1) evs1 st1
              else (lim_update (c_p c) s1, evs1, st1, LEnd)) as [[[s3 evs3] st3] e]. simpl in H3.
    destruct H3 as [H3 He].
    destruct e; simpl.
    + destruct swt; [apply IH; exact H3|split; [exact H3|discriminate]].
    + apply IH; exact H3.
    + congruence.
    + split; [exact H3|discriminate].
Qed.
