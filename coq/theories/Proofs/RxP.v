(** C03: the receiver reassembles every well-formed stream. *)
From IsoTp Require Import Base.Prelude Base.Bits Model.Layer Spec.ConfigSpec Spec.Stream Proofs.Codec Proofs.FramesP.

Fixpoint rx_run (c : cfg) (s : layer) (fs : list (list Z)) (mk : list Z -> frame) : layer * list event :=
  match fs with
  | [] => (s, [])
  | d :: r =>
      let rr := process_rx c s (mk d) in
      let '(s', e') := rx_run c (rr_s rr) r mk in (s', rr_evs rr ++ e')
  end.

Lemma seq_next j : 0 <= j -> Z.land ((j - 1) mod 16 + 1) 0xF = j mod 16.
Proof.
  intros Hj. rewrite land_F.
  replace j with ((j - 1) + 1) at 2 by lia.
  rewrite (Z.add_mod (j - 1) 1 16) by lia. reflexivity.
Qed.

Lemma valid_rxdl_sizes T : In T LL_SIZES -> valid_rxdl T = true.
Proof. intros H. apply in_ll_sizes in H. destruct H as [->|[->|[->|[->|[->|[->|[->| ->]]]]]]]; reflexivity. Qed.

Section Rx.
Variable c : cfg.
Variable mk : list Z -> frame.
Hypothesis mk_data : forall d, f_data (mk d) = d.
Let k := c_rx_prefix_size c.

(** Consecutive Frames of a well-formed stream complete the reception. *)
Lemma rx_cfs T : In T LL_SIZES -> forall j rest frames, wf_cfs k T j rest frames ->
  forall s, 1 <= j ->
    rx_state s = RxWaitCF -> actual_rxdl s = Some T ->
    rx_frame_length s = zlen (rx_buffer s) + zlen rest ->
    last_seqnum s = (j - 1) mod 16 ->
    let '(s', evs) := rx_run c s frames mk in
    evs = [] /\ rx_queue s' = rx_queue s ++ [rx_buffer s ++ rest] /\ rx_state s' = RxIdle /\
    rx_buffer s' = [] /\ timer_rx_cf s' = timer_stop (timer_rx_cf s') /\
    tx_state s' = tx_state s /\ tx_queue s' = tx_queue s /\ active s' = active s.
Proof.
  intros HT. pose proof (in_ll_sizes T HT) as HTs.
  induction 1 as [j rest pre pad Hpre Hne Hlen Hmax | j chunk rest pre tl Hpre Hchunk Hne Hcfs IH];
    intros s Hj Hst Hdl Hfl Hsq.
  - (* last frame *)
    cbn [rx_run]. unfold process_rx. rewrite mk_data. change (c_rx_prefix_size c) with k.
    rewrite (decode_cf pre (j mod 16) (rest ++ pad) k Hpre) by (apply Z.mod_pos_bound; lia).
    cbn [d_pdu d_can_dl d_rx_dl]. rewrite Hst. cbv iota.
    rewrite Hsq, seq_next by lia. rewrite Z.eqb_refl.
    set (rxdl := Z.max 8 _).
    replace (rx_frame_length s - zlen (rx_buffer s)) with (zlen rest) by lia.
    assert (Hrest : 0 < zlen rest). { destruct rest; [congruence|rewrite zlen_cons; pose proof (zlen_nonneg rest); lia]. }
    assert (Hchk : negb (opt_eqb (Some rxdl) (actual_rxdl s)) && (rxdl <? zlen rest) = false).
    { apply andb_false_iff. right. apply Z.ltb_ge. subst rxdl.
      rewrite zlen_app, zlen_cons, zlen_app. pose proof (zlen_nonneg pad). pose proof (zlen_nonneg pre). lia. }
    rewrite Hchk.
    rewrite (ztake_app_exact rest pad) by reflexivity.
    cbn [rx_frame_length rx_buffer start_rx_cf_timer].
    assert (Hdone : (rx_frame_length s <=? zlen (rx_buffer s ++ rest)) = true).
    { apply Z.leb_le. rewrite zlen_app. lia. }
    cbn. rewrite Hdone. cbn. repeat split.
  - (* a full frame followed by more *)
    cbn [rx_run]. unfold process_rx. rewrite mk_data. change (c_rx_prefix_size c) with k.
    rewrite (decode_cf pre (j mod 16) chunk k Hpre) by (apply Z.mod_pos_bound; lia).
    cbn [d_pdu d_can_dl d_rx_dl]. rewrite Hst. cbv iota.
    rewrite Hsq, seq_next by lia. rewrite Z.eqb_refl.
    assert (Hk : 0 <= k <= 1) by (subst k; unfold c_rx_prefix_size, Address.rx_prefix_size; destruct (Address.requires_ext_byte _); lia).
    assert (Hrxdl : Z.max 8 (zlen (pre ++ (32 + j mod 16) :: chunk)) = T).
    { rewrite zlen_app, zlen_cons. lia. }
    rewrite Hrxdl, Hdl. cbn [opt_eqb]. rewrite Z.eqb_refl. cbn [negb andb].
    assert (Hrest : 0 < zlen rest). { destruct rest; [congruence|rewrite zlen_cons; pose proof (zlen_nonneg rest); lia]. }
    rewrite zlen_app in Hfl.
    rewrite (ztake_all chunk) by lia.
    cbn [rx_frame_length rx_buffer start_rx_cf_timer].
    assert (Hnot : (rx_frame_length s <=? zlen (rx_buffer s ++ chunk)) = false).
    { apply Z.leb_gt. rewrite zlen_app. lia. }
    cbn. rewrite Hnot. cbn.
    (* both flow-control branches leave the fields the induction needs in the same shape *)
    match goal with |- context [if ?b then _ else _] => destruct b end; cbn.
    + match goal with |- context [rx_run c ?s1 tl mk] => specialize (IH s1) end.
      cbn in IH. rewrite <- app_assoc in IH.
      destruct (rx_run c _ tl mk) as [s' evs].
      apply IH; try lia; try reflexivity; try assumption.
      * rewrite zlen_app. lia.
      * replace (j + 1 - 1) with j by lia. reflexivity.
    + match goal with |- context [rx_run c ?s1 tl mk] => specialize (IH s1) end.
      cbn in IH. rewrite <- app_assoc in IH.
      destruct (rx_run c _ tl mk) as [s' evs].
      apply IH; try lia; try reflexivity; try assumption.
      * rewrite zlen_app. lia.
      * replace (j + 1 - 1) with j by lia. reflexivity.
Qed.


Definition interrupt_evs (s : layer) (e : errclass) : list event :=
  match rx_state s with RxWaitCF => [EErr e] | RxIdle => [] end.

(** From ANY receiver state (idle, or in the middle of an abandoned reception), a well-formed
    stream whose length the receiver admits is delivered intact, exactly once, at its last
    frame; the only error possible is the interruption report for the reception it replaces. *)
Theorem rx_stream p frames :
  wf_stream k p frames -> zlen p <= p_max_frame_size (c_p c) ->
  forall s,
    let '(s', evs) := rx_run c s frames mk in
    rx_queue s' = rx_queue s ++ [p] /\ rx_state s' = RxIdle /\
    (evs = interrupt_evs s InterruptedWithSF \/ evs = interrupt_evs s InterruptedWithFF) /\
    tx_state s' = tx_state s /\ tx_queue s' = tx_queue s /\ active s' = active s.
Proof.
  intros Hwf Hmax s.
  assert (Hk : 0 <= k <= 1) by (subst k; unfold c_rx_prefix_size, Address.rx_prefix_size; destruct (Address.requires_ext_byte _); lia).
  destruct Hwf as [pre pad Hpre Hn Hlen | pre pad Hpre Hn Hlen | T pre first rest cfs HT Hpre Hp Hne Hn Hlen Hcfs].
  - (* Single Frame, short form *)
    cbn [rx_run]. unfold process_rx. rewrite mk_data. change (c_rx_prefix_size c) with k.
    rewrite (decode_sf_short pre (zlen p) p pad k Hpre eq_refl Hn).
    cbn [d_pdu d_can_dl].
    destruct (Z.ltb_spec 8 (zlen (pre ++ zlen p :: p ++ pad))) as [Hx|_]; [lia|]. cbn [andb].
    unfold interrupt_evs. destruct (rx_state s) eqn:Est; cbn; repeat split; auto; try (left; reflexivity).
  - (* Single Frame, escape sequence *)
    cbn [rx_run]. unfold process_rx. rewrite mk_data. change (c_rx_prefix_size c) with k.
    rewrite (decode_sf_escape pre (zlen p) p pad k Hpre eq_refl Hn).
    cbn [d_pdu d_can_dl negb]. rewrite andb_false_r.
    unfold interrupt_evs. destruct (rx_state s) eqn:Est; cbn; repeat split; auto; try (left; reflexivity).
  - (* First Frame then Consecutive Frames *)
    pose proof (in_ll_sizes T HT) as HTs.
    cbn [rx_run].
    assert (Hrest : 0 < zlen rest). { destruct rest; [congruence|rewrite zlen_cons; pose proof (zlen_nonneg rest); lia]. }
    assert (Hpl : zlen p = zlen first + zlen rest) by (rewrite Hp, zlen_app; reflexivity).
    pose proof (zlen_nonneg first) as Hf0.
    assert (Hdec : exists esc, pdu_decode (pre ++ ff_hdr (zlen p) ++ first) k =
              Some {| d_pdu := PFF esc (zlen p) first; d_can_dl := T; d_rx_dl := T |}).
    { unfold ff_hdr in *. destruct (Z.leb_spec (zlen p) 4095) as [Hs|Hl].
      - exists false. cbn [app] in *. rewrite (decode_ff_short pre (zlen p) first k Hpre) by lia.
        rewrite Hlen. f_equal. f_equal; [|lia]. f_equal. apply ztake_all. lia.
      - exists true. cbn [app] in *. rewrite (decode_ff_long pre (zlen p) first k Hpre) by lia.
        rewrite Hlen. f_equal. f_equal; [|lia]. f_equal. apply ztake_all. lia. }
    destruct Hdec as [esc Hdec].
    assert (Hstart : forall s0, start_reception_after_ff c s0 (zlen p) first T =
       ((start_rx_cf_timer c (request_tx_fc FS_CTS
           (s0 <| rx_buffer := [] |> <| actual_rxdl := Some T |> <| rx_state := RxWaitCF |>
               <| rx_frame_length := zlen p |> <| rx_buffer := first |>)))
          <| last_seqnum := 0 |> <| rx_block_counter := 0 |>, [], true)).
    { intros s0. unfold start_reception_after_ff. rewrite (valid_rxdl_sizes T HT). cbn [negb].
      destruct (Z.ltb_spec (p_max_frame_size (c_p c)) (zlen p)); [lia|]. reflexivity. }
    set (ffd := pre ++ ff_hdr (zlen p) ++ first) in *.
    assert (Hrr : exists s1, process_rx c s (mk ffd) = mk_rr s1 (interrupt_evs s InterruptedWithFF) true false /\
              rx_state s1 = RxWaitCF /\ actual_rxdl s1 = Some T /\ rx_frame_length s1 = zlen p /\
              rx_buffer s1 = first /\ last_seqnum s1 = 0 /\ rx_queue s1 = rx_queue s /\
              tx_state s1 = tx_state s /\ tx_queue s1 = tx_queue s /\ active s1 = active s).
    { unfold process_rx. rewrite mk_data. change (c_rx_prefix_size c) with k. rewrite Hdec.
      cbn [d_pdu d_can_dl d_rx_dl negb andb]. cbv iota. unfold interrupt_evs.
      destruct (rx_state s) eqn:Est; rewrite Hstart; eexists; (split; [reflexivity|]); cbn; repeat split. }
    destruct Hrr as (s1 & Hrr & H1 & H2 & H3 & H4 & H5 & H6 & H7 & H8 & H9). rewrite Hrr.
    cbn [rr_s rr_evs mk_rr].
    pose proof (rx_cfs T HT 1 rest cfs Hcfs s1) as Hc.
    destruct (rx_run c s1 cfs mk) as [s' evs].
    destruct Hc as (He & Hq & Hs & Hb & Ht & Htx & Htq & Hac); try lia; try assumption.
    { rewrite H3, H4. exact Hpl. }
    subst evs. rewrite app_nil_r. rewrite Hq, H4, H6, Hp.
    repeat split; auto; try congruence.
Qed.

End Rx.

(** The Flow Control answer: a transmit pass with a pending request emits exactly the
    reference frame (status, configured blocksize and stmin, prefix, padding, DLC, id, flags),
    nothing else, and clears the request. *)
From IsoTp Require Import Spec.Segment Spec.AddrSpec.

Lemma land_byte x : 0 <= x <= 255 -> Z.land x 0xFF = x.
Proof. intros H. rewrite land_FF. apply Z.mod_small; lia. Qed.

Theorem fc_answer c s st :
  params_ok (c_p c) -> p_listen (c_p c) = false ->
  pending_fc s = true -> pending_fc_status s = Some st -> (st = FS_CTS \/ st = FS_OVFLW) ->
  let r := process_tx c s in
  tr_msg r = Some (spec_frame c (Address.tx_arb_id (c_txa c) Physical)
                     (Address.tx_prefix (c_txa c) ++ [0x30 + st; p_blocksize (c_p c); p_stmin (c_p c)])) /\
  tr_evs r = [] /\ pending_fc (tr_s r) = false /\ tr_crash r = false /\
  rx_state (tr_s r) = rx_state s /\ rx_queue (tr_s r) = rx_queue s /\ rx_buffer (tr_s r) = rx_buffer s.
Proof.
  intros Hok Hl Hp Hst Hcase r. subst r. unfold process_tx. rewrite Hp, Hl. cbn [negb].
  assert (Hst2 : forall x : unit, pending_fc_status (if opt_eqb (pending_fc_status (s <| pending_fc := false |>)) (Some FS_CTS)
                   then start_rx_cf_timer c (s <| pending_fc := false |>) else s <| pending_fc := false |>) = Some st).
  { intros _. destruct (opt_eqb _ _); exact Hst. }
  rewrite (Hst2 tt).
  unfold make_flow_control, craft_fc_data.
  pose proof Hok as (Hdl & Hml & Hpad & Hstm & Hbs & Hrest).
  rewrite (land_byte (p_blocksize (c_p c))) by lia. rewrite (land_byte (p_stmin (c_p c))) by lia.
  assert (Hb0 : Z.lor 0x30 (Z.land st 0xF) = 0x30 + st) by (destruct Hcase as [-> | ->]; reflexivity).
  rewrite Hb0.
  set (d := c_tx_prefix c ++ [48 + st; p_blocksize (c_p c); p_stmin (c_p c)]).
  assert (Hlen : 2 <= zlen d <= p_tx_dl (c_p c)).
  { subst d. rewrite zlen_app, !zlen_cons, zlen_nil.
    pose proof (in_ll_sizes _ Hdl). unfold c_tx_prefix, Address.tx_prefix. destruct (a_mode (c_txa c)); cbn; lia. }
  destruct (make_tx_msg_spec c (c_tx_id c Physical) d Hok Hlen) as (Hm & _); [lia|].
  rewrite Hm. cbn [tr_msg tr_evs tr_s tr_crash mk_tr].
  split; [reflexivity|]. split; [reflexivity|].
  destruct (opt_eqb _ _); cbn; repeat split.
Qed.
