(** Non-vacuity: concrete configurations and payloads meet the hypotheses of the main theorems,
    and the model computes on them what the theorems say (evaluated by the kernel, vm_compute). *)
From IsoTp Require Import Base.Prelude Model.Micro Spec.ConfigSpec Spec.Segment Spec.Stream
  Proofs.TxP Proofs.CoopP Proofs.FcPosP Proofs.RxP Proofs.OnceP Proofs.PacingP Proofs.JustifiedP Proofs.LimP Proofs.LazyRunP
  Model.Joint Spec.AddrSpec Proofs.AddressP Proofs.WireP Proofs.JointP Proofs.JointProcP Proofs.LimWinP Proofs.TokenP Proofs.FsmProps.

Definition ex_params (bs : Z) : params :=
  {| p_stmin := 0; p_blocksize := bs; p_override_stmin_ns := None; p_tbs_ns := 1000000000; p_tcr_ns := 1000000000;
     p_tx_padding := None; p_wftmax := 0; p_tx_dl := 8; p_tx_min_len := None; p_max_frame_size := 4095;
     p_can_fd := false; p_brs := false; p_default_tat := Physical; p_lim_enable := false;
     p_lim_bn := 20000000; p_lim_bd := 1; p_lim_window_ns := 200000000; p_listen := false |}.

Definition ex_addr (tx rx : Z) : addr :=
  {| a_mode := Extended11; a_txid := Some tx; a_rxid := Some rx; a_ta := Some 0x55; a_sa := Some 0x55; a_ae := None;
     a_phys := None; a_func := None; a_rx_only := false; a_tx_only := false |}.

Definition ex_ca : cfg := {| c_p := ex_params 8; c_txa := ex_addr 0x123 0x456; c_rxa := ex_addr 0x123 0x456 |}.
Definition ex_cb : cfg := {| c_p := ex_params 2; c_txa := ex_addr 0x456 0x123; c_rxa := ex_addr 0x456 0x123 |}.
Definition ex_payload : list Z := map Z.of_nat (seq 1 30).
Definition ex_mk (d : list Z) : frame := {| f_id := 0x123; f_ext := false; f_data := d; f_dlc := 0; f_fd := false; f_brs := false |}.
Definition ex_fc : fcpdu := {| fc_status := FS_CTS; fc_bs := 2; fc_stmin := 0 |}.

Example ex_params_ok : params_ok (c_p ex_ca) /\ params_ok (c_p ex_cb).
Proof.
  unfold params_ok, ex_ca, ex_cb, ex_params, LL_SIZES, MIN_LENS; cbn.
  repeat split; try lia; try (intros ? H; discriminate); try (left; reflexivity); try congruence; try discriminate.
Qed.

Example ex_hyps : zlen (Address.tx_prefix (c_txa ex_ca)) = c_rx_prefix_size ex_cb /\
  1 <= zlen ex_payload < 2 ^ 32 /\ is_single ex_ca (zlen ex_payload) = false /\ n_cf ex_ca (zlen ex_payload) = 5.
Proof. vm_compute. repeat split; congruence. Qed.

(** the lock-step run of C01_lockstep on this instance: 1 First Frame + 5 Consecutive Frames with a
    prefix byte; the sender waits before CF 1, 3 and 5; the receiver answers after the First Frame
    and after CF 2 and 4; payload delivered; request completed once *)
Example ex_lockstep :
  match start_request ex_ca ((init_layer ex_ca 0) <| active := Some (fresh_req 0 ex_payload [] Physical) |>)
                      (fresh_req 0 ex_payload [] Physical) 0xFFFFFFFF with
  | SRDone s1 [] (Some ff) =>
      let '(cfs, evs, s') := coopw ex_ca ex_fc 0xFFFFFFFF 10 s1 true [] [] in
      let '(s2, e2, fcs) := rx_run_fc ex_cb (init_layer ex_cb 0) (map f_data (ff :: map snd cfs)) ex_mk in
      (map fst cfs, evs, tx_state s', map (fun o => match o with Some _ => true | None => false end) fcs, e2, rx_queue s2)
      = ([true; false; true; false; true], [EDone 0 true], TxIdle, [true; false; true; false; true; false], [], [ex_payload])
      /\ ff :: map snd cfs = seg ex_ca Physical ex_payload
  | _ => False
  end.
Proof. vm_compute. split; reflexivity. Qed.

(** a run with completions (C12_exactly_once is not vacuous): two sends, passes, a reset *)
Example ex_once :
  let ms := [MSend (list_gen [1; 2; 3]) 3 None; MSend (list_gen ex_payload) 30 None; MTx; MTx; MReset] in
  dones (snd (mrun ex_ca (init_layer ex_ca 0) ms)) = [0; 1].
Proof. vm_compute. reflexivity. Qed.

(** a run in which a generator is partly consumed (C17_lazy_run is not vacuous): First Frame, Flow
    Control, one Consecutive Frame; 11 values pulled, 11 payload bytes on the wire, the queued
    message untouched *)
Example ex_lazy :
  let fc := {| f_id := 0x456; f_ext := false; f_data := [0x55; 0x30; 0; 0]; f_dlc := 4; f_fd := false; f_brs := false |} in
  let ms := [MSend (list_gen ex_payload) 30 None; MSend (list_gen [1; 2; 3]) 3 None; MTx; MRx fc; MTick 1000000; MTx] in
  let '(s, evs) := mrun ex_ca (init_layer ex_ca 0) ms in
  (tx_state s, LazyRunP.pulled s, LazyRunP.on_wire s (LazyRunP.wire ex_ca 0 evs), LazyRunP.held ex_ca s, map r_consumed (tx_queue s))
  = (TxTransmitCF, 11, 11, 0, [0]).
Proof. vm_compute. reflexivity. Qed.

(** the hypotheses of the two-peer theorems (C01_every_interleaving, C10_every_schedule) are met by this
    pair of configurations, and a full-duplex schedule of user-level calls - A sends 30 bytes then 3 bytes,
    B sends 10 bytes at the same time, the two process() loops alternate, B's user reads once - comes to
    rest without error with everything delivered, in order *)
Example ex_linked : linked ex_ca ex_cb /\ linked ex_cb ex_ca.
Proof.
  split; (split; [apply addr_validate_iff; vm_compute; reflexivity|]; split; [reflexivity|]; split; [reflexivity|];
          intros [|]; vm_compute; split; congruence).
Qed.

Definition ex_calls : list call :=
  [CSend SA (list_gen ex_payload) 30 None; CSend SB (list_gen [9;8;7;6;5;4;3;2;1;0]) 10 None; CSend SA (list_gen [1;2;3]) 3 None] ++
  concat (repeat [CProcess SA 50 true true; CTick SB 1000; CProcess SB 50 true true; CTick SA 1000] 12) ++ [CRecv SB].

Example ex_calls_ok : Forall (call_ok ex_ca ex_cb) ex_calls.
Proof. unfold ex_calls. repeat (constructor; [vm_compute; try exact I; repeat split; congruence|]). constructor. Qed.

Example ex_joint :
  let '(n, tr) := crun ex_ca ex_cb (init_net ex_ca ex_cb 0 0) ex_calls in
  jerr tr = false /\ at_rest n /\
  sent_of SA tr = [ex_payload; [1; 2; 3]] /\ recv_of SB tr = [ex_payload] /\ rx_queue (nB n) = [[1; 2; 3]] /\
  sent_of SB tr = [[9;8;7;6;5;4;3;2;1;0]] /\ recv_of SA tr = [] /\ rx_queue (nA n) = [[9;8;7;6;5;4;3;2;1;0]].
Proof. vm_compute. repeat split; reflexivity. Qed.

(** the hypotheses of C15_sliding_window are met and the log is not empty: a budget of two 8-byte frames
    per 200 ms window; three Single Frames queued; two leave at once, the third is held until the window
    has slid; log (instant, bits) of the emissions and the bits still counted at the end *)
Definition ex_lim_params : params :=
  {| p_stmin := 0; p_blocksize := 8; p_override_stmin_ns := None; p_tbs_ns := 1000000000; p_tcr_ns := 1000000000;
     p_tx_padding := None; p_wftmax := 0; p_tx_dl := 8; p_tx_min_len := None; p_max_frame_size := 4095;
     p_can_fd := false; p_brs := false; p_default_tat := Physical; p_lim_enable := true;
     p_lim_bn := 128; p_lim_bd := 1; p_lim_window_ns := 200000000; p_listen := false |}.
Definition ex_cl : cfg := {| c_p := ex_lim_params; c_txa := ex_addr 0x123 0x456; c_rxa := ex_addr 0x123 0x456 |}.
Definition ex_lim_run : list micro :=
  [MSend (list_gen [1;2;3;4;5;6]) 6 None; MSend (list_gen [1;2;3;4;5;6]) 6 None; MSend (list_gen [1;2;3;4;5;6]) 6 None;
   MLim; MTx; MTx; MTx; MTick 100000000; MLim; MTx; MTick 100000001; MLim; MTx].

Example ex_window : params_ok (c_p ex_cl) /\ Forall tick_ok ex_lim_run /\
  grunE ex_cl (init_layer ex_cl 0) [] ex_lim_run = [(0, 64); (0, 64); (200000001, 64)] /\
  log_sum 5000001 (grunE ex_cl (init_layer ex_cl 0) [] ex_lim_run) = 64.
Proof.
  split; [unfold params_ok, ex_cl, ex_lim_params, LL_SIZES, MIN_LENS; cbn;
          repeat split; try lia; try (intros ? H; discriminate); try (left; reflexivity); try congruence; try discriminate|].
  split; [unfold ex_lim_run; repeat (constructor; [cbn; try exact I; lia|]); constructor|].
  vm_compute. split; reflexivity.
Qed.

(** the extra hypotheses of C01_only_deadline_errors_schedule hold for this pair and the schedule above reports
    neither a deadline error nor any other *)
Example ex_no_deadline_error :
  stmin_valid (p_stmin (c_p ex_ca)) = true /\ stmin_valid (p_stmin (c_p ex_cb)) = true /\
  jto (snd (crun ex_ca ex_cb (init_net ex_ca ex_cb 0 0) ex_calls)) = false.
Proof. vm_compute. repeat split; reflexivity. Qed.

(** The premises of C04_wait_count_per_message, C04_cts_obeyed and C07_on_deadline are met by concrete states: a freshly built layer
    is reachable and neither waiting nor streaming; a sender that has put out its First Frame is reachable, waits for its Flow Control
    and has its deadline ahead; its N_Bs timer is a running timer with a positive timeout. *)
Example ex_wait_count_premises :
  reachable ex_ca (init_layer ex_ca 0) /\ tx_state (init_layer ex_ca 0) <> TxWaitFC /\ tx_state (init_layer ex_ca 0) <> TxTransmitCF.
Proof. split; [exists 0, []; reflexivity|]. split; discriminate. Qed.

Definition ex_waiting : layer :=
  fst (mrun ex_ca (init_layer ex_ca 0) [MSend (list_gen ex_payload) 30 None; MTx]).

Example ex_cts_premises :
  tx_state ex_waiting = TxWaitFC /\ timer_timed_out (now ex_waiting) (timer_rx_fc ex_waiting) = false /\
  (exists s, t_start (timer_rx_fc ex_waiting) = Some s) /\ 0 < t_timeout (timer_rx_fc ex_waiting).
Proof. vm_compute. repeat split; try reflexivity. eexists; reflexivity. Qed.
