(** Structural invariant of the layer state, preserved by every micro-step (hence by every
    sequence of process() calls, user calls and clock ticks).  It carries:
    - C04_nowedge : an active transmitter always has a running deadline / pacing timer or a
                    frame in standby;
    - C07_idle    : N_Cr runs only during a reception, N_Bs only while waiting for Flow Control;
    - C12         : the transmitter is idle iff it holds no active request;
    - C04         : Wait frames are counted per message: the count is zero whenever no First Frame is awaiting its Flow Control;
    - the facts that make the modelled crash sites unreachable (C05 / C16). *)
From IsoTp Require Import Base.Prelude Model.Micro Spec.ConfigSpec Proofs.FramesP.

Definition req_fresh (r : request) : Prop :=
  r_consumed r = 0 /\ r_depleted r = false /\ 0 <= r_size r.

Record WF (c : cfg) (s : layer) : Prop := {
  wf_active   : tx_state s = TxIdle <-> active s = None;
  wf_waitfc   : tx_state s = TxWaitFC <-> timer_running (timer_rx_fc s) = true;
  wf_cf       : tx_state s = TxTransmitCF ->
                  remote_bs s <> None /\ timer_running (timer_tx_stmin s) = true;
  wf_standby  : (tx_state s = TxSFStandby \/ tx_state s = TxFFStandby) <-> tx_standby s <> None;
  wf_pending  : pending_fc s = true ->
                  pending_fc_status s = Some FS_CTS \/ pending_fc_status s = Some FS_OVFLW;
  wf_pend_cts : pending_fc s = true -> pending_fc_status s = Some FS_CTS -> rx_state s = RxWaitCF;
  wf_rxtimer  : timer_running (timer_rx_cf s) = true -> rx_state s = RxWaitCF;
  wf_rxlive   : rx_state s = RxWaitCF ->
                  timer_running (timer_rx_cf s) = true \/
                  (pending_fc s = true /\ pending_fc_status s = Some FS_CTS);
  wf_seq      : 0 <= tx_seqnum s <= 15;
  wf_queue    : Forall req_fresh (tx_queue s);
  wf_req      : forall r, active s = Some r -> 0 <= r_consumed r <= r_size r;
  wf_tcr      : t_timeout (timer_rx_cf s) = p_tcr_ns (c_p c);
  wf_tbs      : t_timeout (timer_rx_fc s) = p_tbs_ns (c_p c);
  wf_wft      : tx_state s <> TxWaitFC -> tx_state s <> TxTransmitCF -> wft_counter s = 0
}.

Lemma WF_init c t0 : WF c (init_layer c t0).
Proof.
  constructor; simpl; try tauto; try discriminate; try lia; try constructor;
    try (split; intros; discriminate); try (intros; discriminate); intuition discriminate.
Qed.

Ltac wf_crush :=
  constructor; cbn in *;
  try tauto; try congruence; try lia; try (constructor; fail);
  try (intuition (try discriminate; try congruence; try lia); fail).

Lemma WF_stop_receiving c s : WF c s -> WF c (stop_receiving s).
Proof. intros []. wf_crush. Qed.

Lemma WF_check_timeouts c s : WF c s -> WF c (fst (check_timeouts_rx s)).
Proof.
  intros H. unfold check_timeouts_rx. destruct (timer_timed_out _ _); simpl.
  - apply WF_stop_receiving, H.
  - exact H.
Qed.

Lemma WF_tick c d s : WF c s -> WF c (tick d s).
Proof. intros []. wf_crush. Qed.

Lemma WF_recv c s : WF c s -> WF c (fst (recv s)).
Proof. intros H. unfold recv. destruct (rx_queue s); simpl; [exact H|]. destruct H. wf_crush. Qed.

Lemma WF_lim_update c p s : WF c s -> WF c (lim_update p s).
Proof.
  intros H. unfold lim_update, lim_reset.
  destruct (negb (p_lim_enable p)); [destruct H; wf_crush|].
  destruct (lim_pop _ _ _ _ _) as [[ts bs] tot]. destruct H; wf_crush.
Qed.

Lemma WF_lim_inform c p n s : WF c s -> WF c (lim_inform p n s).
Proof.
  intros H. unfold lim_inform.
  destruct (negb (p_lim_enable p)); [exact H|].
  destruct (lim_times s); [destruct H; wf_crush|].
  destruct (SLOT_NS <? _); destruct H; wf_crush.
Qed.

Lemma WF_stop_sending c b s : WF c s -> WF c (fst (stop_sending b s)).
Proof. intros []. unfold stop_sending. wf_crush. Qed.

Lemma WF_send c s g size t : WF c s -> WF c (fst (send c s g size t)).
Proof.
  intros H. unfold send.
  destruct (size <? 0) eqn:E0; [exact H|].
  destruct (0xFFFFFFFF <? size); [exact H|].
  match goal with |- context [if ?b then _ else _] => destruct b end; [exact H|].
  destruct H. constructor; cbn in *; try tauto; try congruence; try lia.
  apply Forall_app; split; [assumption|]. constructor; [|constructor].
  unfold req_fresh; cbn. repeat split; lia.
Qed.

Lemma WF_reset c s : WF c s -> WF c (fst (reset c s)).
Proof.
  intros H. unfold reset.
  match goal with |- context [stop_sending false ?x] => pose proof (WF_stop_sending c false x) as Hs end.
  destruct (stop_sending false _) as [s1 evs] eqn:E. simpl in *.
  assert (WF c s1) as H1. { apply Hs. destruct H. wf_crush. }
  apply WF_stop_receiving in H1. destruct H1. unfold lim_reset. wf_crush.
Qed.

Lemma WF_start_reception c s len data rxdl :
  WF c s -> WF c (fst (fst (start_reception_after_ff c s len data rxdl))).
Proof.
  intros H. unfold start_reception_after_ff.
  destruct (negb (valid_rxdl rxdl)).
  - simpl. apply WF_stop_receiving. destruct H; wf_crush.
  - destruct (p_max_frame_size (c_p c) <? len); simpl; destruct H; wf_crush.
Qed.

Lemma WF_process_rx c s f : WF c s -> WF c (rr_s (process_rx c s f)).
Proof.
  intros H. unfold process_rx.
  destruct (pdu_decode _ _) as [d|]; [|apply WF_stop_receiving, H].
  destruct (d_pdu d) as [esc len data|esc len data|sn data|fs bs st].
  - destruct ((8 <? d_can_dl d) && negb esc); [exact H|].
    destruct (rx_state s) eqn:Er; simpl.
    + destruct H; wf_crush.
    + apply WF_stop_receiving. destruct H; wf_crush.
  - cbn [negb andb]. cbv iota.
    destruct (rx_state s) eqn:Er.
    + match goal with |- context [start_reception_after_ff c ?s' len data ?x] =>
        pose proof (WF_start_reception c s' len data x) as Hs;
        destruct (start_reception_after_ff c s' len data x) as [[s2 evs] started] end.
      simpl in *. apply Hs. destruct H; wf_crush.
    + pose proof (WF_start_reception c s len data (d_rx_dl d) H) as Hs.
      destruct (start_reception_after_ff c s len data (d_rx_dl d)) as [[s2 evs] started].
      exact Hs.
  - cbv iota. destruct (rx_state s) eqn:Er; simpl.
    + destruct H; wf_crush.
    + destruct (sn =? _); [|apply WF_stop_receiving, H].
      destruct (negb _ && _); [exact H|].
      cbn. destruct (rx_frame_length s <=? _); cbn.
      * apply WF_stop_receiving. destruct H; wf_crush.
      * destruct ((0 <? p_blocksize (c_p c)) && _); cbn; destruct H; wf_crush.
  - simpl. destruct H; wf_crush.
Qed.

(** ** Transmission *)

Lemma gen_take_length n g : zlen (fst (gen_take n g)) <= Z.max 0 n.
Proof.
  unfold gen_take. destruct (g_fill g); simpl; unfold zlen.
  - rewrite app_length, repeat_length, firstn_length. lia.
  - rewrite firstn_length. lia.
Qed.

Lemma consume_facts size exact r res r' :
  consume size exact r = (res, r') ->
  r_id r' = r_id r /\ r_size r' = r_size r /\ r_tat r' = r_tat r /\
  r_consumed r <= r_consumed r' /\
  (forall data, res = Some data ->
     r_consumed r' = r_consumed r + zlen data /\ r_consumed r' <= r_size r' /\ zlen data <= Z.max 0 size /\
     (exact = true -> size <= zlen data)).
Proof.
  unfold consume. pose proof (gen_take_length size (r_gen r)) as Hl.
  destruct (gen_take size (r_gen r)) as [data g'] eqn:Eg. simpl in Hl. cbn.
  pose proof (zlen_nonneg data) as Hnn.
  destruct (r_size r <? r_consumed r + zlen data) eqn:E1.
  - intros H; injection H as <- <-. cbn.
    split; [reflexivity|]. split; [reflexivity|]. split; [reflexivity|]. split; [lia|].
    intros d Hd; discriminate.
  - apply Z.ltb_ge in E1.
    destruct (zlen data <? size) eqn:E2.
    + destruct exact; intros H; injection H as <- <-; cbn;
        (split; [reflexivity|]; split; [reflexivity|]; split; [reflexivity|]; split; [lia|]).
      * intros d Hd; discriminate.
      * intros d Hd; injection Hd as <-. split; [reflexivity|]. split; [lia|]. split; [lia|]. intros; discriminate.
    + apply Z.ltb_ge in E2. intros H; injection H as <- <-. cbn.
      split; [reflexivity|]. split; [reflexivity|]. split; [reflexivity|]. split; [lia|].
      intros d Hd; injection Hd as <-. split; [reflexivity|]. split; [lia|]. split; [lia|]. intros _; lia.
Qed.

Definition idle_like (s : layer) : Prop :=
  tx_state s = TxIdle /\ tx_standby s = None /\ timer_running (timer_rx_fc s) = false.

Lemma WF_idle_like c s : WF c s -> tx_state s = TxIdle -> idle_like s.
Proof.
  intros [] Hi. unfold idle_like. repeat split; try assumption.
  - destruct (tx_standby s) eqn:E; [|reflexivity]. exfalso.
    assert (Some f <> None) as Hn by discriminate. apply wf_standby0 in Hn.
    destruct Hn; congruence.
  - destruct (timer_running (timer_rx_fc s)) eqn:E; [|reflexivity].
    assert (tx_state s = TxWaitFC) by (apply wf_waitfc0; reflexivity). congruence.
Qed.

Ltac wf_more :=
  try (split; [intros [?|?]; discriminate|intros _; ((left; reflexivity) || (right; reflexivity))]);
  try (intros ? E0; injection E0 as <-; cbn; lia).

Lemma WF_start_request c s q r allowed s' evs out :
  WF c s -> tx_state s = TxIdle -> Forall req_fresh q -> req_fresh r ->
  start_request c (s <| tx_queue := q |> <| active := Some r |>) r allowed = SRDone s' evs out ->
  WF c s'.
Proof.
  intros H Hidle Hq Hr. pose proof (WF_idle_like c s H Hidle) as (_ & Hsb & Htm).
  destruct Hr as (Hr1 & Hr2 & Hr3).
  unfold start_request.
  set (s0 := s <| tx_queue := q |> <| active := Some r |>).
  destruct (r_size r <=? _).
  - destruct (consume (r_size r) true r) as [res r'] eqn:Ec.
    destruct (consume_facts _ _ _ _ _ Ec) as (_ & Hs & _ & Hc & Hd).
    destruct res as [payload|].
    + destruct (make_tx_msg _ _ _) as [m|]; [|discriminate].
      destruct (Hd payload eq_refl) as (Hd1 & Hd2 & _).
      destruct (allowed <? _); intros E; injection E as <- <- <-; subst s0; destruct H; wf_crush; wf_more.
    + intros E; injection E as <- <- <-. subst s0. destruct H. wf_crush; wf_more.
  - destruct (consume _ true r) as [res r'] eqn:Ec.
    destruct (consume_facts _ _ _ _ _ Ec) as (_ & Hs & _ & Hc & Hd).
    destruct res as [payload|].
    + destruct (make_tx_msg _ _ _) as [m|]; [|discriminate].
      destruct (Hd payload eq_refl) as (Hd1 & Hd2 & _).
      destruct (_ <=? allowed); intros E; injection E as <- <- <-; subst s0; destruct H; wf_crush; wf_more.
    + intros E; injection E as <- <- <-. subst s0. destruct H. wf_crush; wf_more.
Qed.

Lemma WF_idle_dequeue c q : forall s evs allowed s' evs' out,
  WF c s -> tx_state s = TxIdle -> Forall req_fresh q ->
  idle_dequeue c q s evs allowed = SRDone s' evs' out -> WF c s'.
Proof.
  induction q as [|r rest IH]; intros s evs allowed s' evs' out H Hi Hq; simpl.
  - intros E; injection E as <- <- <-. destruct H. wf_crush.
  - inversion Hq as [|? ? Hr Hrest]; subst.
    destruct (r_is_depleted r).
    + apply IH; [|exact Hi|exact Hrest].
      pose proof (proj1 (wf_active c s H) Hi) as Ha. destruct H. wf_crush.
    + destruct (start_request c _ r allowed) as [site|s2 evs2 out2] eqn:Es; [discriminate|].
      intros E; injection E as <- <- <-.
      eapply WF_start_request; eauto.
Qed.

Lemma land_F_range x : 0 <= Z.land x 0xF <= 15.
Proof. rewrite Bits.land_F. pose proof (Z.mod_pos_bound x 16). lia. Qed.

Lemma WF_handle_fc_active c s fc :
  WF c s -> tx_state s = TxWaitFC \/ tx_state s = TxTransmitCF -> WF c (fst (handle_fc_active c s fc)).
Proof.
  intros H Hst. unfold handle_fc_active.
  assert (tx_standby s = None) as Hsb.
  { destruct (tx_standby s) eqn:E; [|reflexivity]. exfalso.
    assert (Some f <> None) as Hn by discriminate. rewrite <- E in Hn.
    apply (wf_standby c s H) in Hn. destruct Hn, Hst; congruence. }
  destruct (fc_status fc =? FS_WAIT).
  - destruct (p_wftmax (c_p c) =? 0); [exact H|].
    destruct (timer_timed_out _ _); [exact H|].
    destruct (p_wftmax (c_p c) <=? wft_counter s).
    + pose proof (WF_stop_sending c false s H) as Hs. destruct (stop_sending false s). exact Hs.
    + simpl. destruct H. wf_crush; wf_more.
  - destruct ((fc_status fc =? FS_CTS) && _); [|exact H].
    destruct Hst as [Et|Et]; cbn; rewrite Et.
    + destruct H. wf_crush; wf_more.
    + pose proof (wf_cf c s H Et) as [Hrb Hst']. destruct H. wf_crush; wf_more.
Qed.

Lemma WF_handle_fc c s fc r0 s' evs :
  WF c s -> handle_fc c s fc = (r0, (s', evs)) -> WF c s'.
Proof.
  intros H. unfold handle_fc.
  destruct (fc_status fc =? FS_OVFLW).
  - pose proof (WF_stop_sending c false s H) as Hs.
    destruct (stop_sending false s) as [s1 e1]. intros E; injection E as _ <- _. exact Hs.
  - destruct (tx_state s) eqn:Et; try (intros E; injection E as _ <- _; exact H).
    + pose proof (WF_handle_fc_active c s fc H (or_introl Et)) as Hs.
      destruct (handle_fc_active c s fc). intros E; injection E as _ <- _. exact Hs.
    + pose proof (WF_handle_fc_active c s fc H (or_intror Et)) as Hs.
      destruct (handle_fc_active c s fc). intros E; injection E as _ <- _. exact Hs.
Qed.

Lemma WF_no_standby c s : WF c s -> tx_state s <> TxSFStandby -> tx_state s <> TxFFStandby -> tx_standby s = None.
Proof.
  intros H H1 H2. destruct (tx_standby s) eqn:E; [|reflexivity]. exfalso.
  assert (Some f <> None) as Hn by discriminate. rewrite <- E in Hn.
  apply (wf_standby c s H) in Hn. destruct Hn; congruence.
Qed.

Lemma WF_finish c p s out : WF c s ->
  WF c (match out with Some m => lim_inform p (zlen (f_data m)) s | None => s end).
Proof. intros H. destruct out; [apply WF_lim_inform|]; exact H. Qed.

Lemma WF_tx_finish c p s evs out imm : WF c s -> WF c (tr_s (tx_finish p s evs out imm)).
Proof. intros H. unfold tx_finish. destruct out; simpl; [apply WF_lim_inform|]; exact H. Qed.

Lemma WF_tx_after_fc c s :
  WF c s ->
  match tx_after_fc c s with
  | inl r => WF c (tr_s r)
  | inr (s3, _) => WF c s3 /\ (tx_state s3 <> TxIdle -> exists r, active s3 = Some r)
  end.
Proof.
  intros H. unfold tx_after_fc.
  assert (H1 : WF c (s <| last_fc := None |>)) by (destruct H; wf_crush).
  set (s1 := s <| last_fc := None |>) in *.
  assert (Hfc : forall r0 s' evs,
    match last_fc s with None => (false, (s1, [])) | Some f => handle_fc c s1 f end = (r0, (s', evs)) -> WF c s').
  { intros r0 s' evs. destruct (last_fc s) as [f|].
    - apply WF_handle_fc. exact H1.
    - intros E; injection E as _ <- _. exact H1. }
  destruct (match last_fc s with None => _ | Some f => _ end) as [r0 [s' evs1]] eqn:E.
  specialize (Hfc _ _ _ eq_refl).
  destruct r0; [exact Hfc|].
  assert (Hto : WF c (fst (if timer_timed_out (now s') (timer_rx_fc s')
                         then let '(s'0, e) := stop_sending false s' in (s'0, EErr FlowControlTimeout :: e)
                         else (s', [])))).
  { destruct (timer_timed_out _ _); [|exact Hfc].
    pose proof (WF_stop_sending c false s' Hfc) as Hss. destruct (stop_sending false s'); exact Hss. }
  destruct (if timer_timed_out (now s') (timer_rx_fc s') then _ else _) as [s2 evs2]. simpl in Hto.
  assert (Hact : tx_state s2 <> TxIdle -> exists r, active s2 = Some r).
  { intros Hn. destruct (active s2) as [r|] eqn:Ea; [eauto|].
    exfalso. apply Hn. apply (wf_active c s2 Hto). exact Ea. }
  destruct (tx_state s2) eqn:Et.
  - split; [exact Hto|]. intros; congruence.
  - destruct Hact as [r Hr]; [discriminate|]. rewrite Hr.
    destruct (r_is_depleted r && _).
    + pose proof (WF_stop_sending c true s2 Hto) as Hss. destruct (stop_sending true s2) as [s3 e3] eqn:Es.
      split; [exact Hss|]. unfold stop_sending in Es. injection Es as <- _. cbn. intros; congruence.
    + split; [exact Hto|]. intros _; eauto.
  - destruct Hact as [r Hr]; [discriminate|]. rewrite Hr.
    destruct (r_is_depleted r && _).
    + pose proof (WF_stop_sending c true s2 Hto) as Hss. destruct (stop_sending true s2) as [s3 e3] eqn:Es.
      split; [exact Hss|]. unfold stop_sending in Es. injection Es as <- _. cbn. intros; congruence.
    + split; [exact Hto|]. intros _; eauto.
  - destruct Hact as [r Hr]; [discriminate|]. rewrite Hr.
    destruct (r_is_depleted r && _).
    + pose proof (WF_stop_sending c true s2 Hto) as Hss. destruct (stop_sending true s2) as [s3 e3] eqn:Es.
      split; [exact Hss|]. unfold stop_sending in Es. injection Es as <- _. cbn. intros; congruence.
    + split; [exact Hto|]. intros _; eauto.
  - destruct Hact as [r Hr]; [discriminate|]. rewrite Hr.
    destruct (r_is_depleted r && _).
    + pose proof (WF_stop_sending c true s2 Hto) as Hss. destruct (stop_sending true s2) as [s3 e3] eqn:Es.
      split; [exact Hss|]. unfold stop_sending in Es. injection Es as <- _. cbn. intros; congruence.
    + split; [exact Hto|]. intros _; eauto.
Qed.

Lemma WF_tx_cf c allowed s evs : WF c s -> tx_state s = TxTransmitCF -> WF c (tr_s (tx_cf c allowed s evs)).
Proof.
  intros H Et. unfold tx_cf.
  destruct (remote_bs s) as [rbs|]; [|exact H].
  destruct (active s) as [r|] eqn:Ea; [|exact H].
  destruct (timer_timed_out _ _); [|apply WF_tx_finish, H].
  destruct (_ <=? allowed); [|apply WF_tx_finish, H].
  destruct (consume _ false r) as [res r'] eqn:Ec.
  destruct (consume_facts _ _ _ _ _ Ec) as (_ & Hs & _ & Hc & Hd).
  destruct res as [payload|]; [|exact H].
  destruct (Hd payload eq_refl) as (Hd1 & Hd2 & _).
  pose proof (wf_req c s H r Ea) as Hr0.
  assert (H4 : WF c (s <| active := Some r' |>)).
  { destruct H. wf_crush; wf_more. }
  set (s4 := s <| active := Some r' |>) in *.
  destruct (0 <? zlen payload).
  - destruct (make_tx_msg _ _ _) as [m|]; [|exact H4].
    pose proof (land_F_range (tx_seqnum s4 + 1)) as Hsq.
    assert (H5 : WF c (s4 <| tx_seqnum := Z.land (tx_seqnum s4 + 1) 0xF |>
                        <| timer_tx_stmin ::= timer_start (now s4) |>
                        <| tx_block_counter := tx_block_counter s4 + 1 |>)).
    { assert (tx_state s4 = TxTransmitCF) as Et4 by exact Et.
      pose proof (wf_cf c s4 H4 Et4) as [Hrb _]. destruct H4. wf_crush; wf_more. }
    set (s5 := s4 <| tx_seqnum := _ |> <| timer_tx_stmin ::= _ |> <| tx_block_counter := _ |>) in *.
    destruct (r_is_depleted r').
    + destruct (0 <? r_remaining r').
      * pose proof (WF_stop_sending c false s5 H5) as Hss. destruct (stop_sending false s5). apply WF_tx_finish. exact Hss.
      * pose proof (WF_stop_sending c true s5 H5) as Hss. destruct (stop_sending true s5). apply WF_tx_finish. exact Hss.
    + destruct (negb (rbs =? 0) && _); apply WF_tx_finish; [|exact H5].
      assert (tx_standby s5 = None) as Hsb.
      { apply (WF_no_standby c); [exact H5| |]; subst s5 s4; cbn; rewrite Et; discriminate. }
      destruct H5. wf_crush; wf_more.
  - destruct (r_is_depleted r').
    + destruct (0 <? r_remaining r').
      * pose proof (WF_stop_sending c false s4 H4) as Hss. destruct (stop_sending false s4). apply WF_tx_finish. exact Hss.
      * pose proof (WF_stop_sending c true s4 H4) as Hss. destruct (stop_sending true s4). apply WF_tx_finish. exact Hss.
    + destruct (negb (rbs =? 0) && _); apply WF_tx_finish; [|exact H4].
      assert (tx_standby s4 = None) as Hsb.
      { apply (WF_no_standby c); [exact H4| |]; subst s4; cbn; rewrite Et; discriminate. }
      destruct H4. wf_crush; wf_more.
Qed.

Lemma WF_tx_fsm c allowed s evs : WF c s -> WF c (tr_s (tx_fsm c allowed s evs)).
Proof.
  intros H. unfold tx_fsm.
  destruct (tx_state s) eqn:Et.
  - destruct (idle_dequeue c (tx_queue s) s [] allowed) as [site|s4 evs4 out] eqn:Ei; [exact H|].
    apply WF_tx_finish. exact (WF_idle_dequeue c (tx_queue s) s [] allowed s4 evs4 out H Et (wf_queue c s H) Ei).
  - apply WF_tx_finish, H.
  - apply WF_tx_cf; assumption.
  - destruct (tx_standby s) as [m|] eqn:Esb; [|apply WF_tx_finish, H].
    destruct (_ <=? allowed); [|apply WF_tx_finish, H].
    assert (H4 : forall b, WF c (fst (stop_sending b (s <| tx_standby := None |>)))).
    { intros b. destruct H. unfold stop_sending. wf_crush; wf_more. }
    specialize (H4 true). destruct (stop_sending true _). apply WF_tx_finish. exact H4.
  - destruct (tx_standby s) as [m|] eqn:Esb; [|apply WF_tx_finish, H].
    destruct (_ <=? allowed); [|apply WF_tx_finish, H].
    apply WF_tx_finish. destruct H. wf_crush; wf_more.
Qed.

Lemma WF_tx_pending c s : WF c s -> pending_fc s = true ->
  WF c (if opt_eqb (pending_fc_status (s <| pending_fc := false |>)) (Some FS_CTS)
      then start_rx_cf_timer c (s <| pending_fc := false |>) else s <| pending_fc := false |>).
Proof.
  intros H0 Hp. pose proof (wf_pend_cts c s H0 Hp) as Hc. pose proof (wf_pending c s H0 Hp) as Hq.
  destruct (opt_eqb _ _) eqn:Eo; cbn in Eo.
  - assert (pending_fc_status s = Some FS_CTS) as Hcts.
    { destruct (pending_fc_status s) as [x|]; [|discriminate]. apply Z.eqb_eq in Eo. congruence. }
    specialize (Hc Hcts). destruct H0. wf_crush; wf_more.
  - assert (pending_fc_status s <> Some FS_CTS) as Hn.
    { intros E. rewrite E in Eo. cbn in Eo. discriminate. }
    destruct H0. wf_crush; wf_more.
Qed.

Theorem WF_process_tx c s : WF c s -> WF c (tr_s (process_tx c s)).
Proof.
  intros H0. unfold process_tx.
  assert (Hmain : forall s2 a, WF c s2 -> WF c (tr_s (process_tx_main c a s2))).
  { intros s2 a H2. unfold process_tx_main.
    pose proof (WF_tx_after_fc c s2 H2) as Hf.
    destruct (tx_after_fc c s2) as [r|[s3 evs]]; [exact Hf|].
    apply WF_tx_fsm. tauto. }
  (* pending flow control *)
  assert (Hpend : forall s2,
    s2 = (if opt_eqb (pending_fc_status (s <| pending_fc := false |>)) (Some FS_CTS)
          then start_rx_cf_timer c (s <| pending_fc := false |>) else s <| pending_fc := false |>) ->
    pending_fc s = true -> WF c s2).
  { intros s2 -> Hp. apply WF_tx_pending; assumption. }
  destruct (pending_fc s) eqn:Ep.
  - specialize (Hpend _ eq_refl eq_refl).
    set (s2 := if opt_eqb _ _ then _ else _) in *.
    destruct (negb (p_listen (c_p c))).
    + destruct (pending_fc_status s2); [|exact Hpend].
      destruct (make_flow_control c z); exact Hpend.
    + apply Hmain. exact Hpend.
  - apply Hmain. exact H0.
Qed.

(** Every micro-step preserves the invariant; so does every run. *)
Theorem WF_mstep c s m : WF c s -> WF c (fst (mstep c s m)).
Proof.
  intros H. destruct m; simpl.
  - apply WF_check_timeouts, H.
  - apply WF_process_rx, H.
  - apply (WF_lim_update c (c_p c)), H.
  - apply WF_process_tx, H.
  - apply WF_send, H.
  - apply WF_recv, H.
  - apply (WF_stop_sending c false), H.
  - apply WF_stop_receiving, H.
  - apply (WF_reset c), H.
  - apply WF_tick, H.
Qed.

Theorem WF_mrun c ms : forall s, WF c s -> WF c (fst (mrun c s ms)).
Proof.
  induction ms as [|m rest IH]; intros s H; simpl; [exact H|].
  pose proof (WF_mstep c s m H) as H1. destruct (mstep c s m) as [s1 e1]. simpl in H1.
  specialize (IH s1 H1). destruct (mrun c s1 rest). exact IH.
Qed.
