(** What the frames of one layer look like to its peer.  A frame of a well-formed stream decodes, under
    the receiver's prefix size, to a Single / First / Consecutive Frame; a Flow Control frame built by a
    layer never does; every frame a layer emits carries its transmit identifier, its 11/29-bit flag and
    its prefix byte, and is therefore accepted by a peer configured with the mirrored address. *)
From IsoTp Require Import Base.Prelude Base.Bits Model.Micro Spec.ConfigSpec Spec.FrameSpec Spec.Segment Spec.Stream
  Spec.AddrSpec Proofs.FramesP Proofs.Codec Proofs.TxP Proofs.SegP Proofs.AddressP Proofs.LazyRunP.

(** the frame data [d] is a Single, First or Consecutive Frame for a receiver stripping [k] bytes *)
Definition is_data (k : Z) (d : list Z) : bool :=
  match pdu_decode d k with
  | Some x => match d_pdu x with PFC _ _ _ => false | _ => true end
  | None => false
  end.

Lemma wf_cfs_data k T j rest fs : wf_cfs k T j rest fs -> Forall (fun d => is_data k d = true) fs.
Proof.
  induction 1 as [j rest pre pad Hpre Hne Hlen Hmax | j chunk rest pre tl Hpre Hchunk Hne Hcfs IH].
  - constructor; [|constructor]. unfold is_data.
    rewrite (decode_cf pre (j mod 16) (rest ++ pad) k Hpre) by (apply Z.mod_pos_bound; lia). reflexivity.
  - constructor; [|exact IH]. unfold is_data.
    rewrite (decode_cf pre (j mod 16) chunk k Hpre) by (apply Z.mod_pos_bound; lia). reflexivity.
Qed.

Lemma wf_stream_data k p fs : wf_stream k p fs -> Forall (fun d => is_data k d = true) fs.
Proof.
  intros Hwf.
  destruct Hwf as [pre pad Hpre Hn Hlen | pre pad Hpre Hn Hlen | T pre first rest cfs HT Hpre Hp Hne Hn Hlen Hcfs].
  - constructor; [|constructor]. unfold is_data.
    rewrite (decode_sf_short pre (zlen p) p pad k Hpre eq_refl Hn). reflexivity.
  - constructor; [|constructor]. unfold is_data.
    rewrite (decode_sf_escape pre (zlen p) p pad k Hpre eq_refl Hn). reflexivity.
  - constructor; [|exact (wf_cfs_data _ _ _ _ _ Hcfs)]. unfold is_data, ff_hdr.
    destruct (Z.leb_spec (zlen p) 4095) as [Hs|Hl]; cbn [app].
    + rewrite (decode_ff_short pre (zlen p) first k Hpre) by lia. reflexivity.
    + rewrite (decode_ff_long pre (zlen p) first k Hpre) by lia. reflexivity.
Qed.

Lemma wf_stream_nonempty k p fs : wf_stream k p fs -> fs <> [].
Proof. intros H; destruct H; discriminate. Qed.

Section Wire.
Variable c : cfg.
Hypothesis Hok : params_ok (c_p c).

Let pfx := c_tx_prefix c.
Let plen := zlen pfx.
Let tx_dl := p_tx_dl (c_p c).

(** a Flow Control frame built by this layer is never a data frame for the peer *)
Lemma fc_not_data st m : make_flow_control c st = Some m -> is_data plen (f_data m) = false.
Proof.
  unfold make_flow_control. intros Hm. pose proof (tx_dl_pos c Hok) as Hdl. pose proof (plen_bounds c : 0 <= plen <= 1) as Hp.
  fold pfx in Hm.
  assert (Hlen : 2 <= zlen (pfx ++ craft_fc_data st (p_blocksize (c_p c)) (p_stmin (c_p c))) <= tx_dl).
  { rewrite zlen_app. unfold craft_fc_data. rewrite !zlen_cons, zlen_nil. fold plen. subst tx_dl. lia. }
  destruct (made_data c Hok _ _ _ Hlen Hm) as (E & _).
  unfold is_data. rewrite E. unfold craft_fc_data. rewrite <- app_assoc. cbn [app].
  unfold pdu_decode.
  destruct (_ <? plen); [reflexivity|].
  rewrite (zdrop_app_exact pfx _ plen) by reflexivity.
  assert (Hx : 0 <= Z.land st 0xF < 16).
  { change 0xF with (Z.ones 4). rewrite Z.land_ones by lia. apply Z.mod_pos_bound. lia. }
  assert (Hb : Z.lor 0x30 (Z.land st 0xF) = 3 * 16 + Z.land st 0xF).
  { change 0x30 with (3 * 2 ^ 4). apply lor_small; [lia|exact Hx]. }
  destruct (hnb_of _ 3 (Z.land st 0xF) Hb) as [H1 H2]; [lia|exact Hx|].
  rewrite H1. cbn [Z.ltb Z.eqb Z.compare Pos.compare Pos.compare_cont].
  destruct (_ <? 3); [reflexivity|]. destruct (3 <=? _); [reflexivity|]. destruct (stmin_valid _); reflexivity.
Qed.

(** every frame of a reference segmentation is a data frame for the peer *)
Lemma seg_data t payload : 1 <= zlen payload < 2 ^ 32 ->
  Forall (fun f => is_data plen (f_data f) = true) (seg c t payload).
Proof.
  intros Hn. pose proof (wf_stream_data _ _ _ (seg_wf c Hok t payload Hn)) as H.
  apply Forall_map in H. exact H.
Qed.

(** *** identifier, flag and prefix of emitted frames *)
Definition from_me (f : frame) : Prop :=
  (f_id f = c_tx_id c Physical \/ f_id f = c_tx_id c Functional) /\ f_ext f = c_tx_ext c /\
  exists rest, f_data f = pfx ++ rest.

Lemma spec_frame_from_me t d : from_me (spec_frame c (c_tx_id c t) (pfx ++ d)).
Proof.
  unfold from_me, spec_frame. cbn [f_id f_ext f_data]. split; [destruct t; auto|]. split.
  - unfold c_tx_ext. symmetry. apply mode29_is29.
  - rewrite <- app_assoc. eexists; reflexivity.
Qed.

Lemma seg_from_me t payload : Forall from_me (seg c t payload).
Proof.
  unfold seg. cbv zeta. change (tx_prefix (c_txa c)) with pfx.
  destruct (sf_short_ok c (zlen payload)); [constructor; [apply spec_frame_from_me|constructor]|].
  destruct (sf_escape_ok c (zlen payload)); [constructor; [apply spec_frame_from_me|constructor]|].
  constructor; [apply (spec_frame_from_me Physical)|].
  apply Forall_map. apply Forall_forall. intros j _. unfold cf_data. apply (spec_frame_from_me Physical).
Qed.

Lemma fc_from_me st m : make_flow_control c st = Some m -> from_me m.
Proof.
  unfold make_flow_control. intros Hm. pose proof (tx_dl_pos c Hok) as Hdl. pose proof (plen_bounds c : 0 <= plen <= 1) as Hp.
  rewrite (spec_frame_of_make c Hok) in Hm.
  - injection Hm as <-. apply (spec_frame_from_me Physical).
  - rewrite zlen_app. unfold craft_fc_data. rewrite !zlen_cons, zlen_nil. fold pfx plen. lia.
Qed.

End Wire.

(** *** two configurations whose addresses mirror each other, seen from the sender [cs] *)
Definition linked (cs cr : cfg) : Prop :=
  address_ok (c_txa cs) /\ a_rx_only (c_txa cs) = false /\ c_rxa cr = mirror (c_txa cs) /\
  (forall t, 0 <= c_tx_id cs t < 2 ^ 29).

Lemma linked_prefix cs cr : linked cs cr -> c_rx_prefix_size cr = zlen (c_tx_prefix cs).
Proof.
  intros (Hok & Hrx & Hm & _). unfold c_rx_prefix_size, c_tx_prefix. rewrite Hm.
  pose proof (tx_prefix_spec (c_txa cs) Hok Hrx) as Hp. unfold emit_prefix in Hp.
  unfold Address.rx_prefix_size, Address.requires_ext_byte, mirror. cbn [a_mode].
  destruct (a_mode (c_txa cs)); try (rewrite Hp; reflexivity);
    destruct Hp as (x & _ & ->); reflexivity.
Qed.

Lemma linked_for_me cs cr f : linked cs cr -> from_me cs f -> c_is_for_me cr f = true.
Proof.
  intros (Hok & Hrx & Hm & Hid) (Hf & He & rest & Hd); unfold c_is_for_me; rewrite Hm.
  assert (Hr : 0 <= f_id f < 2 ^ 29) by (destruct Hf as [Hf|Hf]; rewrite Hf; apply Hid).
  apply is_for_me_iff; [exact Hr|].
  assert (He' : f_ext f = mode29 (a_mode (c_txa cs))) by (rewrite He; unfold c_tx_ext; symmetry; apply mode29_is29).
  destruct Hf as [Hf|Hf].
  - apply (mirror_accepts (c_txa cs) Physical (f_id f) (c_tx_prefix cs) rest f Hok Hrx);
      [rewrite Hf; apply tx_arb_id_spec; assumption|apply tx_prefix_spec; assumption|reflexivity|exact He'|exact Hd].
  - apply (mirror_accepts (c_txa cs) Functional (f_id f) (c_tx_prefix cs) rest f Hok Hrx);
      [rewrite Hf; apply tx_arb_id_spec; assumption|apply tx_prefix_spec; assumption|reflexivity|exact He'|exact Hd].
Qed.
