(** C06: each reception anomaly is reported with its documented error class and the
    interrupted / aborted message is never delivered. One lemma per branch of _process_rx. *)
From IsoTp Require Import Base.Prelude Model.Layer.

Section Anomaly.
Variable c : cfg.

(** undecodable frame: InvalidCanDataError, reception abandoned, nothing delivered *)
Lemma anomaly_undecodable s f :
  pdu_decode (f_data f) (c_rx_prefix_size c) = None ->
  process_rx c s f = mk_rr (stop_receiving s) [EErr InvalidCanData] false false.
Proof. intros H. unfold process_rx. rewrite H. reflexivity. Qed.

(** missing escape sequence: reported, frame ignored, state untouched *)
Lemma anomaly_missing_escape s f d len data :
  pdu_decode (f_data f) (c_rx_prefix_size c) = Some d -> d_pdu d = PSF false len data -> 8 < d_can_dl d ->
  process_rx c s f = mk_rr s [EErr MissingEscapeSequence] false false.
Proof.
  intros H Hp Hl. unfold process_rx. rewrite H, Hp.
  destruct (Z.ltb_spec 8 (d_can_dl d)); [reflexivity|lia].
Qed.

(** Consecutive Frame while idle *)
Lemma anomaly_cf_idle s f d sn data :
  pdu_decode (f_data f) (c_rx_prefix_size c) = Some d -> d_pdu d = PCF sn data -> rx_state s = RxIdle ->
  rr_evs (process_rx c s f) = [EErr UnexpectedConsecutiveFrame] /\
  rx_queue (rr_s (process_rx c s f)) = rx_queue s /\ rx_state (rr_s (process_rx c s f)) = RxIdle.
Proof. intros H Hp Hs. unfold process_rx. rewrite H, Hp, Hs. cbn. auto. Qed.

(** wrong sequence number: WrongSequenceNumberError, reception abandoned, nothing delivered *)
Lemma anomaly_wrong_seq s f d sn data :
  pdu_decode (f_data f) (c_rx_prefix_size c) = Some d -> d_pdu d = PCF sn data -> rx_state s = RxWaitCF ->
  sn <> Z.land (last_seqnum s + 1) 0xF ->
  process_rx c s f = mk_rr (stop_receiving s) [EErr WrongSequenceNumber] false false.
Proof.
  intros H Hp Hs Hn. unfold process_rx. rewrite H, Hp, Hs. cbv iota.
  destruct (Z.eqb_spec sn (Z.land (last_seqnum s + 1) 15)); [contradiction|]. reflexivity.
Qed.

(** a Single Frame during a reception: the new message wins, the old one is dropped *)
Lemma anomaly_sf_interrupt s f d esc len data :
  pdu_decode (f_data f) (c_rx_prefix_size c) = Some d -> d_pdu d = PSF esc len data ->
  ((8 <? d_can_dl d) && negb esc) = false -> rx_state s = RxWaitCF ->
  rr_evs (process_rx c s f) = [EErr InterruptedWithSF] /\
  rx_queue (rr_s (process_rx c s f)) = rx_queue s ++ [data] /\
  rx_state (rr_s (process_rx c s f)) = RxIdle /\ rx_buffer (rr_s (process_rx c s f)) = [].
Proof. intros H Hp He Hs. unfold process_rx. rewrite H, Hp, He, Hs. cbn. auto. Qed.

(** First Frame announcing more than max_frame_size: FrameTooLongError, an Overflow Flow
    Control is requested, the receiver is idle, nothing is delivered (and when a reception
    was in progress the interruption is reported too) *)
Lemma anomaly_ff_too_long s f d esc len data :
  pdu_decode (f_data f) (c_rx_prefix_size c) = Some d -> d_pdu d = PFF esc len data ->
  valid_rxdl (d_rx_dl d) = true -> p_max_frame_size (c_p c) < len ->
  let r := process_rx c s f in
  In (EErr FrameTooLong) (rr_evs r) /\ rx_state (rr_s r) = RxIdle /\ rx_queue (rr_s r) = rx_queue s /\
  pending_fc (rr_s r) = true /\ pending_fc_status (rr_s r) = Some FS_OVFLW /\ rx_buffer (rr_s r) = [] /\
  timer_running (timer_rx_cf (rr_s r)) = false.
Proof.
  intros H Hp Hv Hl r. subst r. unfold process_rx. rewrite H, Hp. cbn [negb andb]. cbv iota.
  unfold start_reception_after_ff. rewrite Hv. cbn [negb].
  destruct (Z.ltb_spec (p_max_frame_size (c_p c)) len); [|lia].
  destruct (rx_state s); cbn; repeat split; auto.
Qed.

(** First Frame with an RX_DL that is not a legal CAN FD size *)
Lemma anomaly_bad_ff_rxdl s f d esc len data :
  pdu_decode (f_data f) (c_rx_prefix_size c) = Some d -> d_pdu d = PFF esc len data ->
  valid_rxdl (d_rx_dl d) = false ->
  let r := process_rx c s f in
  In (EErr InvalidCanFdFirstFrameRXDL) (rr_evs r) /\ rx_state (rr_s r) = RxIdle /\
  rx_queue (rr_s r) = rx_queue s /\ rx_buffer (rr_s r) = [] /\ pending_fc (rr_s r) = false.
Proof.
  intros H Hp Hv r. subst r. unfold process_rx. rewrite H, Hp. cbn [negb andb]. cbv iota.
  unfold start_reception_after_ff. rewrite Hv. cbn [negb].
  destruct (rx_state s); cbn; repeat split; auto.
Qed.

(** a Consecutive Frame whose RX_DL changed and which cannot be the last one *)
Lemma anomaly_changing_rxdl s f d sn data :
  pdu_decode (f_data f) (c_rx_prefix_size c) = Some d -> d_pdu d = PCF sn data -> rx_state s = RxWaitCF ->
  sn = Z.land (last_seqnum s + 1) 0xF ->
  Some (d_rx_dl d) <> actual_rxdl s -> d_rx_dl d < rx_frame_length s - zlen (rx_buffer s) ->
  process_rx c s f = mk_rr s [EErr ChangingInvalidRXDL] false false.
Proof.
  intros H Hp Hs Hn Hne Hlt. unfold process_rx. rewrite H, Hp, Hs. cbv iota.
  rewrite Hn, Z.eqb_refl.
  assert (opt_eqb (Some (d_rx_dl d)) (actual_rxdl s) = false) as ->.
  { destruct (actual_rxdl s) as [x|]; [|reflexivity]. cbn. apply Z.eqb_neq. congruence. }
  destruct (Z.ltb_spec (d_rx_dl d) (rx_frame_length s - zlen (rx_buffer s))); [reflexivity|lia].
Qed.

End Anomaly.
