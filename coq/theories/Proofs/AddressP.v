(** Model of address.py satisfies the addressing specification. *)
From IsoTp Require Import Base.Prelude Base.Bits Model.Address Spec.AddrSpec.

Lemma mode29_is29 m : mode29 m = is29 m.
Proof. destruct m; reflexivity. Qed.

Lemma opt_eqb_true x o : opt_eqb (Some x) o = true <-> Some x = o.
Proof.
  destruct o as [y|]; simpl; split; intros H; try discriminate.
  - apply Z.eqb_eq in H; subst; reflexivity.
  - injection H as ->; apply Z.eqb_refl.
Qed.

Lemma first_byte_is_true f o : first_byte_is (f_data f) o = true <-> first_byte f o.
Proof.
  unfold first_byte_is, first_byte. destruct (f_data f) as [|b rest].
  - split; [discriminate|]. intros [b [r [H _]]]; discriminate.
  - rewrite opt_eqb_true. split.
    + intros H; exists b, rest; auto.
    + intros [b' [r' [H1 H2]]]. injection H1 as -> ->. exact H2.
Qed.

Lemma spec_base_eq d o : Z.land d 0x1FFF0000 = d ->
  spec_base d o = match o with None => d | Some p => Z.land p 0x1FFF0000 end.
Proof. intros; destruct o; simpl; [rewrite land_1FFF0000|]; reflexivity. Qed.

Lemma phys_base_spec a : phys_base a = spec_phys a.
Proof.
  unfold phys_base, spec_phys. destruct (a_mode a); try reflexivity;
  rewrite spec_base_eq by reflexivity; reflexivity.
Qed.

Lemma func_base_spec a : func_base a = spec_func a.
Proof.
  unfold func_base, spec_func. destruct (a_mode a); try reflexivity;
  rewrite spec_base_eq by reflexivity; reflexivity.
Qed.

Lemma top_bits id : 0 <= id < 2 ^ 29 -> Z.land id 0x1FFF0000 = (id / 65536) * 65536.
Proof.
  intros H. rewrite land_1FFF0000. f_equal. apply Z.mod_small.
  split; [apply Z.div_pos; lia|]. apply Z.div_lt_upper_bound; lia.
Qed.

Lemma fixed_id_match_iff a id : 0 <= id < 2 ^ 29 ->
  fixed_id_match a id = true <-> id_fields_ok a id.
Proof.
  intros Hid. unfold fixed_id_match, id_fields_ok.
  rewrite !andb_true_iff, orb_true_iff, !Z.eqb_eq, !opt_eqb_true.
  rewrite top_bits by exact Hid. rewrite land_FF00_shiftr8, land_FF.
  rewrite phys_base_spec, func_base_spec. tauto.
Qed.

(** C09: the reception predicate is exactly the documented condition. *)
Theorem is_for_me_iff a f : 0 <= f_id f < 2 ^ 29 ->
  is_for_me a f = true <-> accepts a f.
Proof.
  intros Hid. unfold is_for_me, accepts. change (mode29 (a_mode a)) with (is29 (a_mode a)).
  destruct (Bool.eqb (is29 (a_mode a)) (f_ext f)) eqn:E.
  - apply Bool.eqb_prop in E.
    destruct (a_mode a); rewrite ?andb_true_iff, ?opt_eqb_true, ?first_byte_is_true,
      ?fixed_id_match_iff by exact Hid; intuition congruence.
  - split; [discriminate|]. intros [H _]. rewrite H, Bool.eqb_reflx in E. discriminate.
Qed.

(** Validation *)
Lemma is_none_true o : is_none o = true <-> o = None.
Proof. destruct o; simpl; split; congruence. Qed.
Lemma is_none_false o : is_none o = false <-> given o.
Proof. unfold given; destruct o; simpl; split; congruence. Qed.

Lemma byte_ok_iff o : byte_ok o = true <-> byte_range o.
Proof.
  unfold byte_ok, byte_range. destruct o as [x|].
  - rewrite andb_true_iff, !Z.leb_le. split.
    + intros H y E; injection E as <-; lia.
    + intros H; specialize (H x eq_refl); lia.
  - split; [intros _ y E; discriminate|reflexivity].
Qed.

Lemma id_ok_iff m o : id_ok (is29 m) o = true <-> id_range m o.
Proof.
  unfold id_ok, id_range. change (mode29 m) with (is29 m). destruct o as [x|].
  - rewrite andb_true_iff, orb_true_iff, !Z.leb_le. split.
    + intros [H1 H2] y E; injection E as <-. split; [lia|]. intros Hf. rewrite Hf in H2.
      destruct H2; [discriminate|lia].
    + intros H; destruct (H x eq_refl) as [H1 H2]. split; [lia|].
      destruct (is29 m); [left; reflexivity|right; apply H2; reflexivity].
  - split; [intros _ y E; discriminate|reflexivity].
Qed.

Lemma opt_eqb_false (a b : option Z) : opt_eqb a b = false <-> a <> b.
Proof.
  destruct a as [x|], b as [y|]; simpl; split; intros H; try congruence; try discriminate.
  - apply Z.eqb_neq in H; congruence.
  - apply Z.eqb_neq; congruence.
Qed.

Ltac boolprop :=
  repeat rewrite ?andb_true_iff, ?orb_true_iff, ?negb_true_iff, ?andb_false_iff, ?orb_false_iff,
    ?negb_false_iff, ?is_none_true, ?is_none_false, ?opt_eqb_false.

Theorem addr_validate_iff a : addr_validate a = true <-> address_ok a.
Proof.
  unfold addr_validate, address_ok.
  destruct (a_rx_only a) eqn:Er, (a_tx_only a) eqn:Et; simpl andb; cbv iota.
  - split; [discriminate|]. intros [H _]; exfalso; apply H; auto.
  - rewrite ?andb_true_r, ?andb_false_r, ?orb_true_l, ?orb_false_l; simpl negb.
    boolprop. rewrite !byte_ok_iff, !id_ok_iff.
    destruct (a_mode a); boolprop; unfold given; intuition (try congruence).
  - rewrite ?andb_true_r, ?andb_false_r, ?orb_true_l, ?orb_false_l; simpl negb.
    boolprop. rewrite !byte_ok_iff, !id_ok_iff.
    destruct (a_mode a); boolprop; unfold given; intuition (try congruence).
  - rewrite ?andb_true_r, ?andb_false_r, ?orb_true_l, ?orb_false_l; simpl negb.
    boolprop. rewrite !byte_ok_iff, !id_ok_iff.
    destruct (a_mode a); boolprop; unfold given; intuition (try congruence).
Qed.

(** Emitted identifier and prefix *)
Lemma spec_base_mult d o : (exists B, d = B * 2 ^ 16) -> exists B, spec_base d o = B * 2 ^ 16.
Proof.
  intros [B HB]. destruct o as [p|]; simpl.
  - exists ((p / 65536) mod 8192). reflexivity.
  - exists B; exact HB.
Qed.

Lemma base_of_mult a t : exists B, base_of a t = B * 2 ^ 16.
Proof.
  destruct t; simpl; rewrite ?phys_base_spec, ?func_base_spec; unfold spec_phys, spec_func;
  destruct (a_mode a); try (exists 0; reflexivity); apply spec_base_mult;
  [exists 0x18DA|exists 0x18CE|exists 0x18DB|exists 0x18CD]; reflexivity.
Qed.

Lemma fixed_id_arith B ta sa : 0 <= ta <= 255 -> 0 <= sa <= 255 ->
  Z.lor (Z.lor (B * 2 ^ 16) (Z.shiftl ta 8)) sa = B * 2 ^ 16 + ta * 256 + sa.
Proof.
  intros Hta Hsa. rewrite Z.shiftl_mul_pow2 by lia.
  rewrite (lor_mul_pow2_add B (ta * 2 ^ 8) 16) by lia.
  replace (B * 2 ^ 16 + ta * 2 ^ 8) with ((B * 256 + ta) * 2 ^ 8) by lia.
  rewrite lor_mul_pow2_add by lia. lia.
Qed.

Theorem tx_arb_id_spec a t : address_ok a -> a_rx_only a = false -> emit_id a t (tx_arb_id a t).
Proof.
  intros Hok Hrx. unfold address_ok in Hok. rewrite Hrx in Hok.
  destruct Hok as (_ & Hta & Hsa & _ & _ & _ & Hm).
  unfold emit_id, tx_arb_id.
  assert (Hfixed : a_ta a <> None -> a_sa a <> None ->
    exists ta sa, a_ta a = Some ta /\ a_sa a = Some sa /\
      Z.lor (Z.lor (base_of a t) (Z.shiftl (oget (a_ta a)) 8)) (oget (a_sa a)) =
      base_of a t + ta * 256 + sa).
  { intros H1 H2. destruct (a_ta a) as [ta|] eqn:E1; [|congruence].
    destruct (a_sa a) as [sa|] eqn:E2; [|congruence].
    exists ta, sa. repeat split. simpl oget.
    destruct (base_of_mult a t) as [B HB]. rewrite HB.
    apply fixed_id_arith; [apply Hta|apply Hsa]; reflexivity. }
  destruct (a_mode a) eqn:Em; unfold given in Hm;
    try (destruct (a_txid a) as [x|] eqn:E; simpl; [reflexivity|exfalso; intuition congruence]).
  - destruct Hfixed as (ta & sa & E1 & E2 & E3); [tauto|tauto|].
    exists ta, sa. rewrite E3. repeat split; try assumption.
    destruct t; simpl; rewrite ?phys_base_spec, ?func_base_spec; reflexivity.
  - destruct Hfixed as (ta & sa & E1 & E2 & E3); [tauto|tauto|].
    exists ta, sa. rewrite E3. repeat split; try assumption.
    destruct t; simpl; rewrite ?phys_base_spec, ?func_base_spec; reflexivity.
Qed.

Theorem tx_prefix_spec a : address_ok a -> a_rx_only a = false -> emit_prefix a (tx_prefix a).
Proof.
  intros Hok Hrx. unfold address_ok in Hok. rewrite Hrx in Hok.
  destruct Hok as (_ & _ & _ & _ & _ & _ & Hm).
  unfold emit_prefix, tx_prefix, given in *.
  destruct (a_mode a); try reflexivity.
  - destruct (a_ta a) as [x|]; [exists x; auto|exfalso; intuition congruence].
  - destruct (a_ta a) as [x|]; [exists x; auto|exfalso; intuition congruence].
  - destruct (a_ae a) as [x|]; [exists x; auto|exfalso; intuition congruence].
  - destruct (a_ae a) as [x|]; [exists x; auto|exfalso; intuition congruence].
Qed.

(** A frame built with the documented identifier and prefix of [a] is accepted
    by the peer configured with the mirrored address (physical and functional). *)
Theorem mirror_accepts a t id pfx rest f :
  address_ok a -> a_rx_only a = false ->
  emit_id a t id -> emit_prefix a pfx ->
  f_id f = id -> f_ext f = mode29 (a_mode a) -> f_data f = pfx ++ rest ->
  accepts (mirror a) f.
Proof.
  intros Hok Hrx Hid Hpfx Ef Ee Ed.
  unfold address_ok in Hok. rewrite Hrx in Hok.
  destruct Hok as (_ & Hta & Hsa & _ & _ & _ & _).
  unfold accepts, emit_id, emit_prefix, mirror, id_fields_ok, first_byte, spec_phys, spec_func in *.
  simpl. split; [exact Ee|].
  assert (Hfix : forall base ta sa B, a_ta a = Some ta -> a_sa a = Some sa -> base = B * 2 ^ 16 ->
            id = base + ta * 256 + sa ->
            id / 65536 * 65536 = base /\ Some ((id / 256) mod 256) = a_ta a /\ Some (id mod 256) = a_sa a).
  { intros base ta sa B E1 E2 EB ->. rewrite E1, E2.
    specialize (Hta ta E1). specialize (Hsa sa E2). subst base.
    assert (0 <= ta * 256 + sa < 65536) by lia.
    repeat split.
    - replace (B * 2 ^ 16 + ta * 256 + sa) with ((ta * 256 + sa) + B * 65536) by lia.
      rewrite Z.div_add by lia. rewrite (Z.div_small (ta * 256 + sa)) by lia. lia.
    - f_equal. replace (B * 2 ^ 16 + ta * 256 + sa) with (sa + (B * 256 + ta) * 256) by lia.
      rewrite Z.div_add by lia. rewrite (Z.div_small sa) by lia.
      replace (0 + (B * 256 + ta)) with (ta + B * 256) by lia.
      rewrite Z.mod_add by lia. apply Z.mod_small; lia.
    - f_equal. replace (B * 2 ^ 16 + ta * 256 + sa) with (sa + (B * 256 + ta) * 256) by lia.
      rewrite Z.mod_add by lia. apply Z.mod_small; lia. }
  destruct (a_mode a) eqn:Em; rewrite Ef.
  - symmetry; exact Hid.
  - symmetry; exact Hid.
  - destruct Hid as (ta & sa & E1 & E2 & E3).
    destruct t.
    + destruct (spec_base_mult 0x18DA0000 (a_phys a)) as [B HB]; [exists 0x18DA; reflexivity|].
      destruct (Hfix _ ta sa B E1 E2 HB E3) as (H1 & H2 & H3). auto.
    + destruct (spec_base_mult 0x18DB0000 (a_func a)) as [B HB]; [exists 0x18DB; reflexivity|].
      destruct (Hfix _ ta sa B E1 E2 HB E3) as (H1 & H2 & H3). auto.
  - destruct Hpfx as (ta & E1 & ->). split; [symmetry; exact Hid|].
    exists ta, rest. split; [exact Ed|symmetry; exact E1].
  - destruct Hpfx as (ta & E1 & ->). split; [symmetry; exact Hid|].
    exists ta, rest. split; [exact Ed|symmetry; exact E1].
  - destruct Hpfx as (ae & E1 & ->). split; [symmetry; exact Hid|].
    exists ae, rest. split; [exact Ed|symmetry; exact E1].
  - destruct Hid as (ta & sa & E1 & E2 & E3).
    destruct Hpfx as (ae & E4 & ->).
    split; [|exists ae, rest; split; [exact Ed|symmetry; exact E4]].
    destruct t.
    + destruct (spec_base_mult 0x18CE0000 (a_phys a)) as [B HB]; [exists 0x18CE; reflexivity|].
      destruct (Hfix _ ta sa B E1 E2 HB E3) as (H1 & H2 & H3). auto.
    + destruct (spec_base_mult 0x18CD0000 (a_func a)) as [B HB]; [exists 0x18CD; reflexivity|].
      destruct (Hfix _ ta sa B E1 E2 HB E3) as (H1 & H2 & H3). auto.
Qed.
