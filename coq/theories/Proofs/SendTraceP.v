(** C01 / C10, sender side, for every run.  Along any run of micro-steps of one layer (user send()
    calls with finite generators, transmit passes, received frames of any kind, timeout checks,
    clock ticks, recv() calls) and as long as no error has been reported, the data frames the layer
    has emitted are exactly: the reference segmentations (Spec/Segment.v) of the messages completed
    so far, in the order they were queued, followed by the first frames of the reference
    segmentation of the message in transmission. *)
From IsoTp Require Import Base.Prelude Model.Micro Spec.ConfigSpec Spec.FrameSpec Spec.Segment Spec.AddrSpec
  Proofs.FramesP Proofs.Codec Proofs.Inv Proofs.NoCrash Proofs.TxP Proofs.SegP Proofs.DuplexP Proofs.PacingP
  Proofs.Events Proofs.LazyP Proofs.LazyRunP.

Definition is_err (e : event) : bool := match e with EErr _ | ECrash _ => true | _ => false end.
Definition has_err (evs : list event) : bool := existsb is_err evs.

Lemma has_err_app a b : has_err (a ++ b) = has_err a || has_err b.
Proof. apply existsb_app. Qed.

(** a queued message: request id, target address type, payload, what else the generator would yield *)
Record msg := { m_id : Z; m_t : tat; m_p : list Z; m_x : list Z }.

Lemma zseq_snoc from count : 0 <= from -> 0 <= count -> zseq from (count + 1) = zseq from count ++ [from + count].
Proof.
  intros Hf Hc. unfold zseq. replace (Z.to_nat (count + 1)) with (Z.to_nat count + 1)%nat by lia.
  rewrite seq_app, map_app. cbn [seq map]. f_equal. f_equal. lia.
Qed.

Section ST.
Variable c : cfg.
Hypothesis Hok : params_ok (c_p c).

Let pfx := c_tx_prefix c.
Let plen := zlen pfx.
Let tx_dl := p_tx_dl (c_p c).
Let idp := Address.tx_arb_id (c_txa c) Physical.

Definition m_n (m : msg) : Z := zlen (m_p m).
Definition m_req (m : msg) : request := fresh_req (m_id m) (m_p m) (m_x m) (m_t m).
Definition m_adv (m : msg) (k : Z) : request := adv_req (m_id m) (m_p m) (m_x m) (m_t m) k.
Definition m_seg (m : msg) : list frame := seg c (m_t m) (m_p m).
Definition m_ok (m : msg) : Prop := 1 <= m_n m < 2 ^ 32.
Definition ff_frame (m : msg) : frame :=
  spec_frame c idp (pfx ++ ff_header (m_n m) ++ ztake (ff_cap c (m_n m)) (m_p m)).
Definition cf_frame (m : msg) (j : Z) : frame := spec_frame c idp (cf_data c (m_p m) j).
(** bytes consumed once the First Frame and j-1 Consecutive Frames are built *)
Definition kpos (m : msg) (j : Z) : Z := ff_cap c (m_n m) + (j - 1) * cf_cap c.

Lemma cf_cap_pos : 6 <= cf_cap c.
Proof.
  pose proof (tx_dl_bounds _ Hok). pose proof (plen_bounds c). unfold cf_cap.
  change (zlen (Address.tx_prefix (c_txa c))) with (zlen (c_tx_prefix c)). lia.
Qed.

Lemma seg_multi m : is_single c (m_n m) = false ->
  m_seg m = ff_frame m :: map (cf_frame m) (zseq 1 (n_cf c (m_n m))).
Proof.
  intros H. unfold m_seg, seg, is_single in *. fold (m_n m). apply orb_false_iff in H. destruct H as [H1 H2].
  rewrite H1, H2. reflexivity.
Qed.

Lemma n_cf_last m j : 1 <= j -> kpos m j < m_n m -> m_n m <= kpos m j + cf_cap c -> n_cf c (m_n m) = j.
Proof.
  intros Hj H1 H2. pose proof cf_cap_pos as Hc. unfold kpos in *. unfold n_cf.
  set (cf := cf_cap c) in *. set (x := m_n m - ff_cap c (m_n m)).
  assert (Hx : (j - 1) * cf < x <= j * cf) by (subst x; lia).
  replace (m_n m - ff_cap c (m_n m) + cf - 1) with (x + cf - 1) by (subst x; lia).
  symmetry. apply (Z.div_unique _ _ j (x + cf - 1 - j * cf)); lia.
Qed.

Lemma n_cf_more m j : 1 <= j -> kpos m j + cf_cap c < m_n m -> j < n_cf c (m_n m).
Proof.
  intros Hj H1. pose proof cf_cap_pos as Hc. unfold kpos in *. unfold n_cf.
  set (cf := cf_cap c) in *. set (x := m_n m - ff_cap c (m_n m)).
  assert (Hx : j * cf < x) by (subst x; lia).
  replace (m_n m - ff_cap c (m_n m) + cf - 1) with (x + cf - 1) by (subst x; lia).
  apply Z.lt_le_trans with ((j + 1)); [lia|]. apply Z.div_le_lower_bound; lia.
Qed.

(** data frames of the message in transmission emitted so far: First Frame and CFs 1..j-1 *)
Definition part (m : msg) (j : Z) : list frame := ff_frame m :: map (cf_frame m) (zseq 1 (j - 1)).

Lemma part_snoc m j : 1 <= j -> part m (j + 1) = part m j ++ [cf_frame m j].
Proof.
  intros Hj. unfold part. replace (j + 1 - 1) with ((j - 1) + 1) by lia.
  rewrite zseq_snoc by lia. rewrite map_app. cbn [map]. replace (1 + (j - 1)) with j by lia. reflexivity.
Qed.

Lemma part_all m j : is_single c (m_n m) = false -> n_cf c (m_n m) = j -> part m (j + 1) = m_seg m.
Proof. intros Hs <-. rewrite (seg_multi m Hs). unfold part. replace (n_cf c (m_n m) + 1 - 1) with (n_cf c (m_n m)) by lia. reflexivity. Qed.

(** *** the invariant: [W] data frames emitted so far, [H] messages accepted by send() so far *)
Definition ST (s : layer) (W : list frame) (H : list msg) : Prop :=
  exists done pending, H = done ++ pending /\ Forall m_ok H /\
    match tx_state s with
    | TxIdle =>
        active s = None /\ tx_standby s = None /\ tx_queue s = map m_req pending /\ W = concat (map m_seg done)
    | TxSFStandby =>
        exists m rest f, pending = m :: rest /\ m_seg m = [f] /\ tx_standby s = Some f /\
          tx_queue s = map m_req rest /\ W = concat (map m_seg done)
    | TxFFStandby =>
        exists m rest, pending = m :: rest /\ is_single c (m_n m) = false /\ kpos m 1 < m_n m /\ tx_standby s = Some (ff_frame m) /\
          active s = Some (m_adv m (kpos m 1)) /\ tx_seqnum s = 1 /\
          tx_queue s = map m_req rest /\ W = concat (map m_seg done)
    | TxWaitFC | TxTransmitCF =>
        exists m rest j, pending = m :: rest /\ is_single c (m_n m) = false /\ 1 <= j /\ kpos m j < m_n m /\
          tx_standby s = None /\
          active s = Some (m_adv m (kpos m j)) /\ tx_seqnum s = j mod 16 /\
          tx_queue s = map m_req rest /\ W = concat (map m_seg done) ++ part m j
    end.

(** a step that neither pulls, emits nor completes *)
Definition Ks (s s' : layer) : Prop :=
  tx_queue s' = tx_queue s /\ active s' = active s /\ tx_standby s' = tx_standby s /\ tx_seqnum s' = tx_seqnum s /\
  cls (tx_state s') = cls (tx_state s).

Lemma Ks_refl s : Ks s s.
Proof. repeat split. Qed.

Lemma Ks_trans s1 s2 s3 : Ks s1 s2 -> Ks s2 s3 -> Ks s1 s3.
Proof. intros (A1 & B1 & C1 & D1 & E1) (A2 & B2 & C2 & D2 & E2). repeat split; congruence. Qed.

Lemma ST_Ks s s' W H : ST s W H -> Ks s s' -> ST s' W H.
Proof.
  intros (done & pending & HH & Hall & Hst) (A & B & C & D & E). exists done, pending. split; [exact HH|]. split; [exact Hall|].
  rewrite A, B, C, D. destruct (tx_state s), (tx_state s'); cbn in E; try discriminate; exact Hst.
Qed.

Lemma Ks_lim_inform p n s : Ks s (lim_inform p n s).
Proof.
  unfold lim_inform. destruct (negb (p_lim_enable p)); [apply Ks_refl|].
  destruct (lim_times s); [repeat split|]. destruct (SLOT_NS <? _); repeat split.
Qed.

Lemma ST_finish p s evs out imm W H : ST s W H -> ST (tr_s (tx_finish p s evs out imm)) W H.
Proof.
  intros HS. unfold tx_finish. destruct out; cbn [tr_s mk_tr]; [|exact HS]. exact (ST_Ks _ _ _ _ HS (Ks_lim_inform _ _ _)).
Qed.

Lemma handle_fc_Ks s f :
  has_err (snd (snd (handle_fc c s f))) = true \/
  (fst (handle_fc c s f) = false /\ Ks s (fst (snd (handle_fc c s f)))).
Proof.
  unfold handle_fc. destruct (fc_status f =? FS_OVFLW).
  { left. unfold stop_sending; cbv beta iota. cbn [snd]. rewrite has_err_app. apply orb_true_r. }
  cbn [fst snd].
  destruct (tx_state s) eqn:Est; try (left; reflexivity);
    (unfold handle_fc_active; destruct (fc_status f =? FS_WAIT);
     [destruct (p_wftmax _ =? 0); [left; reflexivity|]; destruct (timer_timed_out _ _); [right; split; [reflexivity|apply Ks_refl]|];
      destruct (p_wftmax _ <=? _); [left; unfold stop_sending; cbv beta iota; reflexivity|];
      right; split; [reflexivity|]; repeat split; cbn; rewrite Est; reflexivity
     |destruct (_ && _); [|right; split; [reflexivity|apply Ks_refl]];
      right; split; [reflexivity|]; repeat split; cbn; rewrite Est; reflexivity]).
Qed.

Lemma after_fc_Ks s :
  (forall r, active s = Some r ->
     r_is_depleted r && (match tx_standby s with None => true | Some _ => false end) = false) ->
  match tx_after_fc c s with
  | inl r => has_err (tr_evs r) = true
  | inr (s', evs) => has_err evs = true \/ Ks s s'
  end.
Proof.
  intros Hnd. unfold tx_after_fc. set (s0 := s <| last_fc := None |>).
  assert (H0 : Ks s s0) by (repeat split).
  assert (Ha : forall b s1 e, (match last_fc s with None => (false, (s0, [])) | Some f => handle_fc c s0 f end) = (b, (s1, e)) ->
                 has_err e = true \/ (b = false /\ Ks s s1)).
  { intros b s1 e. destruct (last_fc s) as [f|].
    - intros E. pose proof (handle_fc_Ks s0 f) as H. rewrite E in H. cbn [fst snd] in H.
      destruct H as [H|[H1 H2]]; [left; exact H|right; split; [exact H1|exact (Ks_trans _ _ _ H0 H2)]].
    - intros E; injection E as <- <- <-. right. split; [reflexivity|exact H0]. }
  destruct (match last_fc s with None => (false, (s0, [])) | Some f => handle_fc c s0 f end) as [b [s1 evs1]] eqn:E.
  specialize (Ha b s1 evs1 eq_refl).
  destruct b.
  { cbn [tr_evs mk_tr]. destruct Ha as [Ha|[Ha _]]; [exact Ha|discriminate]. }
  destruct (timer_timed_out (now s1) (timer_rx_fc s1)).
  { (* N_Bs timeout: reported *)
    assert (Herr : forall e3, has_err (evs1 ++ (EErr FlowControlTimeout :: snd (stop_sending false s1)) ++ e3) = true).
    { intros e3. rewrite !has_err_app. cbn. rewrite orb_true_r. reflexivity. }
    unfold stop_sending in *; cbv beta iota. cbn [snd] in Herr.
    match goal with |- context [tx_state ?x] => destruct (tx_state x) end.
    all: try (left; specialize (Herr []); rewrite app_nil_r in Herr; exact Herr).
    all: match goal with |- context [active ?x] => destruct (active x) end; cbn [tr_evs mk_crash];
      try (rewrite <- app_assoc; apply Herr).
    all: match goal with |- context [if ?b then _ else _] => destruct b end; left;
      [apply Herr|specialize (Herr []); rewrite app_nil_r in Herr; exact Herr]. }
  rewrite app_nil_r.
  destruct Ha as [Ha|[_ Ha]].
  - (* an error was reported while handling the flow control *)
    destruct (tx_state s1); [left; exact Ha|..];
      (destruct (active s1) as [r|]; [|cbn [tr_evs mk_crash]; rewrite has_err_app, Ha; reflexivity];
       destruct (r_is_depleted r && _); [|left; exact Ha];
       unfold stop_sending; cbv beta iota; left; rewrite has_err_app, Ha; reflexivity).
  - pose proof Ha as HK. destruct Ha as (A & B & C & D & E').
    destruct (tx_state s1) eqn:Est1; [right; exact HK|..];
      (destruct (active s1) as [r|] eqn:Ea; [|cbn [tr_evs mk_crash]; rewrite has_err_app; cbn; apply orb_true_r];
       specialize (Hnd r (eq_sym B)); rewrite C, Hnd; right; exact HK).
Qed.

Lemma Ks_tx_finish p s evs out imm : Ks s (tr_s (tx_finish p s evs out imm)).
Proof. unfold tx_finish. destruct out; cbn [tr_s mk_tr]; [apply Ks_lim_inform|apply Ks_refl]. Qed.

Lemma tx_cf_fields a s evs :
  tx_queue (tr_s (tx_cf c a s evs)) = tx_queue s /\ (tx_standby s = None -> tx_standby (tr_s (tx_cf c a s evs)) = None).
Proof.
  assert (Hf : forall p S e o i, tx_queue S = tx_queue s -> (tx_standby s = None -> tx_standby S = None) ->
             tx_queue (tr_s (tx_finish p S e o i)) = tx_queue s /\ (tx_standby s = None -> tx_standby (tr_s (tx_finish p S e o i)) = None)).
  { intros p S e o i H1 H2. destruct (Ks_tx_finish p S e o i) as (A & _ & C & _). rewrite A, C. auto. }
  unfold tx_cf.
  destruct (remote_bs s) as [rbs|]; [|cbn; auto].
  destruct (active s) as [r|]; [|cbn; auto].
  destruct (timer_timed_out _ _); [|apply Hf; auto].
  destruct (_ <=? a); [|apply Hf; auto].
  destruct (consume _ false r) as [[payload|] r']; [|cbn; auto].
  destruct (0 <? zlen payload).
  - destruct (make_tx_msg _ _ _) as [mm|]; [|cbn; auto].
    destruct (r_is_depleted r').
    + destruct (0 <? r_remaining r'); unfold stop_sending; cbv beta iota; apply Hf; auto.
    + destruct (negb (rbs =? 0) && _); apply Hf; auto.
  - destruct (r_is_depleted r').
    + destruct (0 <? r_remaining r'); unfold stop_sending; cbv beta iota; apply Hf; auto.
    + destruct (negb (rbs =? 0) && _); apply Hf; auto.
Qed.

Lemma ff_cap_bounds m : m_ok m -> is_single c (m_n m) = false -> 0 < ff_cap c (m_n m) < m_n m.
Proof.
  intros Hm Hs. destruct (start_first c Hok (init_layer c 0) (m_id m) (m_p m) (m_x m) (m_t m) 0 Hm Hs) as (_ & H & _). exact H.
Qed.

Lemma single_seg m : m_ok m -> is_single c (m_n m) = true -> exists f, m_seg m = [f].
Proof.
  intros Hm Hs. unfold m_seg, seg. fold (m_n m). unfold is_single in Hs.
  destruct (sf_short_ok c (m_n m)); [eexists; reflexivity|]. cbn [orb] in Hs. rewrite Hs. eexists; reflexivity.
Qed.

Lemma concat_snoc {A} (l : list (list A)) x : concat (l ++ [x]) = concat l ++ x.
Proof. rewrite concat_app. cbn. rewrite app_nil_r. reflexivity. Qed.

Definition opt_list {A} (o : option A) : list A := match o with Some x => [x] | None => [] end.

(** the state machine part of a transmit pass *)
Lemma tx_fsm_ST a s evs W H : WF c s -> ST s W H ->
  let r := tx_fsm c a s evs in
  ST (tr_s r) (W ++ opt_list (tr_msg r)) H.
Proof.
  intros Hwf HS r. subst r. pose proof HS as (done & pending & HH & Hall & Hst).
  pose proof cf_cap_pos as Hcf.
  unfold tx_fsm. destruct (tx_state s) eqn:Est.
  - (* idle: next queued message, if any *)
    destruct Hst as (Hact & Hsb & Hq & HW). rewrite Hq.
    destruct pending as [|m rest].
    { cbn [map idle_dequeue]. unfold tx_finish. cbn [tr_s tr_msg mk_tr opt_list]. rewrite app_nil_r.
      apply (ST_Ks s); [exact HS|]. repeat split. cbn. rewrite Hq. reflexivity. }
    assert (Hm : m_ok m). { rewrite HH in Hall. apply Forall_app in Hall. destruct Hall as [_ Hp]. inversion Hp; assumption. }
    assert (Hnd : r_is_depleted (m_req m) = false).
    { unfold r_is_depleted, r_remaining, m_req, fresh_req. cbn. unfold m_ok, m_n in Hm. destruct (Z.leb_spec (zlen (m_p m) - 0) 0); [lia|reflexivity]. }
    cbn [map idle_dequeue]. rewrite Hnd.
    set (s0 := s <| tx_queue := map m_req rest |>).
    assert (Hwf0 : WF c s0) by (destruct Hwf; constructor; try assumption; cbn; rewrite Hq in wf_queue; inversion wf_queue; assumption).
    destruct (start_request c (s0 <| active := Some (m_req m) |>) (m_req m) a) as [site|s1 e1 o1] eqn:Es.
    { exfalso. eapply start_request_nocrash in Es; [exact Es|exact Hok| |exact Hnd].
      unfold req_fresh, m_req, fresh_req. cbn. pose proof (zlen_nonneg (m_p m)). auto. }
    assert (Hfr : req_fresh (m_req m)).
    { unfold req_fresh, m_req, fresh_req. cbn. pose proof (zlen_nonneg (m_p m)). auto. }
    assert (Hfrest : Forall req_fresh (map m_req rest)).
    { pose proof (wf_queue c s Hwf) as Hwq. rewrite Hq in Hwq. cbn [map] in Hwq. inversion Hwq; assumption. }
    assert (Hq1 : tx_queue s1 = map m_req rest).
    { destruct (start_request_L c Hok _ (m_req m) a s1 e1 o1 0 eq_refl Hnd ltac:(apply Hm) Es) as [Hq1 _]. exact Hq1. }
    assert (Hwf1 : WF c s1) by exact (WF_start_request c s (map m_req rest) (m_req m) a s1 e1 o1 Hwf Est Hfrest Hfr Es).
    rewrite tx_finish_msg. apply ST_finish.
    assert (HH' : H = (done ++ [m]) ++ rest) by (rewrite HH, <- app_assoc; reflexivity).
    assert (HW' : concat (map m_seg (done ++ [m])) = W ++ m_seg m) by (rewrite map_app, concat_app, HW; cbn; rewrite app_nil_r; reflexivity).
    destruct (is_single c (m_n m)) eqn:Esg.
    + destruct (single_seg m Hm Esg) as [f Hf].
      destruct (start_single c Hok s0 (m_id m) (m_p m) (m_x m) (m_t m) a (proj1 Hm) Esg) as (f' & Hhd & _ & Hem & Hsb').
      fold (m_seg m) in Hhd. rewrite Hf in Hhd. injection Hhd as <-.
      fold (m_req m) in Hem, Hsb'.
      destruct (a <? _) eqn:Ea.
      * destruct (Hsb' eq_refl) as (s' & Es' & Hst' & Hsb1). rewrite Es in Es'. injection Es' as E1 E2 E3; subst s' e1 o1.
        cbn [opt_list]. rewrite app_nil_r. exists done, (m :: rest). split; [exact HH|]. split; [exact Hall|].
        rewrite Hst'. exists m, rest, f. repeat split; assumption.
      * destruct (Hem eq_refl) as (s' & Es' & Hst' & Hact'). rewrite Es in Es'. injection Es' as E1 E2 E3; subst s' e1 o1.
        cbn [opt_list]. exists (done ++ [m]), rest. split; [exact HH'|]. split; [exact Hall|].
        rewrite Hst'. split; [exact Hact'|]. split; [apply (WF_no_standby c s1 Hwf1); rewrite Hst'; discriminate|].
        split; [exact Hq1|]. rewrite HW', Hf. reflexivity.
    + destruct (start_first c Hok s0 (m_id m) (m_p m) (m_x m) (m_t m) a Hm Esg) as (_ & Hcap & Hem & Hsb').
      fold (m_req m) (m_n m) in Hem, Hsb'. fold (ff_frame m) in Hem, Hsb'.
      assert (Hk1 : kpos m 1 = ff_cap c (m_n m)) by (unfold kpos; lia).
      destruct (_ <=? a) eqn:Ea.
      * destruct (Hem eq_refl) as (s' & Es' & Hst' & Hact' & Hsq' & _ & Hsb1). rewrite Es in Es'. injection Es' as E1 E2 E3; subst s' e1 o1.
        cbn [opt_list]. exists done, (m :: rest). split; [exact HH|]. split; [exact Hall|].
        rewrite Hst'. exists m, rest, 1. rewrite Hk1. repeat split; try assumption; try lia.
        -- apply Hcap.
        -- rewrite Hsb1. exact Hsb.
        -- rewrite HW. reflexivity.
      * destruct (Hsb' eq_refl) as (s' & Es' & Hst' & Hact' & Hsq' & Hsb1). rewrite Es in Es'. injection Es' as E1 E2 E3; subst s' e1 o1.
        cbn [opt_list]. rewrite app_nil_r. exists done, (m :: rest). split; [exact HH|]. split; [exact Hall|].
        rewrite Hst'. exists m, rest. rewrite Hk1. repeat split; try assumption; try lia.
        apply Hcap.
  - rewrite tx_finish_msg. cbn [opt_list]. rewrite app_nil_r. apply ST_finish. exact HS.
  - (* pacing Consecutive Frames *)
    destruct Hst as (m & rest & j & Hp & Hsg & Hj & Hk & Hsb & Hact & Hsq & Hq & HW).
    assert (Hm : m_ok m). { rewrite HH, Hp in Hall. apply Forall_app in Hall. destruct Hall as [_ Hpp]. inversion Hpp; assumption. }
    destruct (wf_cf c s Hwf Est) as [Hrb _]. destruct (remote_bs s) as [rbs|] eqn:Erb; [|congruence].
    pose proof (ff_cap_bounds m Hm Hsg) as Hcap.
    destruct (tx_cf_fields a s evs) as [Hq' Hsb']. specialize (Hsb' Hsb).
    destruct (timer_timed_out (now s) (timer_tx_stmin s)) eqn:Eto.
    2: { rewrite (cf_waits_no_pull c a s evs rbs _ Erb Hact (or_introl Eto)). cbn [tr_s tr_msg mk_tr opt_list]. rewrite app_nil_r. exact HS. }
    destruct (Z.leb_spec (Z.min (cf_cap c) (m_n m - kpos m j)) a) as [Hal|Hal].
    2: { rewrite (cf_waits_no_pull c a s evs rbs _ Erb Hact (or_intror Hal)). cbn [tr_s tr_msg mk_tr opt_list]. rewrite app_nil_r. exact HS. }
    destruct (cf_step c Hok s evs (m_id m) (m_p m) (m_x m) (m_t m) j rbs a Hj (proj1 Hcap) Hk Est Erb Hact Hsq Eto Hal) as (Hmsg & _ & Hmore & Hlast).
    fold (cf_frame m j) in Hmsg. rewrite Hmsg. cbn [opt_list].
    destruct (Z.ltb_spec (kpos m j + cf_cap c) (m_n m)) as [Hlt|Hge].
    + destruct (Hmore Hlt) as (Hact' & Hsq' & _ & Hst' & _).
      exists done, (m :: rest). split; [rewrite HH, Hp; reflexivity|]. split; [exact Hall|].
      assert (Hk' : kpos m (j + 1) = kpos m j + cf_cap c) by (unfold kpos; lia).
      assert (Hbody : exists m0 rest0 j0, m :: rest = m0 :: rest0 /\ is_single c (m_n m0) = false /\ 1 <= j0 /\ kpos m0 j0 < m_n m0 /\
                tx_standby (tr_s (tx_cf c a s evs)) = None /\ active (tr_s (tx_cf c a s evs)) = Some (m_adv m0 (kpos m0 j0)) /\
                tx_seqnum (tr_s (tx_cf c a s evs)) = j0 mod 16 /\ tx_queue (tr_s (tx_cf c a s evs)) = map m_req rest0 /\
                (W ++ [cf_frame m j]) = concat (map m_seg done) ++ part m0 j0).
      { exists m, rest, (j + 1). rewrite Hk'. repeat split; try assumption; try lia.
        - rewrite Hq'. exact Hq.
        - rewrite HW, part_snoc by lia. rewrite app_assoc. reflexivity. }
      destruct Hst' as [Hst'|Hst']; rewrite Hst'; exact Hbody.
    + destruct (Hlast Hge) as (Hst' & Hact' & _).
      exists (done ++ [m]), rest. split; [rewrite HH, Hp, <- app_assoc; reflexivity|]. split; [exact Hall|].
      rewrite Hst'. split; [exact Hact'|]. split; [exact Hsb'|]. split; [rewrite Hq'; exact Hq|].
      rewrite map_app, concat_app. cbn [map concat]. rewrite app_nil_r, HW, <- app_assoc. f_equal.
      rewrite <- part_snoc by lia. apply part_all; [exact Hsg|]. apply n_cf_last; assumption.
  - (* a Single Frame held back by the rate limiter *)
    destruct Hst as (m & rest & f & Hp & Hf & Hsb & Hq & HW). rewrite Hsb.
    destruct (_ <=? a); [|rewrite tx_finish_msg; cbn [opt_list]; rewrite app_nil_r; apply ST_finish; exact HS].
    unfold stop_sending; cbv beta iota. rewrite tx_finish_msg. apply ST_finish. cbn [opt_list].
    exists (done ++ [m]), rest. split; [rewrite HH, Hp, <- app_assoc; reflexivity|]. split; [exact Hall|].
    cbn [tx_state active tx_standby tx_queue set RecordSet.set]. split; [reflexivity|]. split; [reflexivity|]. split; [exact Hq|].
    rewrite map_app, concat_app. cbn [map concat]. rewrite app_nil_r, HW, Hf. reflexivity.
  - (* a First Frame held back by the rate limiter *)
    destruct Hst as (m & rest & Hp & Hsg & Hk & Hsb & Hact & Hsq & Hq & HW). rewrite Hsb.
    destruct (_ <=? a); [|rewrite tx_finish_msg; cbn [opt_list]; rewrite app_nil_r; apply ST_finish; exact HS].
    rewrite tx_finish_msg. apply ST_finish. cbn [opt_list].
    exists done, (m :: rest). split; [rewrite HH, Hp; reflexivity|]. split; [exact Hall|].
    cbn [tx_state start_rx_fc_timer set RecordSet.set]. exists m, rest, 1.
    repeat split; try assumption; try lia. rewrite HW. reflexivity.
Qed.

Lemma tx_cf_prefix a s evs : exists e', tr_evs (tx_cf c a s evs) = evs ++ e'.
Proof.
  unfold tx_cf.
  destruct (remote_bs s) as [rbs|]; [|eexists; reflexivity].
  destruct (active s) as [r|]; [|eexists; reflexivity].
  destruct (timer_timed_out _ _); [|eexists; rewrite tx_finish_evs; symmetry; apply app_nil_r].
  destruct (_ <=? a); [|eexists; rewrite tx_finish_evs; symmetry; apply app_nil_r].
  destruct (consume _ false r) as [[payload|] r']; [|eexists; reflexivity].
  destruct (0 <? zlen payload).
  - destruct (make_tx_msg _ _ _) as [mm|]; [|eexists; reflexivity].
    destruct (r_is_depleted r').
    + destruct (0 <? r_remaining r'); unfold stop_sending; cbv beta iota; eexists; rewrite tx_finish_evs; reflexivity.
    + destruct (negb (rbs =? 0) && _); eexists; rewrite tx_finish_evs; symmetry; apply app_nil_r.
  - destruct (r_is_depleted r').
    + destruct (0 <? r_remaining r'); unfold stop_sending; cbv beta iota; eexists; rewrite tx_finish_evs; reflexivity.
    + destruct (negb (rbs =? 0) && _); eexists; rewrite tx_finish_evs; symmetry; apply app_nil_r.
Qed.

Lemma tx_fsm_prefix a s evs : exists e', tr_evs (tx_fsm c a s evs) = evs ++ e'.
Proof.
  unfold tx_fsm. destruct (tx_state s).
  - destruct (idle_dequeue _ _ _ _ _) as [site|s4 e4 out]; [eexists; reflexivity|]. eexists. rewrite tx_finish_evs. reflexivity.
  - eexists. rewrite tx_finish_evs. symmetry; apply app_nil_r.
  - apply tx_cf_prefix.
  - destruct (tx_standby s); [|eexists; rewrite tx_finish_evs; symmetry; apply app_nil_r].
    destruct (_ <=? a); [|eexists; rewrite tx_finish_evs; symmetry; apply app_nil_r].
    unfold stop_sending; cbv beta iota. eexists. rewrite tx_finish_evs. reflexivity.
  - destruct (tx_standby s); [|eexists; rewrite tx_finish_evs; symmetry; apply app_nil_r].
    destruct (_ <=? a); eexists; rewrite tx_finish_evs; symmetry; apply app_nil_r.
Qed.

Lemma ST_nd s W H : ST s W H ->
  forall r, active s = Some r -> r_is_depleted r && (match tx_standby s with None => true | Some _ => false end) = false.
Proof.
  intros (done & pending & HH & Hall & Hst) r Hr.
  destruct (tx_state s).
  - destruct Hst as (Ha & _). congruence.
  - destruct Hst as (m & rest & j & _ & _ & _ & Hk & _ & Hact & _). rewrite Hact in Hr. injection Hr as <-.
    unfold r_is_depleted, r_remaining, m_adv, adv_req, fresh_req. cbn. unfold m_n in Hk.
    destruct (Z.leb_spec (zlen (m_p m) - kpos m j) 0); [lia|reflexivity].
  - destruct Hst as (m & rest & j & _ & _ & _ & Hk & _ & Hact & _). rewrite Hact in Hr. injection Hr as <-.
    unfold r_is_depleted, r_remaining, m_adv, adv_req, fresh_req. cbn. unfold m_n in Hk.
    destruct (Z.leb_spec (zlen (m_p m) - kpos m j) 0); [lia|reflexivity].
  - destruct Hst as (m & rest & f & _ & _ & Hsb & _). rewrite Hsb. apply andb_false_r.
  - destruct Hst as (m & rest & _ & _ & _ & Hsb & _). rewrite Hsb. apply andb_false_r.
Qed.

Lemma Ks_tx_input s s1 : tx_input c s = Some s1 -> Ks s s1.
Proof.
  unfold tx_input. destruct (pending_fc s); [|intros E; injection E as <-; apply Ks_refl].
  cbv zeta. destruct (negb (p_listen (c_p c))); [discriminate|].
  intros E; injection E as <-. destruct (opt_eqb _ _); repeat split.
Qed.

Lemma Ks_fc_only s : tx_input c s = None -> Ks s (tr_s (process_tx c s)).
Proof.
  unfold tx_input, process_tx. destruct (pending_fc s); [|discriminate].
  cbv zeta. destruct (negb (p_listen (c_p c))); [|discriminate]. intros _.
  destruct (opt_eqb _ _); (destruct (pending_fc_status _) as [st|]; [destruct (make_flow_control c st)|]);
    cbn [tr_s mk_tr mk_crash]; repeat split.
Qed.

(** data frames a transmit pass adds to the trace: what it emits, unless it only answers with a Flow Control *)
Definition pass_data (s : layer) : list frame :=
  match tx_input c s with Some _ => opt_list (tr_msg (process_tx c s)) | None => [] end.

Theorem tx_pass_ST s W H : WF c s -> ST s W H ->
  has_err (tr_evs (process_tx c s)) = true \/ ST (tr_s (process_tx c s)) (W ++ pass_data s) H.
Proof.
  intros Hwf HS. unfold pass_data.
  pose proof (process_tx_by_input c s) as Hp. pose proof (Ks_tx_input s) as Hi. pose proof (WF_tx_input c s) as Hw.
  destruct (tx_input c s) as [s1|] eqn:Ei.
  2: { right. rewrite app_nil_r. exact (ST_Ks _ _ _ _ HS (Ks_fc_only s Ei)). }
  rewrite Hp. unfold process_tx_main. specialize (Hi s1 eq_refl). specialize (Hw s1 Hwf eq_refl).
  assert (HS1 : ST s1 W H) by exact (ST_Ks _ _ _ _ HS Hi).
  pose proof (after_fc_Ks s1 (ST_nd s1 W H HS1)) as Hf. pose proof (WF_tx_after_fc c s1 Hw) as Hwf3.
  destruct (tx_after_fc c s1) as [r|[s3 evs]]; [left; exact Hf|].
  destruct Hf as [Herr|HK].
  - left. destruct (tx_fsm_prefix (lim_allowed_bytes (c_p c) s) s3 evs) as [e' He]. rewrite He, has_err_app, Herr. reflexivity.
  - right. apply tx_fsm_ST; [exact (proj1 Hwf3)|exact (ST_Ks _ _ _ _ HS1 HK)].
Qed.

(** *** micro-steps and runs *)

(** user calls and inputs considered: send() with a finite generator that yields at least [size] >= 1
    values, transmit passes, any received frame, timeout checks, rate limiter updates, recv(), clock
    ticks; not stop_sending() / stop_receiving() / reset(), which abort transfers by design *)
Definition op_ok (m : micro) : Prop :=
  match m with
  | MSend g size _ => g_fill g = None /\ 1 <= size <= zlen (g_items g)
  | MStopSending | MStopReceiving | MReset => False
  | _ => True
  end.

Definition send_msg (s : layer) (g : gen) (size : Z) (t : option tat) : msg :=
  {| m_id := next_req_id s; m_t := match t with Some x => x | None => p_default_tat (c_p c) end;
     m_p := ztake size (g_items g); m_x := zdrop size (g_items g) |}.

Definition gW (s : layer) (W : list frame) (m : micro) : list frame :=
  match m with MTx => W ++ pass_data s | _ => W end.

Definition gH (s : layer) (H : list msg) (m : micro) : list msg :=
  match m with
  | MSend g size t => match snd (send c s g size t) with SendOk => H ++ [send_msg s g size t] | SendValueError => H end
  | _ => H
  end.

Lemma ST_send s W H mk x : ST s W H -> m_ok mk ->
  ST (s <| tx_queue := tx_queue s ++ [m_req mk] |> <| next_req_id := x |>) W (H ++ [mk]).
Proof.
  intros (done & pending & HH & Hall & Hst) Hmk. exists done, (pending ++ [mk]).
  split; [rewrite HH, app_assoc; reflexivity|]. split; [apply Forall_app; split; [exact Hall|constructor; [exact Hmk|constructor]]|].
  cbn [tx_state active tx_standby tx_queue tx_seqnum set RecordSet.set].
  destruct (tx_state s).
  - destruct Hst as (A & B & C & D). repeat split; try assumption. rewrite C, map_app. reflexivity.
  - destruct Hst as (m & rest & j & Hp & A & B & C & D & E & F & G & I). exists m, (rest ++ [mk]), j.
    rewrite Hp. repeat split; try assumption. rewrite G, map_app. reflexivity.
  - destruct Hst as (m & rest & j & Hp & A & B & C & D & E & F & G & I). exists m, (rest ++ [mk]), j.
    rewrite Hp. repeat split; try assumption. rewrite G, map_app. reflexivity.
  - destruct Hst as (m & rest & f & Hp & A & B & C & D). exists m, (rest ++ [mk]), f.
    rewrite Hp. repeat split; try assumption. rewrite C, map_app. reflexivity.
  - destruct Hst as (m & rest & Hp & A & B & C & D & E & F & G). exists m, (rest ++ [mk]).
    rewrite Hp. repeat split; try assumption. rewrite F, map_app. reflexivity.
Qed.

Lemma txv_Ks s s' : txv s' = txv s -> Ks s s'.
Proof.
  unfold txv. intros E.
  pose proof (f_equal (fun '(_, st, q, a, sb, _, _, sq, _, _, _, _, _, _, _, _) => (st, q, a, sb, sq)) E) as E'.
  cbv beta iota in E'. injection E' as E1 E2 E3 E4 E5. repeat split; congruence.
Qed.

Lemma ST_step s W H m : WF c s -> ST s W H -> op_ok m ->
  has_err (snd (mstep c s m)) = true \/ ST (fst (mstep c s m)) (gW s W m) (gH s H m).
Proof.
  intros Hwf HS Hm.
  assert (Hkeep : forall s', Ks s s' -> ST s' W H) by (intros s' HK; exact (ST_Ks _ _ _ _ HS HK)).
  destruct m; cbn [gW gH mstep fst snd]; try (destruct Hm; fail).
  - right. apply Hkeep, txv_Ks, check_timeouts_preserves_tx.
  - right. apply Hkeep.
    destruct (pdu_decode (f_data f) (c_rx_prefix_size c)) as [d|] eqn:Ed.
    + destruct (d_pdu d) as [esc l data|l len data|sn data|fs bs st] eqn:Ep.
      4: { rewrite (rx_fc_only_mailbox c s f d fs bs st Ed Ep). cbn [rr_s mk_rr]. repeat split. }
      all: apply txv_Ks, rx_data_preserves_tx; intros d' fs' bs' st' Hd'; rewrite Ed in Hd'; injection Hd' as <-; rewrite Ep; discriminate.
    + apply txv_Ks, rx_data_preserves_tx. intros d' fs' bs' st' Hd'. rewrite Ed in Hd'. discriminate.
  - right. apply Hkeep. unfold lim_update. destruct (negb _); [repeat split|].
    destruct (lim_pop _ _ _ _ _) as [[ts bs] tot]. repeat split.
  - pose proof (process_tx_nocrash c s Hok Hwf) as Hc. unfold tx_events. rewrite Hc.
    destruct (tx_pass_ST s W H Hwf HS) as [He|HS']; [left; rewrite has_err_app, He; reflexivity|right; exact HS'].
  - right. destruct Hm as [Hfill Hsize]. unfold send.
    destruct (size <? 0); [exact HS|]. destruct (Z.ltb_spec 0xFFFFFFFF size); [exact HS|].
    destruct (match match t with Some x => x | None => _ end with Functional => _ | Physical => _ end); [exact HS|].
    cbn [fst snd].
    assert (Hreq : {| r_id := next_req_id s; r_gen := g; r_size := size; r_consumed := 0; r_depleted := false;
                      r_tat := match t with Some x => x | None => p_default_tat (c_p c) end |} = m_req (send_msg s g size t)).
    { unfold m_req, send_msg, fresh_req. cbn [m_id m_p m_x m_t]. rewrite ztake_zdrop, zlen_ztake by lia.
      rewrite Z.min_l by lia. destruct g as [items fill]. cbn in Hfill. subst fill. reflexivity. }
    rewrite Hreq. apply ST_send; [exact HS|].
    unfold m_ok, m_n, send_msg. cbn [m_p]. rewrite zlen_ztake by lia. rewrite Z.min_l by lia. lia.
  - right. apply Hkeep. unfold recv. destruct (rx_queue s); repeat split.
  - right. apply Hkeep. repeat split.
Qed.

Fixpoint grun (s : layer) (W : list frame) (H : list msg) (ms : list micro) : list frame * list msg :=
  match ms with
  | [] => (W, H)
  | m :: rest => grun (fst (mstep c s m)) (gW s W m) (gH s H m) rest
  end.

Theorem ST_run : forall ms s W H, WF c s -> ST s W H -> Forall op_ok ms ->
  has_err (snd (mrun c s ms)) = true \/
  ST (fst (mrun c s ms)) (fst (grun s W H ms)) (snd (grun s W H ms)).
Proof.
  induction ms as [|m rest IH]; intros s W H Hwf HS Hops; cbn [mrun grun]; [right; exact HS|].
  inversion Hops as [|? ? Hm Hrest]; subst.
  pose proof (ST_step s W H m Hwf HS Hm) as Hs. pose proof (WF_mstep c s m Hwf) as Hw.
  destruct (mstep c s m) as [s1 e1]. cbn [fst snd] in *.
  specialize (IH s1 (gW s W m) (gH s H m) Hw).
  destruct (mrun c s1 rest) as [s2 e2]. cbn [fst snd] in *.
  rewrite has_err_app.
  destruct Hs as [He|HS1]; [left; rewrite He; reflexivity|].
  destruct (IH HS1 Hrest) as [He|HS2]; [left; rewrite He; apply orb_true_r|right; exact HS2].
Qed.

Lemma ST_init t0 : ST (init_layer c t0) [] [].
Proof. exists [], []. split; [reflexivity|]. split; [constructor|]. cbn. repeat split. Qed.

End ST.
