(** C01 / C10 / C11: two layers joined by a reliable in-order link, EVERY interleaving.

    [Dir] is the invariant of one direction of traffic (sender layer, receiver layer, frames in flight);
    it is preserved by every micro-step of the sender, every micro-step of the receiver and every
    delivery, as long as no error is reported.  The joint invariant is [Dir] in both directions at once.
    Consequences, for any list of joint steps from the initial state (any interleaving of the two
    process() loops, send() / recv() calls and clock ticks on either side, any batching of deliveries):
    as long as neither side has reported an error, the payloads recv() has returned on one side followed
    by those waiting in its reception queue are a prefix of the payloads send() accepted on the other
    side - same bytes, same order, none twice, none invented - in both directions simultaneously; and
    when everything has come to rest they are all of them. *)
From IsoTp Require Import Base.Prelude Base.Bits Model.Micro Model.Joint Spec.ConfigSpec Spec.FrameSpec Spec.Segment Spec.Stream
  Spec.AddrSpec Proofs.FramesP Proofs.Codec Proofs.Inv Proofs.NoCrash Proofs.TxP Proofs.SegP Proofs.DuplexP Proofs.Events
  Proofs.RxP Proofs.PacingP Proofs.SendTraceP Proofs.RecvTraceP Proofs.WireP Proofs.MicroP.

(** *** frames handed to txfn by one micro-step *)

Lemma out_frames_app a b : out_frames (a ++ b) = out_frames a ++ out_frames b.
Proof. unfold out_frames. apply flat_map_app. Qed.

Lemma out_frames_none evs : forallb (fun e => match e with ETx _ => false | _ => true end) evs = true -> out_frames evs = [].
Proof.
  induction evs as [|e r IH]; [reflexivity|]. cbn [forallb]. intros H. apply andb_true_iff in H. destruct H as [H1 H2].
  unfold out_frames. cbn [flat_map]. destruct e; try discriminate; apply IH; exact H2.
Qed.

Lemma tx_ok_no_frame evs : forallb tx_ev_ok evs = true -> out_frames evs = [].
Proof.
  intros H. apply out_frames_none. eapply forallb_impl; [|exact H]. intros [f|e|r b|x]; cbn; congruence.
Qed.

Lemma rx_ok_no_frame evs : forallb rx_ev_ok evs = true -> out_frames evs = [].
Proof.
  intros H. apply out_frames_none. eapply forallb_impl; [|exact H]. intros [f|e|r b|x]; cbn; congruence.
Qed.

Lemma mstep_out c s m : params_ok (c_p c) -> WF c s ->
  out_frames (snd (mstep c s m)) = match m with MTx => opt_list (tr_msg (process_tx c s)) | _ => [] end.
Proof.
  intros Hok Hwf. destruct m; cbn [mstep snd].
  - unfold check_timeouts_rx. destruct (timer_timed_out _ _); reflexivity.
  - apply rx_ok_no_frame, process_rx_evs.
  - reflexivity.
  - pose proof (process_tx_nocrash c s Hok Hwf) as Hc. unfold tx_events. rewrite Hc.
    rewrite out_frames_app, (tx_ok_no_frame _ (process_tx_evs c s Hc)).
    destruct (tr_msg (process_tx c s)); reflexivity.
  - reflexivity.
  - reflexivity.
  - apply tx_ok_no_frame, stop_sending_evs.
  - reflexivity.
  - unfold reset. pose proof (stop_sending_evs false (s <| rx_queue := [] |> <| tx_queue := [] |>)) as H.
    destruct (stop_sending false _) as [s1 evs]. cbn [snd] in *.
    rewrite out_frames_app, (tx_ok_no_frame _ H), app_nil_r. apply out_frames_none.
    induction (tx_queue s) as [|r q IHq]; [reflexivity|]. cbn. exact IHq.
  - reflexivity.
Qed.

Lemma filter_all {A} (f : A -> bool) l : Forall (fun x => f x = true) l -> filter f l = l.
Proof. induction 1 as [|x l Hx _ IH]; [reflexivity|]. cbn. rewrite Hx, IH. reflexivity. Qed.

Lemma zseq_app a n1 n2 : 0 <= a -> 0 <= n1 -> 0 <= n2 -> zseq a (n1 + n2) = zseq a n1 ++ zseq (a + n1) n2.
Proof.
  intros Ha H1 H2. unfold zseq. rewrite Z2Nat.inj_add by lia. rewrite seq_app, map_app.
  rewrite <- Z2Nat.inj_add by lia. reflexivity.
Qed.

(** *** one direction of traffic: sender [cS], receiver [cR] *)
Section Dir.
Variables cS cR : cfg.
Hypothesis HokS : params_ok (c_p cS).
Hypothesis Hlink : linked cS cR.

Let k := c_rx_prefix_size cR.

Lemma k_plen : k = zlen (c_tx_prefix cS).
Proof. apply linked_prefix. exact Hlink. Qed.

Definition dataf (f : frame) : bool := is_data k (f_data f).

Lemma dataf_data_frame f : data_frame cR f = dataf f.
Proof. reflexivity. Qed.

(** ghost history of the direction: data frames emitted by the sender, messages its send() accepted,
    position of the receiver (stream in progress, streams still to come), payloads its recv() returned *)
Record dg := { dW : list frame; dH : list msg; dcur : rcur; dS : script; dR : list (list Z) }.

Definition entry (m : msg) : list Z * list (list Z) := (m_p m, map f_data (m_seg cS m)).
Definition todo_of (cur : rcur) : list (list Z) := match cur with Some (_, t) => t | None => [] end.
Definition cur_p (cur : rcur) : list (list Z) := match cur with Some (p, _) => [p] | None => [] end.

Definition Dir (sS sR : layer) (ch : list frame) (g : dg) : Prop :=
  ST cS sS (dW g) (dH g) /\
  RT cR sR (dcur g) (rx_queue sR) /\
  script_ok cR (dS g) /\
  Forall (from_me cS) ch /\
  (exists U, dW g ++ U = concat (map (m_seg cS) (dH g)) /\
     todo_of (dcur g) ++ concat (map snd (dS g)) = map f_data (filter dataf ch ++ U)) /\
  dR g ++ rx_queue sR ++ cur_p (dcur g) ++ map fst (dS g) = map m_p (dH g).

(** the frames on the wire are a prefix of the reference segmentations of the accepted messages *)
Lemma part_prefix m j : is_single cS (m_n m) = false -> 1 <= j -> kpos cS m j < m_n m ->
  exists tl, m_seg cS m = part cS m j ++ tl.
Proof.
  intros Hs Hj Hk. pose proof (cf_cap_pos cS HokS) as Hc.
  assert (Hn : j - 1 <= n_cf cS (m_n m)).
  { unfold n_cf, kpos in *. apply Z.div_le_lower_bound; lia. }
  rewrite (seg_multi cS m Hs). unfold part.
  replace (n_cf cS (m_n m)) with ((j - 1) + (n_cf cS (m_n m) - (j - 1))) by lia.
  rewrite zseq_app by lia. rewrite map_app. eexists. cbn [app]. reflexivity.
Qed.

Lemma ST_prefix s W H : ST cS s W H -> exists U, W ++ U = concat (map (m_seg cS) H).
Proof.
  intros (done & pending & HH & Hall & Hst). subst H. rewrite map_app, concat_app.
  destruct (tx_state s).
  - destruct Hst as (_ & _ & _ & ->). eexists; reflexivity.
  - destruct Hst as (m & rest & j & -> & Hs & Hj & Hk & _ & _ & _ & _ & ->).
    destruct (part_prefix m j Hs Hj Hk) as [tl Htl]. cbn [map concat]. rewrite Htl.
    exists (tl ++ concat (map (m_seg cS) rest)). rewrite <- !app_assoc. reflexivity.
  - destruct Hst as (m & rest & j & -> & Hs & Hj & Hk & _ & _ & _ & _ & ->).
    destruct (part_prefix m j Hs Hj Hk) as [tl Htl]. cbn [map concat]. rewrite Htl.
    exists (tl ++ concat (map (m_seg cS) rest)). rewrite <- !app_assoc. reflexivity.
  - destruct Hst as (m & rest & f & _ & _ & _ & _ & ->). eexists; reflexivity.
  - destruct Hst as (m & rest & _ & _ & _ & _ & _ & _ & _ & ->). eexists; reflexivity.
Qed.

Lemma segs_props H : Forall m_ok H ->
  Forall (fun f => from_me cS f /\ dataf f = true) (concat (map (m_seg cS) H)).
Proof.
  induction 1 as [|m H Hm _ IH]; [constructor|]. cbn [map concat]. apply Forall_app. split; [|exact IH].
  pose proof (seg_from_me cS (m_t m) (m_p m)) as H1. pose proof (seg_data cS HokS (m_t m) (m_p m) Hm) as H2.
  unfold dataf. rewrite k_plen. unfold m_seg.
  revert H1 H2. generalize (seg cS (m_t m) (m_p m)). intros l H1 H2.
  induction l as [|f l IHl]; [constructor|]. inversion H1; inversion H2; subst. constructor; [split; assumption|apply IHl; assumption].
Qed.

(** a transmit pass that only answers with a Flow Control *)
Lemma fc_pass_msg s : tx_input cS s = None ->
  tr_msg (process_tx cS s) = None \/ exists st m, make_flow_control cS st = Some m /\ tr_msg (process_tx cS s) = Some m.
Proof.
  unfold tx_input, process_tx. destruct (pending_fc s); [|discriminate]. cbv zeta.
  destruct (negb (p_listen (c_p cS))); [|discriminate]. intros _.
  match goal with |- context [pending_fc_status ?x] => destruct (pending_fc_status x) as [st|] end; [|left; reflexivity].
  destruct (make_flow_control cS st) as [m|] eqn:Em; [|left; reflexivity].
  right. exists st, m. split; [exact Em|reflexivity].
Qed.

Definition send_fits (m : micro) : Prop :=
  match m with MSend _ size _ => size <= p_max_frame_size (c_p cR) | _ => True end.

Definition sent_payload (s : layer) (m : micro) : list (list Z) :=
  match m with
  | MSend g size t => match snd (send cS s g size t) with SendOk => [ztake size (g_items g)] | SendValueError => [] end
  | _ => []
  end.

Definition recv_payload (s : layer) (m : micro) : list (list Z) :=
  match m with
  | MRecv => match snd (recv s) with Some x => [x] | None => [] end
  | _ => []
  end.

(** data frames a micro-step of the sender adds to the wire *)
Definition xdata (sS : layer) (m : micro) : list frame := match m with MTx => pass_data cS sS | _ => [] end.

(** **** (a) any micro-step of the sender layer *)
Lemma Dir_sender sS sR ch g m :
  WF cS sS -> Dir sS sR ch g -> op_ok m -> send_fits m ->
  has_err (snd (mstep cS sS m)) = true \/
  exists g', Dir (fst (mstep cS sS m)) sR (ch ++ out_frames (snd (mstep cS sS m))) g' /\
    map m_p (dH g') = map m_p (dH g) ++ sent_payload sS m /\ dR g' = dR g /\
    dW g' = dW g ++ xdata sS m /\ filter dataf (ch ++ out_frames (snd (mstep cS sS m))) = filter dataf ch ++ xdata sS m.
Proof.
  intros Hwf (HST & HRT & HSc & Hch & (U & HU & Hflat) & Hpay) Hm Hfit.
  destruct (ST_step cS HokS sS (dW g) (dH g) m Hwf HST Hm) as [He|HST']; [left; exact He|right].
  rewrite (mstep_out cS sS m HokS Hwf).
  assert (Hsame : gW cS sS (dW g) m = dW g -> gH cS sS (dH g) m = dH g ->
            (match m with MTx => opt_list (tr_msg (process_tx cS sS)) | _ => [] end) = [] -> sent_payload sS m = [] ->
            exists g', Dir (fst (mstep cS sS m)) sR (ch ++ []) g' /\
              map m_p (dH g') = map m_p (dH g) ++ sent_payload sS m /\ dR g' = dR g /\
              dW g' = dW g ++ xdata sS m /\ filter dataf (ch ++ []) = filter dataf ch ++ xdata sS m).
  { intros E1 E2 E3 E4. rewrite E1, E2 in HST'. exists g. rewrite app_nil_r, E4, app_nil_r.
    assert (Ex : xdata sS m = []) by (destruct m; try reflexivity; unfold gW in E1; cbn [xdata]; apply (app_inv_head (dW g)); rewrite app_nil_r; exact E1).
    rewrite Ex, !app_nil_r.
    split; [|split; [reflexivity|split; [reflexivity|auto]]]. split; [exact HST'|]. split; [exact HRT|]. split; [exact HSc|]. split; [exact Hch|]. split; [|exact Hpay]. exists U. split; assumption. }
  destruct m; try (apply Hsame; reflexivity); try (destruct Hm; fail).
  - (* a transmit pass *)
    cbn [gW gH] in HST'. unfold pass_data in HST'.
    destruct (tx_input cS sS) as [s1|] eqn:Ei.
    + (* data frames *)
      set (nf := opt_list (tr_msg (process_tx cS sS))) in *.
      destruct (ST_prefix _ _ _ HST') as [U' HU'].
      assert (EU : U = nf ++ U').
      { apply (app_inv_head (dW g)). rewrite HU, <- HU', <- app_assoc. reflexivity. }
      assert (Hall : Forall m_ok (dH g)) by (destruct HST as (d0 & p0 & _ & Ha & _); exact Ha).
      pose proof (segs_props _ Hall) as Hprops. rewrite <- HU, EU in Hprops.
      apply Forall_app in Hprops. destruct Hprops as [_ Hprops]. apply Forall_app in Hprops. destruct Hprops as [Hnf _].
      assert (Hfil : filter dataf (ch ++ nf) = filter dataf ch ++ nf).
      { rewrite filter_app, (filter_all dataf nf); [reflexivity|]. eapply Forall_impl; [|exact Hnf]. intros f [_ Hf]; exact Hf. }
      exists {| dW := dW g ++ nf; dH := dH g; dcur := dcur g; dS := dS g; dR := dR g |}. cbn [sent_payload]. rewrite app_nil_r.
      assert (Exd : xdata sS MTx = nf) by (cbn [xdata]; unfold pass_data; rewrite Ei; reflexivity).
      split; [|split; [reflexivity|split; [reflexivity|rewrite Exd; split; [reflexivity|exact Hfil]]]]. unfold Dir. cbn [dW dH dcur dS dR].
      split; [exact HST'|]. split; [exact HRT|]. split; [exact HSc|].
      split; [apply Forall_app; split; [exact Hch|eapply Forall_impl; [|exact Hnf]; intros f [Hf _]; exact Hf]|].
      split; [|exact Hpay].
      exists U'. split; [exact HU'|]. rewrite Hflat, EU. f_equal.
      rewrite filter_app, (filter_all dataf nf), <- app_assoc; [reflexivity|].
      eapply Forall_impl; [|exact Hnf]. intros f [_ Hf]; exact Hf.
    + (* only a Flow Control (or nothing) *)
      rewrite app_nil_r in HST'.
      assert (Hg : forall fs, Forall (fun f => from_me cS f /\ dataf f = false) fs ->
                exists g', Dir (fst (mstep cS sS MTx)) sR (ch ++ fs) g' /\
                  map m_p (dH g') = map m_p (dH g) ++ sent_payload sS MTx /\ dR g' = dR g /\
                  dW g' = dW g ++ xdata sS MTx /\ filter dataf (ch ++ fs) = filter dataf ch ++ xdata sS MTx).
      { intros fs Hfs.
        assert (Hfil : filter dataf (ch ++ fs) = filter dataf ch ++ []).
        { rewrite filter_app. f_equal. clear -Hfs. induction Hfs as [|f l [_ Hf] _ IH]; [reflexivity|]. cbn. rewrite Hf. exact IH. }
        assert (Exd : xdata sS MTx = []) by (cbn [xdata]; unfold pass_data; rewrite Ei; reflexivity).
        exists g. cbn [sent_payload]. rewrite app_nil_r. split; [|split; [reflexivity|split; [reflexivity|rewrite Exd; split; [rewrite app_nil_r; reflexivity|exact Hfil]]]].
        split; [exact HST'|]. split; [exact HRT|]. split; [exact HSc|].
        split; [apply Forall_app; split; [exact Hch|eapply Forall_impl; [|exact Hfs]; intros f [Hf _]; exact Hf]|].
        split; [|exact Hpay]. exists U. split; [exact HU|]. rewrite Hflat. f_equal. f_equal.
        rewrite filter_app. replace (filter dataf fs) with (@nil frame); [rewrite app_nil_r; reflexivity|].
        clear -Hfs. induction Hfs as [|f l [_ Hf] _ IH]; [reflexivity|]. cbn. rewrite Hf. exact IH. }
      destruct (fc_pass_msg sS Ei) as [En|(st & fm & Hmk & En)]; rewrite En; cbn [opt_list].
      * apply Hg. constructor.
      * apply Hg. constructor; [|constructor]. split; [exact (fc_from_me cS HokS st fm Hmk)|].
        unfold dataf. rewrite k_plen. exact (fc_not_data cS HokS st fm Hmk).
  - (* send() *)
    cbn [gW gH] in HST'. cbn [sent_payload]. destruct Hm as [Hfill Hsize]. cbn [send_fits] in Hfit.
    destruct (snd (send cS sS g0 size t)) eqn:Esend.
    2: { exists g. cbn [xdata]. rewrite !app_nil_r. split; [|split; [reflexivity|split; [reflexivity|auto]]]. split; [exact HST'|]. split; [exact HRT|]. split; [exact HSc|]. split; [exact Hch|]. split; [|exact Hpay]. exists U. split; assumption. }
    set (mk := send_msg cS sS g0 size t) in *.
    assert (Hmp : m_p mk = ztake size (g_items g0)) by reflexivity.
    assert (Hmn : m_n mk = size) by (unfold m_n; rewrite Hmp, zlen_ztake by lia; lia).
    assert (Hmok : m_ok mk).
    { destruct HST' as (d0 & p0 & _ & Ha & _). apply Forall_app in Ha. destruct Ha as [_ Ha]. inversion Ha; assumption. }
    exists {| dW := dW g; dH := dH g ++ [mk]; dcur := dcur g; dS := dS g ++ [entry mk]; dR := dR g |}.
    rewrite app_nil_r. cbn [dW dH dcur dS dR]. rewrite map_app. cbn [map]. rewrite Hmp.
    cbn [xdata]. rewrite !app_nil_r. split; [|split; [reflexivity|split; [reflexivity|auto]]]. unfold Dir. cbn [dW dH dcur dS dR].
    split; [exact HST'|].
    split; [exact HRT|].
    split. { apply Forall_app. split; [exact HSc|]. constructor; [|constructor]. cbn [entry fst snd]. split.
             - change (c_rx_prefix_size cR) with k. rewrite k_plen. apply (seg_wf cS HokS). exact Hmok.
             - fold (m_n mk). rewrite Hmn. exact Hfit. }
    split; [exact Hch|].
    split.
    + exists (U ++ m_seg cS mk). split.
      * rewrite app_assoc, HU, map_app, concat_app. cbn [map concat]. rewrite app_nil_r. reflexivity.
      * rewrite map_app, concat_app. cbn [map concat entry snd]. rewrite app_nil_r, app_assoc, Hflat.
        rewrite <- map_app, <- app_assoc. reflexivity.
    + rewrite !map_app. cbn [map entry fst]. rewrite !app_assoc. f_equal. rewrite <- !app_assoc. exact Hpay.
Qed.

(** **** (c) a micro-step of the receiver layer other than the processing of a frame *)
Definition not_rx (m : micro) : Prop := match m with MRx _ => False | _ => True end.

Lemma Dir_receiver sS sR ch g m :
  Dir sS sR ch g -> op_ok m -> not_rx m ->
  has_err (snd (mstep cR sR m)) = true \/
  exists g', Dir sS (fst (mstep cR sR m)) ch g' /\ dH g' = dH g /\ dR g' = dR g ++ recv_payload sR m /\ dW g' = dW g.
Proof.
  intros (HST & HRT & HSc & Hch & HU & Hpay) Hm Hnr.
  assert (Hkeep : op_okR m -> recv_payload sR m = [] ->
            has_err (snd (mstep cR sR m)) = true \/
            exists g', Dir sS (fst (mstep cR sR m)) ch g' /\ dH g' = dH g /\ dR g' = dR g ++ recv_payload sR m /\ dW g' = dW g).
  { intros Hr Hnp.
    assert (Hon : on_script cR (dcur g, dS g, rx_queue sR) m) by (destruct m; cbn; auto; destruct Hnr).
    destruct (RT_step cR sR (dcur g) (dS g) (rx_queue sR) m HSc HRT Hr Hon) as [He|Hs]; [left; exact He|right].
    assert (Hg : gR cR (dcur g, dS g, rx_queue sR) m = (dcur g, dS g, rx_queue sR)) by (destruct m; try reflexivity; destruct Hnr).
    rewrite Hg in Hs. destruct Hs as [HRT' HSc'].
    exists g. rewrite Hnp, app_nil_r. split; [|split; [reflexivity|split; reflexivity]].
    pose proof HRT' as [HQ _].
    split; [exact HST|]. split; [rewrite HQ; exact HRT'|]. split; [exact HSc'|]. split; [exact Hch|]. split; [exact HU|].
    rewrite HQ. exact Hpay. }
  destruct m; try (apply Hkeep; [exact I|reflexivity]); try (destruct Hm; fail); try (destruct Hnr; fail).
  (* recv() *)
  right. cbn [mstep fst snd recv_payload]. unfold recv.
  destruct (rx_queue sR) as [|x q] eqn:Eq.
  - exists g. cbn [fst snd]. rewrite app_nil_r. split; [|split; [reflexivity|split; reflexivity]].
    split; [exact HST|]. split; [rewrite Eq; exact HRT|]. split; [exact HSc|]. split; [exact Hch|]. split; [exact HU|].
    rewrite Eq; exact Hpay.
  - exists {| dW := dW g; dH := dH g; dcur := dcur g; dS := dS g; dR := dR g ++ [x] |}. cbn [fst snd dW dH dcur dS dR].
    split; [|split; [reflexivity|split; reflexivity]]. unfold Dir. cbn [dW dH dcur dS dR rx_queue set RecordSet.set].
    split; [exact HST|].
    split. { destruct HRT as [_ HR]. split; [reflexivity|]. destruct (dcur g) as [[p todo]|]; exact HR. }
    split; [exact HSc|]. split; [exact Hch|]. split; [exact HU|].
    rewrite <- Hpay, <- !app_assoc. reflexivity.
Qed.

(** **** (d) the receiver processes the oldest frame in flight *)
Lemma advance_spec cur S d tl :
  (forall p, cur <> Some (p, [])) -> Forall (fun e => snd e <> []) S ->
  todo_of cur ++ concat (map snd S) = d :: tl ->
  expected cur S = Some d /\
  todo_of (fst (fst (advance cur S))) ++ concat (map snd (snd (fst (advance cur S)))) = tl /\
  snd (advance cur S) ++ cur_p (fst (fst (advance cur S))) ++ map fst (snd (fst (advance cur S))) = cur_p cur ++ map fst S.
Proof.
  intros Hcur HS Hflat. destruct cur as [[p todo]|].
  - destruct todo as [|d0 todo']; [exfalso; exact (Hcur p eq_refl)|].
    cbn [todo_of app] in Hflat. injection Hflat as -> Htl. cbn [expected]. split; [reflexivity|].
    destruct todo' as [|d1 todo'']; cbn [advance fst snd todo_of cur_p app]; split; try exact Htl; reflexivity.
  - destruct S as [|[p fs] S']; [discriminate|]. inversion HS as [|? ? Hne HS']; subst. cbn [snd] in Hne.
    destruct fs as [|d0 fs']; [congruence|]. cbn [todo_of map concat snd app] in Hflat. injection Hflat as -> Htl.
    cbn [expected]. split; [reflexivity|].
    destruct fs' as [|d1 fs'']; cbn [advance fst snd todo_of cur_p app map]; split; try exact Htl; reflexivity.
Qed.

Lemma script_nonempty S : script_ok cR S -> Forall (fun e => snd e <> []) S.
Proof. intros H. eapply Forall_impl; [|exact H]. intros e [Hw _]. exact (wf_stream_nonempty _ _ _ Hw). Qed.

Lemma RT_cur_nonempty s cur D : RT cR s cur D -> forall p, cur <> Some (p, []).
Proof.
  intros [_ HR] p E. subst cur. destruct HR as (T & j & rest & _ & Hcfs & _). destruct (wf_cfs_cons _ _ _ _ _ Hcfs) as (d & tl & E). discriminate.
Qed.

Lemma Dir_pop sS sR f ch g :
  Dir sS sR (f :: ch) g ->
  c_is_for_me cR f = true /\
  (has_err (snd (mstep cR sR (MRx f))) = true \/
   exists g', Dir sS (fst (mstep cR sR (MRx f))) ch g' /\ dH g' = dH g /\ dR g' = dR g /\ dW g' = dW g).
Proof.
  intros (HST & HRT & HSc & Hch & (U & HU & Hflat) & Hpay).
  inversion Hch as [|? ? Hf Hch']; subst.
  split; [exact (linked_for_me cS cR f Hlink Hf)|].
  cbn [filter] in Hflat.
  destruct (dataf f) eqn:Edf.
  - (* a data frame: the one the receiver expects *)
    cbn [app map] in Hflat.
    destruct (advance_spec (dcur g) (dS g) (f_data f) _ (RT_cur_nonempty _ _ _ HRT) (script_nonempty _ HSc) Hflat) as (Hexp & Htl & Hp).
    assert (Hon : on_script cR (dcur g, dS g, rx_queue sR) (MRx f)) by (intros _; exact Hexp).
    destruct (RT_step cR sR (dcur g) (dS g) (rx_queue sR) (MRx f) HSc HRT I Hon) as [He|Hs]; [left; exact He|right].
    cbn [gR] in Hs. rewrite dataf_data_frame, Edf in Hs.
    destruct (advance (dcur g) (dS g)) as [[cur' S'] out] eqn:Ea. cbn [fst snd] in *. destruct Hs as [HRT' HSc'].
    pose proof HRT' as [HQ _].
    exists {| dW := dW g; dH := dH g; dcur := cur'; dS := S'; dR := dR g |}. cbn [dW dH dcur dS dR].
    split; [|split; [reflexivity|split; reflexivity]]. unfold Dir. cbn [dW dH dcur dS dR].
    split; [exact HST|]. split; [rewrite HQ; exact HRT'|]. split; [exact HSc'|]. split; [exact Hch'|].
    split; [exists U; split; [exact HU|exact Htl]|].
    rewrite HQ, <- Hpay, <- Hp, <- !app_assoc. reflexivity.
  - (* a Flow Control (or undecodable) frame: not part of this direction's data *)
    assert (Hon : on_script cR (dcur g, dS g, rx_queue sR) (MRx f)) by (intros E; rewrite dataf_data_frame, Edf in E; discriminate).
    destruct (RT_step cR sR (dcur g) (dS g) (rx_queue sR) (MRx f) HSc HRT I Hon) as [He|Hs]; [left; exact He|right].
    cbn [gR] in Hs. rewrite dataf_data_frame, Edf in Hs. destruct Hs as [HRT' HSc'].
    pose proof HRT' as [HQ _].
    exists g. split; [|split; [reflexivity|split; reflexivity]].
    split; [exact HST|]. split; [rewrite HQ; exact HRT'|]. split; [exact HSc'|]. split; [exact Hch'|].
    split; [exists U; split; [exact HU|exact Hflat]|].
    rewrite HQ. exact Hpay.
Qed.

Lemma Dir_ST sS sR ch g : Dir sS sR ch g -> ST cS sS (dW g) (dH g).
Proof. intros (H & _). exact H. Qed.

(** the oldest data frame in flight is the one the receiver's script expects *)
Lemma Dir_expected sS sR f ch g : Dir sS sR (f :: ch) g -> dataf f = true ->
  script_ok cR (dS g) /\ RT cR sR (dcur g) (rx_queue sR) /\ expected (dcur g) (dS g) = Some (f_data f).
Proof.
  intros (HST & HRT & HSc & Hch & (U & HU & Hflat) & Hpay) Edf.
  cbn [filter] in Hflat. rewrite Edf in Hflat. cbn [app map] in Hflat.
  destruct (advance_spec (dcur g) (dS g) (f_data f) _ (RT_cur_nonempty _ _ _ HRT) (script_nonempty _ HSc) Hflat) as (Hexp & _).
  auto.
Qed.

(** **** at rest everything has arrived *)
Lemma Dir_rest sS sR g :
  Dir sS sR [] g -> tx_state sS = TxIdle -> tx_queue sS = [] -> rx_state sR = RxIdle ->
  dR g ++ rx_queue sR = map m_p (dH g).
Proof.
  intros (HST & HRT & HSc & _ & (U & HU & Hflat) & Hpay) Htx Hq Hrx.
  destruct HST as (done & pending & HH & Hall & Hst). rewrite Htx in Hst. destruct Hst as (_ & _ & Hq' & HW).
  rewrite Hq in Hq'. destruct pending; [|discriminate]. rewrite app_nil_r in HH. subst done.
  rewrite HW in HU. assert (EU : U = []).
  { apply (app_inv_head (concat (map (m_seg cS) (dH g)))). rewrite app_nil_r. exact HU. }
  subst U. cbn [filter app map] in Hflat.
  destruct HRT as [_ HR]. destruct (dcur g) as [[p todo]|] eqn:Ec.
  { destruct HR as (T & j & rest & _ & _ & _ & Hst & _). congruence. }
  cbn [todo_of app] in Hflat.
  assert (ES : dS g = []).
  { pose proof (script_nonempty _ HSc) as Hne. destruct (dS g) as [|[p fs] S']; [reflexivity|].
    inversion Hne as [|? ? Hn _]; subst. cbn [snd] in Hn. cbn [map concat snd] in Hflat.
    destruct fs; [congruence|discriminate]. }
  rewrite ES in Hpay. cbn [cur_p map app] in Hpay. rewrite !app_nil_r in Hpay. exact Hpay.
Qed.

Lemma Dir_prefix sS sR ch g : Dir sS sR ch g -> exists tl, map m_p (dH g) = (dR g ++ rx_queue sR) ++ tl.
Proof.
  intros (_ & _ & _ & _ & _ & Hpay). exists (cur_p (dcur g) ++ map fst (dS g)). rewrite <- Hpay, <- !app_assoc. reflexivity.
Qed.

Lemma Dir_init ta tb : Dir (init_layer cS ta) (init_layer cR tb) [] {| dW := []; dH := []; dcur := None; dS := []; dR := [] |}.
Proof.
  split; [apply ST_init|]. split; [split; reflexivity|]. split; [constructor|]. split; [constructor|].
  split; [exists []; split; reflexivity|reflexivity].
Qed.

End Dir.

(** *** observations of a joint run *)
Lemma sent_of_app sd a b : sent_of sd (a ++ b) = sent_of sd a ++ sent_of sd b.
Proof. apply flat_map_app. Qed.
Lemma recv_of_app sd a b : recv_of sd (a ++ b) = recv_of sd a ++ recv_of sd b.
Proof. apply flat_map_app. Qed.
Lemma jerr_app a b : jerr (a ++ b) = jerr a || jerr b.
Proof. apply existsb_app. Qed.

Lemma sent_of_events sd x evs : sent_of sd (map (JE x) evs) = [].
Proof. induction evs as [|e r IH]; [reflexivity|]. cbn. exact IH. Qed.
Lemma recv_of_events sd x evs : recv_of sd (map (JE x) evs) = [].
Proof. induction evs as [|e r IH]; [reflexivity|]. cbn. exact IH. Qed.
Lemma jerr_events x evs : jerr (map (JE x) evs) = has_err evs.
Proof. induction evs as [|e r IH]; [reflexivity|]. unfold jerr, has_err in *. cbn [map existsb]. rewrite IH. destruct e; reflexivity. Qed.

Lemma sent_of_obs sd x c s m :
  sent_of sd (user_obs x c s m) = if side_eqb x sd then sent_payload c s m else [].
Proof.
  destruct m; cbn; try (destruct (side_eqb x sd); reflexivity).
  - destruct (snd (send c s g size t)); cbn; [rewrite app_nil_r|]; destruct (side_eqb x sd); reflexivity.
  - destruct (snd (recv s)); cbn; destruct (side_eqb x sd); reflexivity.
Qed.

Lemma recv_of_obs sd x c s m :
  recv_of sd (user_obs x c s m) = if side_eqb x sd then recv_payload s m else [].
Proof.
  destruct m; cbn; try (destruct (side_eqb x sd); reflexivity).
  - destruct (snd (send c s g size t)); cbn; destruct (side_eqb x sd); reflexivity.
  - destruct (snd (recv s)); cbn; [rewrite app_nil_r|]; destruct (side_eqb x sd); reflexivity.
Qed.

Lemma jerr_obs x c s m : jerr (user_obs x c s m) = false.
Proof.
  destruct m; try reflexivity; cbn.
  - destruct (snd (send c s g size t)); reflexivity.
  - destruct (snd (recv s)); reflexivity.
Qed.

(** *** both directions at once *)
Section JointInv.
Variables ca cb : cfg.
Hypothesis Hoka : params_ok (c_p ca).
Hypothesis Hokb : params_ok (c_p cb).
Hypothesis Hab : linked ca cb.
Hypothesis Hba : linked cb ca.

Definition JInv (n : net) (gab gba : dg) : Prop :=
  WF ca (nA n) /\ WF cb (nB n) /\
  Dir ca cb (nA n) (nB n) (inB n) gab /\ Dir cb ca (nB n) (nA n) (inA n) gba.

Definition Obs (tr : list jev) (gab gba : dg) : Prop :=
  sent_of SA tr = map m_p (dH gab) /\ recv_of SB tr = dR gab /\
  sent_of SB tr = map m_p (dH gba) /\ recv_of SA tr = dR gba.

(** joint steps considered: any micro-step of either side except stop_sending() / stop_receiving() /
    reset() (which abort transfers by design) and except frames injected from outside the link; send()
    with a finite generator yielding at least [size] >= 1 values, [size] within the peer's max_frame_size *)
Definition jop_ok (o : jop) : Prop :=
  match o with
  | JStep sd m => op_ok m /\ not_rx m /\ send_fits (cfg_of ca cb (other sd)) m
  | JPop _ => True
  end.

Lemma jstep_inv n gab gba tr0 o :
  JInv n gab gba -> Obs tr0 gab gba -> jop_ok o ->
  jerr (snd (jstep ca cb n o)) = true \/
  exists gab' gba', JInv (fst (jstep ca cb n o)) gab' gba' /\ Obs (tr0 ++ snd (jstep ca cb n o)) gab' gba'.
Proof.
  intros (Hwa & Hwb & Dab & Dba) (O1 & O2 & O3 & O4) Hop.
  destruct o as [[|] m|[|]]; cbn [jstep cfg_of lay inbox].
  - (* a micro-step of A *)
    destruct Hop as (Hm & Hnr & Hfit). cbn [other cfg_of] in Hfit.
    pose proof (Dir_sender ca cb Hoka Hab (nA n) (nB n) (inB n) gab m Hwa Dab Hm Hfit) as HS.
    pose proof (Dir_receiver cb ca (nB n) (nA n) (inA n) gba m Dba Hm Hnr) as HR.
    pose proof (WF_mstep ca (nA n) m Hwa) as Hw'.
    destruct (mstep ca (nA n) m) as [s' evs]. cbn [fst snd] in *.
    rewrite jerr_app, jerr_events, jerr_obs, orb_false_r.
    destruct HS as [He|(gab' & Dab' & EH & ER & _)]; [left; exact He|].
    destruct HR as [He|(gba' & Dba' & EH' & ER' & _)]; [left; exact He|].
    right. exists gab', gba'. cbn [fst snd push_out set_lay set_inbox inbox other nA nB inA inB]. split; [split; [|split; [|split]]; assumption|].
    unfold Obs. rewrite !sent_of_app, !recv_of_app, !sent_of_events, !recv_of_events, !sent_of_obs, !recv_of_obs. cbn [side_eqb app].
    rewrite !app_nil_r. repeat split; congruence.
  - (* a micro-step of B *)
    destruct Hop as (Hm & Hnr & Hfit). cbn [other cfg_of] in Hfit.
    pose proof (Dir_sender cb ca Hokb Hba (nB n) (nA n) (inA n) gba m Hwb Dba Hm Hfit) as HS.
    pose proof (Dir_receiver ca cb (nA n) (nB n) (inB n) gab m Dab Hm Hnr) as HR.
    pose proof (WF_mstep cb (nB n) m Hwb) as Hw'.
    destruct (mstep cb (nB n) m) as [s' evs]. cbn [fst snd] in *.
    rewrite jerr_app, jerr_events, jerr_obs, orb_false_r.
    destruct HS as [He|(gba' & Dba' & EH & ER & _)]; [left; exact He|].
    destruct HR as [He|(gab' & Dab' & EH' & ER' & _)]; [left; exact He|].
    right. exists gab', gba'. cbn [fst snd push_out set_lay set_inbox inbox other nA nB inA inB]. split; [split; [|split; [|split]]; assumption|].
    unfold Obs. rewrite !sent_of_app, !recv_of_app, !sent_of_events, !recv_of_events, !sent_of_obs, !recv_of_obs. cbn [side_eqb app].
    rewrite !app_nil_r. repeat split; congruence.
  - (* A's reception loop takes a frame *)
    destruct (inA n) as [|f rest] eqn:Ein.
    { right. exists gab, gba. cbn [fst snd]. rewrite app_nil_r. split; [split; [|split; [|split]]; try assumption; rewrite Ein; exact Dba|repeat split; assumption]. }
    destruct (Dir_pop cb ca Hba (nB n) (nA n) f rest gba Dba) as [Hfor HR]. rewrite Hfor.
    pose proof (Dir_sender ca cb Hoka Hab (nA n) (nB n) (inB n) gab (MRx f) Hwa Dab I I) as HS.
    rewrite (mstep_out ca (nA n) (MRx f) Hoka Hwa), app_nil_r in HS.
    pose proof (WF_mstep ca (nA n) (MRx f) Hwa) as Hw'.
    destruct (mstep ca (nA n) (MRx f)) as [s' evs]. cbn [fst snd] in *.
    rewrite jerr_events.
    destruct HS as [He|(gab' & Dab' & EH & ER & _)]; [left; exact He|].
    destruct HR as [He|(gba' & Dba' & EH' & ER' & _)]; [left; exact He|].
    right. exists gab', gba'. cbn [fst snd push_out set_lay set_inbox inbox other nA nB inA inB]. split; [split; [|split; [|split]]; assumption|].
    unfold Obs. rewrite !sent_of_app, !recv_of_app, !sent_of_events, !recv_of_events, !app_nil_r.
    cbn [sent_payload] in EH. rewrite app_nil_r in EH. repeat split; congruence.
  - (* B's reception loop takes a frame *)
    destruct (inB n) as [|f rest] eqn:Ein.
    { right. exists gab, gba. cbn [fst snd]. rewrite app_nil_r. split; [split; [|split; [|split]]; try assumption; rewrite Ein; exact Dab|repeat split; assumption]. }
    destruct (Dir_pop ca cb Hab (nA n) (nB n) f rest gab Dab) as [Hfor HR]. rewrite Hfor.
    pose proof (Dir_sender cb ca Hokb Hba (nB n) (nA n) (inA n) gba (MRx f) Hwb Dba I I) as HS.
    rewrite (mstep_out cb (nB n) (MRx f) Hokb Hwb), app_nil_r in HS.
    pose proof (WF_mstep cb (nB n) (MRx f) Hwb) as Hw'.
    destruct (mstep cb (nB n) (MRx f)) as [s' evs]. cbn [fst snd] in *.
    rewrite jerr_events.
    destruct HS as [He|(gba' & Dba' & EH & ER & _)]; [left; exact He|].
    destruct HR as [He|(gab' & Dab' & EH' & ER' & _)]; [left; exact He|].
    right. exists gab', gba'. cbn [fst snd push_out set_lay set_inbox inbox other nA nB inA inB]. split; [split; [|split; [|split]]; assumption|].
    unfold Obs. rewrite !sent_of_app, !recv_of_app, !sent_of_events, !recv_of_events, !app_nil_r.
    cbn [sent_payload] in EH. rewrite app_nil_r in EH. repeat split; congruence.
Qed.

Theorem jrun_inv : forall ops n gab gba tr0,
  JInv n gab gba -> Obs tr0 gab gba -> Forall jop_ok ops ->
  jerr (snd (jrun ca cb n ops)) = true \/
  exists gab' gba', JInv (fst (jrun ca cb n ops)) gab' gba' /\ Obs (tr0 ++ snd (jrun ca cb n ops)) gab' gba'.
Proof.
  induction ops as [|o rest IH]; intros n gab gba tr0 HI HO Hops; cbn [jrun].
  - right. exists gab, gba. cbn [fst snd]. rewrite app_nil_r. split; assumption.
  - inversion Hops as [|? ? Ho Hrest]; subst.
    pose proof (jstep_inv n gab gba tr0 o HI HO Ho) as Hs.
    destruct (jstep ca cb n o) as [n1 e1]. cbn [fst snd] in Hs.
    destruct Hs as [He|(gab1 & gba1 & HI1 & HO1)].
    { left. destruct (jrun ca cb n1 rest) as [n2 e2]. cbn [snd]. rewrite jerr_app, He. reflexivity. }
    specialize (IH n1 gab1 gba1 (tr0 ++ e1) HI1 HO1 Hrest).
    destruct (jrun ca cb n1 rest) as [n2 e2]. cbn [fst snd] in *.
    destruct IH as [He|(gab2 & gba2 & HI2 & HO2)].
    + left. rewrite jerr_app, He. apply orb_true_r.
    + right. exists gab2, gba2. split; [exact HI2|]. rewrite app_assoc. exact HO2.
Qed.

Definition g0 : dg := {| dW := []; dH := []; dcur := None; dS := []; dR := [] |}.

Lemma JInv_init ta tb : JInv (init_net ca cb ta tb) g0 g0.
Proof.
  split; [apply WF_init|]. split; [apply WF_init|]. split; apply Dir_init.
Qed.

(** at rest: nothing in flight, both transmitters idle with empty queues, both receivers idle *)
Definition at_rest (n : net) : Prop :=
  inA n = [] /\ inB n = [] /\
  tx_state (nA n) = TxIdle /\ tx_queue (nA n) = [] /\ rx_state (nA n) = RxIdle /\
  tx_state (nB n) = TxIdle /\ tx_queue (nB n) = [] /\ rx_state (nB n) = RxIdle.

(** Every interleaving.  From the initial state, after any list of joint steps and as long as no error
    has been reported on either side: what recv() returned on B followed by what waits in B's reception
    queue is a prefix of what send() accepted on A, and conversely; at rest it is all of it. *)
Theorem joint_transfer ta tb ops : Forall jop_ok ops ->
  let n := fst (jrun ca cb (init_net ca cb ta tb) ops) in
  let tr := snd (jrun ca cb (init_net ca cb ta tb) ops) in
  jerr tr = true \/
  ((exists later, sent_of SA tr = (recv_of SB tr ++ rx_queue (nB n)) ++ later) /\
   (exists later, sent_of SB tr = (recv_of SA tr ++ rx_queue (nA n)) ++ later) /\
   (at_rest n -> sent_of SA tr = recv_of SB tr ++ rx_queue (nB n) /\
                 sent_of SB tr = recv_of SA tr ++ rx_queue (nA n))).
Proof.
  intros Hops n tr. subst n tr.
  assert (HO0 : Obs [] g0 g0) by (repeat split).
  destruct (jrun_inv ops _ g0 g0 [] (JInv_init ta tb) HO0 Hops) as [He|(gab & gba & (Hwa & Hwb & Dab & Dba) & (O1 & O2 & O3 & O4))]; [left; exact He|right].
  cbn [app] in *.
  split; [|split].
  - destruct (Dir_prefix ca cb _ _ _ _ Dab) as [tl Htl]. exists tl. rewrite O1, O2. exact Htl.
  - destruct (Dir_prefix cb ca _ _ _ _ Dba) as [tl Htl]. exists tl. rewrite O3, O4. exact Htl.
  - intros (Ea & Eb & A1 & A2 & A3 & B1 & B2 & B3). rewrite Eb in Dab. rewrite Ea in Dba.
    rewrite O1, O2, O3, O4. split; symmetry.
    + exact (Dir_rest ca cb _ _ _ Dab A1 A2 B3).
    + exact (Dir_rest cb ca _ _ _ Dba B1 B2 A3).
Qed.

End JointInv.
