(** C17 laziness, pass level: a transmit pass that has to wait (separation time not elapsed, or
    the rate limiter does not allow the next frame) pulls nothing from the generator and changes
    nothing; a pass that emits a Consecutive Frame has pulled exactly the bytes that frame carries. *)
From IsoTp Require Import Base.Prelude Model.Layer Proofs.Inv.

Theorem cf_waits_no_pull c a s evs rbs r :
  remote_bs s = Some rbs -> active s = Some r ->
  timer_timed_out (now s) (timer_tx_stmin s) = false \/
  a < Z.min (p_tx_dl (c_p c) - 1 - zlen (c_tx_prefix c)) (r_remaining r) ->
  tx_cf c a s evs = mk_tr s evs None false.
Proof.
  intros Hrb Hact Hwait. unfold tx_cf. rewrite Hrb, Hact.
  destruct (timer_timed_out _ _) eqn:Et; [|reflexivity].
  destruct Hwait as [H|H]; [discriminate|].
  destruct (Z.leb_spec (Z.min (p_tx_dl (c_p c) - 1 - zlen (c_tx_prefix c)) (r_remaining r)) a); [lia|reflexivity].
Qed.

Theorem cf_pulls_what_it_sends c a s evs rbs r m :
  remote_bs s = Some rbs -> active s = Some r -> tr_msg (tx_cf c a s evs) = Some m ->
  exists payload r',
    consume (Z.min (p_tx_dl (c_p c) - 1 - zlen (c_tx_prefix c)) (r_remaining r)) false r = (Some payload, r') /\
    r_consumed r' = r_consumed r + zlen payload /\ 1 <= zlen payload <= p_tx_dl (c_p c) - 1 - zlen (c_tx_prefix c) /\
    make_tx_msg c (c_tx_id c Physical) (c_tx_prefix c ++ [Z.lor 0x20 (tx_seqnum s)] ++ payload) = Some m.
Proof.
  intros Hrb Hact. unfold tx_cf. rewrite Hrb, Hact.
  destruct (timer_timed_out _ _); [|unfold tx_finish; discriminate].
  destruct (_ <=? a); [|unfold tx_finish; discriminate].
  set (n := Z.min _ _).
  pose proof (consume_facts n false r) as Hcf.
  destruct (consume n false r) as [[payload|] r'] eqn:Ec; [|discriminate].
  specialize (Hcf _ _ eq_refl). destruct Hcf as (_ & _ & _ & _ & Hcf). destruct (Hcf payload eq_refl) as (H1 & _ & H3 & _).
  destruct (Z.ltb_spec 0 (zlen payload)) as [Hpos|Hz].
  - destruct (make_tx_msg _ _ _) as [mm|] eqn:Em; [|discriminate].
    assert (Hmsg : forall X : tx_report, tr_msg X = Some mm -> forall m0, tr_msg X = Some m0 -> m0 = mm) by (intros X H m0 H0; congruence).
    intros Hm. exists payload, r'. split; [reflexivity|]. split; [exact H1|]. split; [subst n; lia|].
    cbn [tx_seqnum set RecordSet.set] in Em. rewrite Em. f_equal.
    revert Hm. destruct (r_is_depleted r').
    + destruct (0 <? r_remaining r'); unfold stop_sending, tx_finish; cbv beta iota; cbn [tr_msg mk_tr]; congruence.
    + destruct (negb (rbs =? 0) && _); unfold tx_finish; cbn [tr_msg mk_tr]; congruence.
  - destruct (r_is_depleted r').
    + destruct (0 <? r_remaining r'); unfold stop_sending, tx_finish; cbv beta iota; cbn; discriminate.
    + destruct (negb (rbs =? 0) && _); unfold tx_finish; cbn; discriminate.
Qed.
