(** C02 / C01 at run level for the cooperative peer: a multi-frame request, driven with
    ContinueToSend whenever the sender waits for one and with enough time between passes, emits
    exactly the Consecutive Frames of the reference segmentation, in order, and completes. *)
From IsoTp Require Import Base.Prelude Model.Layer Spec.ConfigSpec Spec.Segment Proofs.Inv Proofs.LocalP Proofs.TxP Proofs.SegP.

(** fields of the state after a Consecutive Frame pass that the next pass depends on *)
Lemma tx_cf_after c a s evs m : tx_state s = TxTransmitCF -> tr_msg (tx_cf c a s evs) = Some m ->
  now (tr_s (tx_cf c a s evs)) = now s /\
  (tx_state (tr_s (tx_cf c a s evs)) = TxTransmitCF ->
     remote_bs (tr_s (tx_cf c a s evs)) = remote_bs s /\
     t_start (timer_tx_stmin (tr_s (tx_cf c a s evs))) = Some (now s) /\
     t_timeout (timer_tx_stmin (tr_s (tx_cf c a s evs))) = t_timeout (timer_tx_stmin s)) /\
  (tx_state (tr_s (tx_cf c a s evs)) = TxWaitFC ->
     t_start (timer_rx_fc (tr_s (tx_cf c a s evs))) = Some (now s) /\
     t_timeout (timer_rx_fc (tr_s (tx_cf c a s evs))) = p_tbs_ns (c_p c)).
Proof.
  assert (Hli : forall p n s0, now (lim_inform p n s0) = now s0 /\ tx_state (lim_inform p n s0) = tx_state s0 /\
                               timer_tx_stmin (lim_inform p n s0) = timer_tx_stmin s0 /\
                               timer_rx_fc (lim_inform p n s0) = timer_rx_fc s0 /\ remote_bs (lim_inform p n s0) = remote_bs s0).
  { intros p n s0. unfold lim_inform. destruct (negb (p_lim_enable p)); [auto 10|].
    destruct (lim_times s0); [cbn; auto 10|]. destruct (SLOT_NS <? _); cbn; auto 10. }
  intros Hst. unfold tx_cf. destruct (remote_bs s) as [rbs|] eqn:Erb; [|discriminate]. destruct (active s) as [r|]; [|discriminate].
  destruct (timer_timed_out _ _); [|unfold tx_finish; discriminate].
  destruct (_ <=? a); [|unfold tx_finish; discriminate].
  destruct (consume _ false r) as [[payload|] r']; [|discriminate].
  destruct (0 <? zlen payload).
  - destruct (make_tx_msg _ _ _) as [mm|]; [|discriminate].
    destruct (r_is_depleted r').
    + destruct (0 <? r_remaining r'); unfold stop_sending, tx_finish; cbv beta iota; cbn [tr_msg tr_s mk_tr]; intros _;
        match goal with |- context [lim_inform ?p ?n ?s0] => destruct (Hli p n s0) as (N1 & N2 & N3 & N4 & N5) end;
        rewrite N1, N2; cbn; (split; [reflexivity|]); split; intros H; discriminate.
    + destruct (negb (rbs =? 0) && _); unfold tx_finish; cbn [tr_msg tr_s mk_tr]; intros _;
        match goal with |- context [lim_inform ?p ?n ?s0] => destruct (Hli p n s0) as (N1 & N2 & N3 & N4 & N5) end;
        rewrite N1, N2, N3, N4, N5; cbn; rewrite ?Erb, ?Hst; (split; [reflexivity|]); split; intros H; try discriminate; auto.
  - destruct (r_is_depleted r').
    + destruct (0 <? r_remaining r'); unfold stop_sending, tx_finish; cbv beta iota; cbn; discriminate.
    + destruct (negb (rbs =? 0) && _); unfold tx_finish; cbn; discriminate.
Qed.

(** an accepted ContinueToSend keeps the request and its position *)
Lemma cts_keeps c s fc : fc_status fc = FS_CTS -> timer_timed_out (now s) (timer_rx_fc s) = false ->
  tx_state s = TxWaitFC ->
  let s' := fst (handle_fc_active c s fc) in
  active s' = active s /\ tx_seqnum s' = tx_seqnum s /\ now s' = now s /\ tx_state s' = TxTransmitCF /\
  remote_bs s' = Some (fc_bs fc) /\ t_start (timer_tx_stmin s') = Some (now s) /\
  t_timeout (timer_tx_stmin s') = match p_override_stmin_ns (c_p c) with Some o => o | None => stmin_ns (fc_stmin fc) end.
Proof.
  intros Hf Ht Hs. unfold handle_fc_active. rewrite Hf, Ht. cbn. rewrite Hs. cbn. auto 10.
Qed.

Lemma tick_expires d s ts : t_start (timer_tx_stmin s) = Some ts -> ts <= now s -> t_timeout (timer_tx_stmin s) < d ->
  timer_timed_out (now (tick d s)) (timer_tx_stmin (tick d s)) = true.
Proof.
  intros H1 H2 H3. unfold tick, timer_timed_out. cbn. rewrite H1. apply orb_true_iff. left. apply Z.ltb_lt. lia.
Qed.

Section Coop.
Variable c : cfg.
Hypothesis Hok : params_ok (c_p c).
Hypothesis Htbs : 0 < p_tbs_ns (c_p c).
Variable fc : fcpdu.                      (* the ContinueToSend the peer answers with *)
Hypothesis Hfc : fc_status fc = FS_CTS.
Variable a : Z.                           (* bytes the rate limiter allows per pass *)
Hypothesis Ha : cf_cap c <= a.

Let stmin_to := match p_override_stmin_ns (c_p c) with Some o => o | None => stmin_ns (fc_stmin fc) end.

(** the cooperative driver: grant when the sender waits, otherwise let the separation time pass
    and run the Consecutive Frame branch *)
Fixpoint coop (fuel : nat) (s : layer) (acc : list frame) (evs : list event) : list frame * list event * layer :=
  match fuel with
  | O => (acc, evs, s)
  | S n =>
      match tx_state s with
      | TxWaitFC => coop n (fst (handle_fc_active c s fc)) acc evs
      | TxTransmitCF =>
          let s1 := tick (1 + Z.max 0 (t_timeout (timer_tx_stmin s))) s in
          let r := tx_cf c a s1 evs in
          match tr_msg r with
          | Some m => coop n (tr_s r) (acc ++ [m]) (tr_evs r)
          | None => (acc, tr_evs r, tr_s r)
          end
      | _ => (acc, evs, s)
      end
  end.

Variables (rid : Z) (payload extra : list Z) (t : tat).
Let n := zlen payload.
Let idp := Address.tx_arb_id (c_txa c) Physical.

(** the sender is about to produce Consecutive Frame number [j] *)
Definition at_cf (j : Z) (s : layer) : Prop :=
  active s = Some (adv_req rid payload extra t (ff_cap c n + (j - 1) * cf_cap c)) /\
  tx_seqnum s = j mod 16 /\
  ((tx_state s = TxWaitFC /\ t_start (timer_rx_fc s) = Some (now s) /\ t_timeout (timer_rx_fc s) = p_tbs_ns (c_p c)) \/
   (tx_state s = TxTransmitCF /\ (exists rbs, remote_bs s = Some rbs) /\
    exists ts, t_start (timer_tx_stmin s) = Some ts /\ ts <= now s)).

Theorem coop_run : 0 < ff_cap c n -> forall (left : nat) j s acc evs,
  1 <= j -> at_cf j s ->
  ff_cap c n + (j - 1) * cf_cap c < n ->
  Z.of_nat left = (n - (ff_cap c n + (j - 1) * cf_cap c) + cf_cap c - 1) / cf_cap c ->
  forall fuel, (2 * left <= fuel)%nat ->
  let '(frames, evs', s') := coop fuel s acc evs in
  frames = acc ++ map (fun i => spec_frame c idp (cf_data c payload i)) (zseq j (Z.of_nat left)) /\
  evs' = evs ++ [EDone rid true] /\ tx_state s' = TxIdle /\ active s' = None.
Proof.
  intros Hff.
  pose proof (plen_bounds c) as Hp. pose proof (tx_dl_in c Hok) as Hdl.
  assert (Hcfpos : 6 <= cf_cap c).
  { unfold cf_cap. unfold c_tx_prefix in Hp. cbv zeta in *. lia. }
  induction left as [|left IH]; intros j s acc evs Hj Hat Hk Hleft fuel Hfuel.
  - exfalso. assert (1 <= (n - (ff_cap c n + (j - 1) * cf_cap c) + cf_cap c - 1) / cf_cap c); [|lia].
    apply Z.div_le_lower_bound; lia.
  - (* reach TRANSMIT_CF (at most one grant), then one Consecutive Frame *)
    assert (Hstep : forall fuel1 s1, (1 + 2 * left <= fuel1)%nat -> at_cf j s1 -> tx_state s1 = TxTransmitCF ->
      let '(frames, evs', s') := coop fuel1 s1 acc evs in
      frames = acc ++ map (fun i => spec_frame c idp (cf_data c payload i)) (zseq j (Z.of_nat (S left))) /\
      evs' = evs ++ [EDone rid true] /\ tx_state s' = TxIdle /\ active s' = None).
    { intros fuel1 s1 Hf1 (Hact & Hsq & Hst) Hcf.
      destruct fuel1 as [|f1]; [lia|]. cbn [coop]. rewrite Hcf.
      destruct Hst as [(Hw & _)|(_ & (rbs & Hrb) & ts & Hts & Hle)]; [congruence|].
      set (s2 := tick (1 + Z.max 0 (t_timeout (timer_tx_stmin s1))) s1).
      assert (Hto : timer_timed_out (now s2) (timer_tx_stmin s2) = true).
      { subst s2. apply (tick_expires _ _ ts Hts Hle). lia. }
      pose proof (cf_step c Hok s2 evs rid payload extra t j rbs a Hj Hff Hk) as Hs.
      fold n in Hs.
      destruct Hs as (Hm & Hcr & Hmore & Hlast); try (subst s2; cbn; assumption).
      { lia. }
      rewrite Hm.
      destruct (Z_lt_ge_dec (ff_cap c n + (j - 1) * cf_cap c + cf_cap c) n) as [Hlt|Hge].
      + (* more frames follow *)
        destruct (Hmore Hlt) as (Hact' & Hsq' & _ & Hst' & Hev').
        destruct (tx_cf_after c a s2 evs _ ltac:(subst s2; exact Hcf) Hm) as (Hn' & Hcfa & Hwa).
        rewrite Hev'.
        assert (Hat' : at_cf (j + 1) (tr_s (tx_cf c a s2 evs))).
        { split; [|split; [exact Hsq'|]].
          - rewrite Hact'. f_equal. f_equal. lia.
          - destruct Hst' as [Hc|Hw].
            + right. split; [exact Hc|]. destruct (Hcfa Hc) as (H1 & H2 & _). split.
              * exists rbs. rewrite H1. subst s2. exact Hrb.
              * exists (now s2). split; [exact H2|lia].
            + left. split; [exact Hw|]. destruct (Hwa Hw) as (H1 & H2). rewrite Hn'. auto. }
        assert (Hleft' : Z.of_nat left = (n - (ff_cap c n + (j + 1 - 1) * cf_cap c) + cf_cap c - 1) / cf_cap c).
        { assert (E : n - (ff_cap c n + (j - 1) * cf_cap c) + cf_cap c - 1 =
                      (n - (ff_cap c n + (j + 1 - 1) * cf_cap c) + cf_cap c - 1) + 1 * cf_cap c) by lia.
          rewrite E, Z.div_add in Hleft by lia. lia. }
        specialize (IH (j + 1) (tr_s (tx_cf c a s2 evs)) (acc ++ [spec_frame c idp (cf_data c payload j)]) evs
                       ltac:(lia) Hat' ltac:(lia) Hleft' f1 ltac:(lia)).
        destruct (coop f1 _ _ _) as [[frames evs'] s']. destruct IH as (Hfr & He & Hi & Ha').
        repeat split; try assumption.
        rewrite Hfr, (zseq_cons j (Z.of_nat (S left))) by lia. cbn [map].
        replace (Z.of_nat (S left) - 1) with (Z.of_nat left) by lia. rewrite <- app_assoc. reflexivity.
      + (* this was the last one *)
        destruct (Hlast ltac:(lia)) as (Hi & Ha' & He).
        assert (Hl0 : Z.of_nat (S left) = 1).
        { rewrite Hleft. symmetry. apply Z.div_unique with (r := n - (ff_cap c n + (j - 1) * cf_cap c) - 1); lia. }
        destruct f1 as [|f2]; cbn [coop]; rewrite ?Hi; rewrite Hl0, (zseq_cons j 1) by lia;
          replace (1 - 1) with 0 by lia; rewrite zseq_nil by lia; cbn [map]; repeat split; assumption. }
    destruct Hat as (Hact & Hsq & Hst).
    destruct Hst as [(Hw & Hts & Hto)|Hc].
    + (* WAIT_FC: the grant is accepted *)
      destruct fuel as [|f0]; [lia|]. cbn [coop]. rewrite Hw.
      assert (Hnt : timer_timed_out (now s) (timer_rx_fc s) = false).
      { unfold timer_timed_out. rewrite Hts, Hto. apply orb_false_iff. split; [apply Z.ltb_ge; lia|apply Z.eqb_neq; lia]. }
      destruct (cts_keeps c s fc Hfc Hnt Hw) as (K1 & K2 & K3 & K4 & K5 & K6 & K7).
      apply Hstep; [lia| |exact K4].
      split; [rewrite K1; exact Hact|]. split; [rewrite K2; exact Hsq|].
      right. split; [exact K4|]. split; [eauto|]. exists (now s). split; [exact K6|lia].
    + apply Hstep; [lia| |exact (proj1 Hc)].
      split; [exact Hact|]. split; [exact Hsq|]. right. exact Hc.
Qed.

End Coop.

Lemma start_request_waitfc c s r allowed s' evs out :
  start_request c s r allowed = SRDone s' evs out -> tx_state s' = TxWaitFC ->
  t_start (timer_rx_fc s') = Some (now s) /\ t_timeout (timer_rx_fc s') = p_tbs_ns (c_p c) /\ now s' = now s.
Proof.
  unfold start_request.
  destruct (r_size r <=? _).
  - destruct (consume (r_size r) true r) as [[payload|] r'].
    + destruct (make_tx_msg _ _ _); [|discriminate].
      destruct (allowed <? _); intros E; injection E as <- _ _; cbn; discriminate.
    + intros E; injection E as <- _ _; cbn; discriminate.
  - destruct (consume _ true r) as [[payload|] r'].
    + destruct (make_tx_msg _ _ _); [|discriminate].
      destruct (_ <=? allowed); intros E; injection E as <- _ _; cbn; [auto|discriminate].
    + intros E; injection E as <- _ _; cbn; discriminate.
Qed.

(** A whole multi-frame message under a cooperative peer: the First Frame, then - granting
    whenever the sender waits and letting the separation time pass - exactly the Consecutive
    Frames of the reference segmentation; the frames emitted are [seg c t payload], the request
    is completed once, with success, and the sender is idle again. *)
Theorem multi_frame_run c (Hok : params_ok (c_p c)) (Htbs : 0 < p_tbs_ns (c_p c)) fc (Hfc : fc_status fc = FS_CTS)
    a (Ha : p_tx_dl (c_p c) <= a) s rid payload extra t :
  1 <= zlen payload < 2 ^ 32 -> is_single c (zlen payload) = false ->
  let r := fresh_req rid payload extra t in
  exists ff s1,
    start_request c (s <| active := Some r |>) r a = SRDone s1 [] (Some ff) /\
    let '(cfs, evs, s') := coop c fc a (2 * Z.to_nat (n_cf c (zlen payload))) s1 [] [] in
    ff :: cfs = seg c t payload /\ evs = [EDone rid true] /\ tx_state s' = TxIdle /\ active s' = None.
Proof.
  intros Hn Hns r.
  pose proof (plen_bounds c) as Hp. pose proof (tx_dl_in c Hok) as Hdl.
  destruct (start_first c Hok s rid payload extra t a Hn Hns) as (Hhd & Hcap & Hgo & _).
  set (n := zlen payload) in *.
  set (d := Address.tx_prefix (c_txa c) ++ ff_header n ++ ztake (ff_cap c n) payload) in *.
  assert (Hlen : zlen d <= a).
  { subst d. rewrite !zlen_app, zlen_ztake by lia.
    assert (zlen (ff_header n) = p_tx_dl (c_p c) - zlen (Address.tx_prefix (c_txa c)) - ff_cap c n).
    { unfold ff_header, ff_cap. destruct (n <=? 4095); rewrite !zlen_cons, zlen_nil; lia. }
    lia. }
  destruct Hgo as (s1 & Hsr & Hw & Hact & Hsq & Hts & _); [apply Z.leb_le; exact Hlen|].
  exists (spec_frame c (Address.tx_arb_id (c_txa c) Physical) d), s1. split; [exact Hsr|].
  destruct (start_request_waitfc c _ r a s1 [] _ Hsr Hw) as (T1 & T2 & T3).
  assert (Hcf6 : 6 <= cf_cap c).
  { unfold cf_cap. unfold c_tx_prefix in Hp. cbv zeta in *. lia. }
  assert (Hnc : 0 <= n_cf c n) by (unfold n_cf; apply Z.div_pos; lia).
  assert (Hat : at_cf c rid payload extra t 1 s1).
  { split; [rewrite Hact; f_equal; f_equal; fold n; lia|]. split; [exact Hsq|].
    left. split; [exact Hw|]. rewrite T3. cbn [now set RecordSet.set] in T1. auto. }
  pose proof (coop_run c Hok Htbs fc Hfc a ltac:(unfold cf_cap; unfold c_tx_prefix in Hp; cbv zeta in *; lia)
                rid payload extra t ltac:(fold n; lia) (Z.to_nat (n_cf c n)) 1 s1 [] [] ltac:(lia) Hat) as Hrun.
  fold n in Hrun.
  specialize (Hrun ltac:(lia)).
  rewrite Z2Nat.id in Hrun by exact Hnc.
  specialize (Hrun ltac:(unfold n_cf; f_equal; lia) (2 * Z.to_nat (n_cf c n))%nat ltac:(lia)).
  destruct (coop c fc a _ s1 [] []) as [[cfs evs] s']. destruct Hrun as (Hfr & He & Hi & Ha').
  split; [|auto]. rewrite Hfr. cbn [app].
  unfold seg. fold n. unfold is_single in Hns. apply orb_false_iff in Hns. destruct Hns as [-> ->]. reflexivity.
Qed.

(** *** Where the sender waits *)

(** block accounting of one Consecutive Frame pass *)
Lemma tx_cf_block c a s evs m rbs : tx_state s = TxTransmitCF -> remote_bs s = Some rbs ->
  tr_msg (tx_cf c a s evs) = Some m ->
  let s' := tr_s (tx_cf c a s evs) in
  tx_state s' = TxIdle \/
  (tx_state s' = TxWaitFC /\ (negb (rbs =? 0) && (rbs <=? tx_block_counter s + 1)) = true) \/
  (tx_state s' = TxTransmitCF /\ (negb (rbs =? 0) && (rbs <=? tx_block_counter s + 1)) = false /\
   tx_block_counter s' = tx_block_counter s + 1 /\ remote_bs s' = Some rbs).
Proof.
  intros Hst Hrb.
  assert (Hli : forall p n s0, tx_state (lim_inform p n s0) = tx_state s0 /\ tx_block_counter (lim_inform p n s0) = tx_block_counter s0 /\
                               remote_bs (lim_inform p n s0) = remote_bs s0).
  { intros p n s0. unfold lim_inform. destruct (negb (p_lim_enable p)); [auto|].
    destruct (lim_times s0); [cbn; auto|]. destruct (SLOT_NS <? _); cbn; auto. }
  unfold tx_cf. rewrite Hrb. destruct (active s) as [r|]; [|discriminate].
  destruct (timer_timed_out _ _); [|unfold tx_finish; discriminate].
  destruct (_ <=? a); [|unfold tx_finish; discriminate].
  destruct (consume _ false r) as [[payload|] r']; [|discriminate].
  destruct (0 <? zlen payload).
  - destruct (make_tx_msg _ _ _) as [mm|]; [|discriminate].
    destruct (r_is_depleted r').
    + destruct (0 <? r_remaining r'); unfold stop_sending, tx_finish; cbv beta iota; cbn [tr_msg tr_s mk_tr]; intros _;
        match goal with |- context [lim_inform ?p ?n ?s0] => destruct (Hli p n s0) as (N1 & N2 & N3) end;
        left; rewrite N1; reflexivity.
    + cbn [tx_block_counter set RecordSet.set].
      destruct (negb (rbs =? 0) && (rbs <=? tx_block_counter s + 1)) eqn:Eb; unfold tx_finish; cbn [tr_msg tr_s mk_tr]; intros _;
        match goal with |- context [lim_inform ?p ?n ?s0] => destruct (Hli p n s0) as (N1 & N2 & N3) end.
      * right; left. rewrite N1. cbn. auto.
      * right; right. rewrite N1, N2, N3. cbn. rewrite Hst, Hrb. auto.
  - destruct (r_is_depleted r').
    + destruct (0 <? r_remaining r'); unfold stop_sending, tx_finish; cbv beta iota; cbn; discriminate.
    + destruct (negb (rbs =? 0) && _); unfold tx_finish; cbn; discriminate.
Qed.

Section CoopW.
Variable c : cfg.
Hypothesis Hok : params_ok (c_p c).
Hypothesis Htbs : 0 < p_tbs_ns (c_p c).
Variable fc : fcpdu.
Hypothesis Hfc : fc_status fc = FS_CTS.
Let bs := fc_bs fc.
Hypothesis Hbs : 0 <= bs.
Variable a : Z.
Hypothesis Ha : cf_cap c <= a.

(** the cooperative driver again, recording for each Consecutive Frame whether the sender had to
    be granted a ContinueToSend since the previous one *)
Fixpoint coopw (fuel : nat) (s : layer) (w : bool) (acc : list (bool * frame)) (evs : list event)
  : list (bool * frame) * list event * layer :=
  match fuel with
  | O => (acc, evs, s)
  | S n =>
      match tx_state s with
      | TxWaitFC => coopw n (fst (handle_fc_active c s fc)) true acc evs
      | TxTransmitCF =>
          let s1 := tick (1 + Z.max 0 (t_timeout (timer_tx_stmin s))) s in
          let r := tx_cf c a s1 evs in
          match tr_msg r with
          | Some m => coopw n (tr_s r) false (acc ++ [(w, m)]) (tr_evs r)
          | None => (acc, tr_evs r, tr_s r)
          end
      | _ => (acc, evs, s)
      end
  end.

(** the sender must be granted before Consecutive Frame [i]: before the first one, and after
    every completed block of [bs] frames *)
Definition waits_before (i : Z) : bool := (i =? 1) || ((0 <? bs) && ((i - 1) mod bs =? 0)).

Variables (rid : Z) (payload extra : list Z) (t : tat).
Let n := zlen payload.
Let idp := Address.tx_arb_id (c_txa c) Physical.

Definition at_cfw (j : Z) (s : layer) (w : bool) : Prop :=
  active s = Some (adv_req rid payload extra t (ff_cap c n + (j - 1) * cf_cap c)) /\
  tx_seqnum s = j mod 16 /\
  ((tx_state s = TxWaitFC /\ t_start (timer_rx_fc s) = Some (now s) /\ t_timeout (timer_rx_fc s) = p_tbs_ns (c_p c) /\
    waits_before j = true) \/
   (tx_state s = TxTransmitCF /\ remote_bs s = Some bs /\
    (exists ts, t_start (timer_tx_stmin s) = Some ts /\ ts <= now s) /\
    (0 < bs -> tx_block_counter s = (j - 1) mod bs) /\ w = waits_before j)).

Lemma mod_succ x : 0 < bs -> x mod bs + 1 < bs -> (x + 1) mod bs = x mod bs + 1.
Proof.
  intros Hb H. pose proof (Z.mod_pos_bound x bs Hb) as Hm.
  rewrite <- Zplus_mod_idemp_l. apply Z.mod_small. lia.
Qed.

Lemma mod_wrap x : 0 < bs -> bs <= x mod bs + 1 -> (x + 1) mod bs = 0.
Proof.
  intros Hb H. pose proof (Z.mod_pos_bound x bs Hb) as Hm.
  rewrite <- Zplus_mod_idemp_l. replace (x mod bs + 1) with bs by lia. apply Z_mod_same_full.
Qed.

Theorem coopw_run : 0 < ff_cap c n -> forall (left : nat) j s w acc evs,
  1 <= j -> at_cfw j s w ->
  ff_cap c n + (j - 1) * cf_cap c < n ->
  Z.of_nat left = (n - (ff_cap c n + (j - 1) * cf_cap c) + cf_cap c - 1) / cf_cap c ->
  forall fuel, (2 * left <= fuel)%nat ->
  let '(frames, evs', s') := coopw fuel s w acc evs in
  frames = acc ++ map (fun i => (waits_before i, spec_frame c idp (cf_data c payload i))) (zseq j (Z.of_nat left)) /\
  evs' = evs ++ [EDone rid true] /\ tx_state s' = TxIdle /\ active s' = None.
Proof.
  intros Hff.
  pose proof (plen_bounds c) as Hp. pose proof (tx_dl_in c Hok) as Hdl.
  assert (Hcfpos : 6 <= cf_cap c).
  { unfold cf_cap. unfold c_tx_prefix in Hp. cbv zeta in *. lia. }
  induction left as [|left IH]; intros j s w acc evs Hj Hat Hk Hleft fuel Hfuel.
  - exfalso. assert (1 <= (n - (ff_cap c n + (j - 1) * cf_cap c) + cf_cap c - 1) / cf_cap c); [|lia].
    apply Z.div_le_lower_bound; lia.
  - assert (Hstep : forall fuel1 s1 w1, (1 + 2 * left <= fuel1)%nat -> at_cfw j s1 w1 -> tx_state s1 = TxTransmitCF ->
      let '(frames, evs', s') := coopw fuel1 s1 w1 acc evs in
      frames = acc ++ map (fun i => (waits_before i, spec_frame c idp (cf_data c payload i))) (zseq j (Z.of_nat (S left))) /\
      evs' = evs ++ [EDone rid true] /\ tx_state s' = TxIdle /\ active s' = None).
    { intros fuel1 s1 w1 Hf1 (Hact & Hsq & Hst) Hcf.
      destruct fuel1 as [|f1]; [lia|]. cbn [coopw]. rewrite Hcf.
      destruct Hst as [(Hw & _)|(_ & Hrb & (ts & Hts & Hle) & Hcnt & Hw1)]; [congruence|].
      set (s2 := tick (1 + Z.max 0 (t_timeout (timer_tx_stmin s1))) s1).
      assert (Hto : timer_timed_out (now s2) (timer_tx_stmin s2) = true).
      { subst s2. apply (tick_expires _ _ ts Hts Hle). lia. }
      pose proof (cf_step c Hok s2 evs rid payload extra t j bs a Hj Hff Hk) as Hs.
      fold n in Hs.
      destruct Hs as (Hm & Hcr & Hmore & Hlast); try (subst s2; cbn; assumption).
      { lia. }
      rewrite Hm.
      destruct (Z_lt_ge_dec (ff_cap c n + (j - 1) * cf_cap c + cf_cap c) n) as [Hlt|Hge].
      + destruct (Hmore Hlt) as (Hact' & Hsq' & _ & Hst' & Hev').
        destruct (tx_cf_after c a s2 evs _ ltac:(subst s2; exact Hcf) Hm) as (Hn' & Hcfa & Hwa).
        pose proof (tx_cf_block c a s2 evs _ bs ltac:(subst s2; exact Hcf) ltac:(subst s2; exact Hrb) Hm) as Hblk.
        change (tx_block_counter s2) with (tx_block_counter s1) in Hblk.
        rewrite Hev'.
        assert (Hat' : at_cfw (j + 1) (tr_s (tx_cf c a s2 evs)) false).
        { split; [|split; [exact Hsq'|]].
          - rewrite Hact'. f_equal. f_equal. lia.
          - destruct Hblk as [Hi|[(Hw & Hb)|(Hc & Hb & Hcn & Hr)]].
            + destruct Hst' as [E|E]; congruence.
            + left. split; [exact Hw|]. destruct (Hwa Hw) as (H1 & H2). rewrite Hn'. split; [auto|]. split; [exact H2|].
              apply andb_true_iff in Hb. destruct Hb as [Hb1 Hb2]. apply negb_true_iff, Z.eqb_neq in Hb1. apply Z.leb_le in Hb2.
              assert (Hbp : 0 < bs) by lia. rewrite (Hcnt Hbp) in Hb2.
              unfold waits_before. replace (j + 1 - 1) with (j - 1 + 1) by lia.
              rewrite (mod_wrap (j - 1) Hbp Hb2). destruct (Z.ltb_spec 0 bs); [|lia]. cbn. apply orb_true_r.
            + right. split; [exact Hc|]. split; [exact Hr|]. destruct (Hcfa Hc) as (_ & H2 & _).
              split; [exists (now s2); split; [exact H2|lia]|].
              apply andb_false_iff in Hb. split.
              * intros Hbp. rewrite Hcn, (Hcnt Hbp). replace (j + 1 - 1) with (j - 1 + 1) by lia. symmetry. apply mod_succ; [exact Hbp|].
                destruct Hb as [Hb|Hb]; [apply negb_false_iff, Z.eqb_eq in Hb; lia|apply Z.leb_gt in Hb; rewrite (Hcnt Hbp) in Hb; lia].
              * unfold waits_before. destruct (Z.eqb_spec (j + 1) 1); [lia|]. cbn [orb].
                destruct (Z.ltb_spec 0 bs) as [Hbp|_]; [|reflexivity]. cbn [andb].
                destruct Hb as [Hb|Hb]; [apply negb_false_iff, Z.eqb_eq in Hb; lia|]. apply Z.leb_gt in Hb. rewrite (Hcnt Hbp) in Hb.
                replace (j + 1 - 1) with (j - 1 + 1) by lia. rewrite (mod_succ (j - 1) Hbp Hb).
                pose proof (Z.mod_pos_bound (j - 1) bs Hbp). symmetry. apply Z.eqb_neq. lia. }
        assert (Hleft' : Z.of_nat left = (n - (ff_cap c n + (j + 1 - 1) * cf_cap c) + cf_cap c - 1) / cf_cap c).
        { assert (E : n - (ff_cap c n + (j - 1) * cf_cap c) + cf_cap c - 1 =
                      (n - (ff_cap c n + (j + 1 - 1) * cf_cap c) + cf_cap c - 1) + 1 * cf_cap c) by lia.
          rewrite E, Z.div_add in Hleft by lia. lia. }
        specialize (IH (j + 1) (tr_s (tx_cf c a s2 evs)) false (acc ++ [(w1, spec_frame c idp (cf_data c payload j))]) evs
                       ltac:(lia) Hat' ltac:(lia) Hleft' f1 ltac:(lia)).
        destruct (coopw f1 _ _ _ _) as [[frames evs'] s']. destruct IH as (Hfr & He & Hi & Ha').
        repeat split; try assumption.
        rewrite Hfr, (zseq_cons j (Z.of_nat (S left))) by lia. cbn [map].
        replace (Z.of_nat (S left) - 1) with (Z.of_nat left) by lia. rewrite <- app_assoc, Hw1. reflexivity.
      + destruct (Hlast ltac:(lia)) as (Hi & Ha' & He).
        assert (Hl0 : Z.of_nat (S left) = 1).
        { rewrite Hleft. symmetry. apply Z.div_unique with (r := n - (ff_cap c n + (j - 1) * cf_cap c) - 1); lia. }
        destruct f1 as [|f2]; cbn [coopw]; rewrite ?Hi; rewrite Hl0, (zseq_cons j 1) by lia;
          replace (1 - 1) with 0 by lia; rewrite zseq_nil by lia; cbn [map]; rewrite Hw1; repeat split; assumption. }
    destruct Hat as (Hact & Hsq & Hst).
    destruct Hst as [(Hw & Hts & Hto & Hdue)|Hc].
    + destruct fuel as [|f0]; [lia|]. cbn [coopw]. rewrite Hw.
      assert (Hnt : timer_timed_out (now s) (timer_rx_fc s) = false).
      { unfold timer_timed_out. rewrite Hts, Hto. apply orb_false_iff. split; [apply Z.ltb_ge; lia|apply Z.eqb_neq; lia]. }
      destruct (cts_keeps c s fc Hfc Hnt Hw) as (K1 & K2 & K3 & K4 & K5 & K6 & K7).
      pose proof (cts_sets_stmin c s fc Hfc Hnt) as (_ & _ & _ & Kc). destruct (Kc Hw) as (_ & Kcnt).
      apply Hstep; [lia| |exact K4].
      split; [rewrite K1; exact Hact|]. split; [rewrite K2; exact Hsq|].
      right. split; [exact K4|]. split; [exact K5|]. split; [exists (now s); split; [exact K6|lia]|].
      split; [|symmetry; exact Hdue].
      intros Hbp. rewrite Kcnt. unfold waits_before in Hdue. apply orb_true_iff in Hdue. destruct Hdue as [E|E].
      * apply Z.eqb_eq in E. subst j. replace (1 - 1) with 0 by lia. symmetry. apply Z.mod_0_l. lia.
      * apply andb_true_iff in E. destruct E as [_ E]. apply Z.eqb_eq in E. symmetry. exact E.
    + apply Hstep; [lia| |exact (proj1 Hc)].
      split; [exact Hact|]. split; [exact Hsq|]. right. exact Hc.
Qed.

End CoopW.
