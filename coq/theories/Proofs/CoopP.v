(** C02 / C01 at run level for the cooperative peer: a multi-frame request, driven with
    ContinueToSend whenever the sender waits for one and with enough time between passes, emits
    exactly the Consecutive Frames of the reference segmentation, in order, and completes. *)
From IsoTp Require Import Base.Prelude Model.Layer Spec.ConfigSpec Spec.Segment Proofs.Inv Proofs.LocalP Proofs.TxP Proofs.SegP.

(** fields of the state after a Consecutive Frame pass that the next pass depends on *)
Lemma tx_cf_after c a s evs m : tx_state s = TxTransmitCF -> tr_msg (tx_cf c a s evs) = Some m ->
  now (tr_s (tx_cf c a s evs)) = now s /\
  (tx_state (tr_s (tx_cf c a s evs)) = TxTransmitCF ->
     remote_bs (tr_s (tx_cf c a s evs)) = remote_bs s /\
     t_start (timer_tx_stmin (tr_s (tx_cf c a s evs))) = Some (now s) /\
     t_timeout (timer_tx_stmin (tr_s (tx_cf c a s evs))) = t_timeout (timer_tx_stmin s)) /\
  (tx_state (tr_s (tx_cf c a s evs)) = TxWaitFC ->
     t_start (timer_rx_fc (tr_s (tx_cf c a s evs))) = Some (now s) /\
     t_timeout (timer_rx_fc (tr_s (tx_cf c a s evs))) = p_tbs_ns (c_p c)).
Proof.
  assert (Hli : forall p n s0, now (lim_inform p n s0) = now s0 /\ tx_state (lim_inform p n s0) = tx_state s0 /\
                               timer_tx_stmin (lim_inform p n s0) = timer_tx_stmin s0 /\
                               timer_rx_fc (lim_inform p n s0) = timer_rx_fc s0 /\ remote_bs (lim_inform p n s0) = remote_bs s0).
  { intros p n s0. unfold lim_inform. destruct (negb (p_lim_enable p)); [auto 10|].
    destruct (lim_times s0); [cbn; auto 10|]. destruct (SLOT_NS <? _); cbn; auto 10. }
  intros Hst. unfold tx_cf. destruct (remote_bs s) as [rbs|] eqn:Erb; [|discriminate]. destruct (active s) as [r|]; [|discriminate].
  destruct (timer_timed_out _ _); [|unfold tx_finish; discriminate].
  destruct (_ <=? a); [|unfold tx_finish; discriminate].
  destruct (consume _ false r) as [[payload|] r']; [|discriminate].
  destruct (0 <? zlen payload).
  - destruct (make_tx_msg _ _ _) as [mm|]; [|discriminate].
    destruct (r_is_depleted r').
    + destruct (0 <? r_remaining r'); unfold stop_sending, tx_finish; cbv beta iota; cbn [tr_msg tr_s mk_tr]; intros _;
        match goal with |- context [lim_inform ?p ?n ?s0] => destruct (Hli p n s0) as (N1 & N2 & N3 & N4 & N5) end;
        rewrite N1, N2; cbn; (split; [reflexivity|]); split; intros H; discriminate.
    + destruct (negb (rbs =? 0) && _); unfold tx_finish; cbn [tr_msg tr_s mk_tr]; intros _;
        match goal with |- context [lim_inform ?p ?n ?s0] => destruct (Hli p n s0) as (N1 & N2 & N3 & N4 & N5) end;
        rewrite N1, N2, N3, N4, N5; cbn; rewrite ?Erb, ?Hst; (split; [reflexivity|]); split; intros H; try discriminate; auto.
  - destruct (r_is_depleted r').
    + destruct (0 <? r_remaining r'); unfold stop_sending, tx_finish; cbv beta iota; cbn; discriminate.
    + destruct (negb (rbs =? 0) && _); unfold tx_finish; cbn; discriminate.
Qed.

(** an accepted ContinueToSend keeps the request and its position *)
Lemma cts_keeps c s fc : fc_status fc = FS_CTS -> timer_timed_out (now s) (timer_rx_fc s) = false ->
  tx_state s = TxWaitFC ->
  let s' := fst (handle_fc_active c s fc) in
  active s' = active s /\ tx_seqnum s' = tx_seqnum s /\ now s' = now s /\ tx_state s' = TxTransmitCF /\
  remote_bs s' = Some (fc_bs fc) /\ t_start (timer_tx_stmin s') = Some (now s) /\
  t_timeout (timer_tx_stmin s') = match p_override_stmin_ns (c_p c) with Some o => o | None => stmin_ns (fc_stmin fc) end.
Proof.
  intros Hf Ht Hs. unfold handle_fc_active. rewrite Hf, Ht. cbn. rewrite Hs. cbn. auto 10.
Qed.

Lemma tick_expires d s ts : t_start (timer_tx_stmin s) = Some ts -> ts <= now s -> t_timeout (timer_tx_stmin s) < d ->
  timer_timed_out (now (tick d s)) (timer_tx_stmin (tick d s)) = true.
Proof.
  intros H1 H2 H3. unfold tick, timer_timed_out. cbn. rewrite H1. apply orb_true_iff. left. apply Z.ltb_lt. lia.
Qed.

Section Coop.
Variable c : cfg.
Hypothesis Hok : params_ok (c_p c).
Hypothesis Htbs : 0 < p_tbs_ns (c_p c).
Variable fc : fcpdu.                      (* the ContinueToSend the peer answers with *)
Hypothesis Hfc : fc_status fc = FS_CTS.
Variable a : Z.                           (* bytes the rate limiter allows per pass *)
Hypothesis Ha : cf_cap c <= a.

Let stmin_to := match p_override_stmin_ns (c_p c) with Some o => o | None => stmin_ns (fc_stmin fc) end.

(** the cooperative driver: grant when the sender waits, otherwise let the separation time pass
    and run the Consecutive Frame branch *)
Fixpoint coop (fuel : nat) (s : layer) (acc : list frame) (evs : list event) : list frame * list event * layer :=
  match fuel with
  | O => (acc, evs, s)
  | S n =>
      match tx_state s with
      | TxWaitFC => coop n (fst (handle_fc_active c s fc)) acc evs
      | TxTransmitCF =>
          let s1 := tick (1 + Z.max 0 (t_timeout (timer_tx_stmin s))) s in
          let r := tx_cf c a s1 evs in
          match tr_msg r with
          | Some m => coop n (tr_s r) (acc ++ [m]) (tr_evs r)
          | None => (acc, tr_evs r, tr_s r)
          end
      | _ => (acc, evs, s)
      end
  end.

Variables (rid : Z) (payload extra : list Z) (t : tat).
Let n := zlen payload.
Let idp := Address.tx_arb_id (c_txa c) Physical.

(** the sender is about to produce Consecutive Frame number [j] *)
Definition at_cf (j : Z) (s : layer) : Prop :=
  active s = Some (adv_req rid payload extra t (ff_cap c n + (j - 1) * cf_cap c)) /\
  tx_seqnum s = j mod 16 /\
  ((tx_state s = TxWaitFC /\ t_start (timer_rx_fc s) = Some (now s) /\ t_timeout (timer_rx_fc s) = p_tbs_ns (c_p c)) \/
   (tx_state s = TxTransmitCF /\ (exists rbs, remote_bs s = Some rbs) /\
    exists ts, t_start (timer_tx_stmin s) = Some ts /\ ts <= now s)).

Theorem coop_run : 0 < ff_cap c n -> forall (left : nat) j s acc evs,
  1 <= j -> at_cf j s ->
  ff_cap c n + (j - 1) * cf_cap c < n ->
  Z.of_nat left = (n - (ff_cap c n + (j - 1) * cf_cap c) + cf_cap c - 1) / cf_cap c ->
  forall fuel, (2 * left <= fuel)%nat ->
  let '(frames, evs', s') := coop fuel s acc evs in
  frames = acc ++ map (fun i => spec_frame c idp (cf_data c payload i)) (zseq j (Z.of_nat left)) /\
  evs' = evs ++ [EDone rid true] /\ tx_state s' = TxIdle /\ active s' = None.
Proof.
  intros Hff.
  pose proof (plen_bounds c) as Hp. pose proof (tx_dl_in c Hok) as Hdl.
  assert (Hcfpos : 6 <= cf_cap c).
  { unfold cf_cap. unfold c_tx_prefix in Hp. cbv zeta in *. lia. }
  induction left as [|left IH]; intros j s acc evs Hj Hat Hk Hleft fuel Hfuel.
  - exfalso. assert (1 <= (n - (ff_cap c n + (j - 1) * cf_cap c) + cf_cap c - 1) / cf_cap c); [|lia].
    apply Z.div_le_lower_bound; lia.
  - (* reach TRANSMIT_CF (at most one grant), then one Consecutive Frame *)
    assert (Hstep : forall fuel1 s1, (1 + 2 * left <= fuel1)%nat -> at_cf j s1 -> tx_state s1 = TxTransmitCF ->
      let '(frames, evs', s') := coop fuel1 s1 acc evs in
      frames = acc ++ map (fun i => spec_frame c idp (cf_data c payload i)) (zseq j (Z.of_nat (S left))) /\
      evs' = evs ++ [EDone rid true] /\ tx_state s' = TxIdle /\ active s' = None).
    { intros fuel1 s1 Hf1 (Hact & Hsq & Hst) Hcf.
      destruct fuel1 as [|f1]; [lia|]. cbn [coop]. rewrite Hcf.
      destruct Hst as [(Hw & _)|(_ & (rbs & Hrb) & ts & Hts & Hle)]; [congruence|].
      set (s2 := tick (1 + Z.max 0 (t_timeout (timer_tx_stmin s1))) s1).
      assert (Hto : timer_timed_out (now s2) (timer_tx_stmin s2) = true).
      { subst s2. apply (tick_expires _ _ ts Hts Hle). lia. }
      pose proof (cf_step c Hok s2 evs rid payload extra t j rbs a Hj Hff Hk) as Hs.
      fold n in Hs.
      destruct Hs as (Hm & Hcr & Hmore & Hlast); try (subst s2; cbn; assumption).
      { lia. }
      rewrite Hm.
      destruct (Z_lt_ge_dec (ff_cap c n + (j - 1) * cf_cap c + cf_cap c) n) as [Hlt|Hge].
      + (* more frames follow *)
        destruct (Hmore Hlt) as (Hact' & Hsq' & _ & Hst' & Hev').
        destruct (tx_cf_after c a s2 evs _ ltac:(subst s2; exact Hcf) Hm) as (Hn' & Hcfa & Hwa).
        rewrite Hev'.
        assert (Hat' : at_cf (j + 1) (tr_s (tx_cf c a s2 evs))).
        { split; [|split; [exact Hsq'|]].
          - rewrite Hact'. f_equal. f_equal. lia.
          - destruct Hst' as [Hc|Hw].
            + right. split; [exact Hc|]. destruct (Hcfa Hc) as (H1 & H2 & _). split.
              * exists rbs. rewrite H1. subst s2. exact Hrb.
              * exists (now s2). split; [exact H2|lia].
            + left. split; [exact Hw|]. destruct (Hwa Hw) as (H1 & H2). rewrite Hn'. auto. }
        assert (Hleft' : Z.of_nat left = (n - (ff_cap c n + (j + 1 - 1) * cf_cap c) + cf_cap c - 1) / cf_cap c).
        { assert (E : n - (ff_cap c n + (j - 1) * cf_cap c) + cf_cap c - 1 =
                      (n - (ff_cap c n + (j + 1 - 1) * cf_cap c) + cf_cap c - 1) + 1 * cf_cap c) by lia.
          rewrite E, Z.div_add in Hleft by lia. lia. }
        specialize (IH (j + 1) (tr_s (tx_cf c a s2 evs)) (acc ++ [spec_frame c idp (cf_data c payload j)]) evs
                       ltac:(lia) Hat' ltac:(lia) Hleft' f1 ltac:(lia)).
        destruct (coop f1 _ _ _) as [[frames evs'] s']. destruct IH as (Hfr & He & Hi & Ha').
        repeat split; try assumption.
        rewrite Hfr, (zseq_cons j (Z.of_nat (S left))) by lia. cbn [map].
        replace (Z.of_nat (S left) - 1) with (Z.of_nat left) by lia. rewrite <- app_assoc. reflexivity.
      + (* this was the last one *)
        destruct (Hlast ltac:(lia)) as (Hi & Ha' & He).
        assert (Hl0 : Z.of_nat (S left) = 1).
        { rewrite Hleft. symmetry. apply Z.div_unique with (r := n - (ff_cap c n + (j - 1) * cf_cap c) - 1); lia. }
        destruct f1 as [|f2]; cbn [coop]; rewrite ?Hi; rewrite Hl0, (zseq_cons j 1) by lia;
          replace (1 - 1) with 0 by lia; rewrite zseq_nil by lia; cbn [map]; repeat split; assumption. }
    destruct Hat as (Hact & Hsq & Hst).
    destruct Hst as [(Hw & Hts & Hto)|Hc].
    + (* WAIT_FC: the grant is accepted *)
      destruct fuel as [|f0]; [lia|]. cbn [coop]. rewrite Hw.
      assert (Hnt : timer_timed_out (now s) (timer_rx_fc s) = false).
      { unfold timer_timed_out. rewrite Hts, Hto. apply orb_false_iff. split; [apply Z.ltb_ge; lia|apply Z.eqb_neq; lia]. }
      destruct (cts_keeps c s fc Hfc Hnt Hw) as (K1 & K2 & K3 & K4 & K5 & K6 & K7).
      apply Hstep; [lia| |exact K4].
      split; [rewrite K1; exact Hact|]. split; [rewrite K2; exact Hsq|].
      right. split; [exact K4|]. split; [eauto|]. exists (now s). split; [exact K6|lia].
    + apply Hstep; [lia| |exact (proj1 Hc)].
      split; [exact Hact|]. split; [exact Hsq|]. right. exact Hc.
Qed.

End Coop.

Lemma start_request_waitfc c s r allowed s' evs out :
  start_request c s r allowed = SRDone s' evs out -> tx_state s' = TxWaitFC ->
  t_start (timer_rx_fc s') = Some (now s) /\ t_timeout (timer_rx_fc s') = p_tbs_ns (c_p c) /\ now s' = now s.
Proof.
  unfold start_request.
  destruct (r_size r <=? _).
  - destruct (consume (r_size r) true r) as [[payload|] r'].
    + destruct (make_tx_msg _ _ _); [|discriminate].
      destruct (allowed <? _); intros E; injection E as <- _ _; cbn; discriminate.
    + intros E; injection E as <- _ _; cbn; discriminate.
  - destruct (consume _ true r) as [[payload|] r'].
    + destruct (make_tx_msg _ _ _); [|discriminate].
      destruct (_ <=? allowed); intros E; injection E as <- _ _; cbn; [auto|discriminate].
    + intros E; injection E as <- _ _; cbn; discriminate.
Qed.

(** A whole multi-frame message under a cooperative peer: the First Frame, then - granting
    whenever the sender waits and letting the separation time pass - exactly the Consecutive
    Frames of the reference segmentation; the frames emitted are [seg c t payload], the request
    is completed once, with success, and the sender is idle again. *)
Theorem multi_frame_run c (Hok : params_ok (c_p c)) (Htbs : 0 < p_tbs_ns (c_p c)) fc (Hfc : fc_status fc = FS_CTS)
    a (Ha : p_tx_dl (c_p c) <= a) s rid payload extra t :
  1 <= zlen payload < 2 ^ 32 -> is_single c (zlen payload) = false ->
  let r := fresh_req rid payload extra t in
  exists ff s1,
    start_request c (s <| active := Some r |>) r a = SRDone s1 [] (Some ff) /\
    let '(cfs, evs, s') := coop c fc a (2 * Z.to_nat (n_cf c (zlen payload))) s1 [] [] in
    ff :: cfs = seg c t payload /\ evs = [EDone rid true] /\ tx_state s' = TxIdle /\ active s' = None.
Proof.
  intros Hn Hns r.
  pose proof (plen_bounds c) as Hp. pose proof (tx_dl_in c Hok) as Hdl.
  destruct (start_first c Hok s rid payload extra t a Hn Hns) as (Hhd & Hcap & Hgo & _).
  set (n := zlen payload) in *.
  set (d := Address.tx_prefix (c_txa c) ++ ff_header n ++ ztake (ff_cap c n) payload) in *.
  assert (Hlen : zlen d <= a).
  { subst d. rewrite !zlen_app, zlen_ztake by lia.
    assert (zlen (ff_header n) = p_tx_dl (c_p c) - zlen (Address.tx_prefix (c_txa c)) - ff_cap c n).
    { unfold ff_header, ff_cap. destruct (n <=? 4095); rewrite !zlen_cons, zlen_nil; lia. }
    lia. }
  destruct Hgo as (s1 & Hsr & Hw & Hact & Hsq & Hts & _); [apply Z.leb_le; exact Hlen|].
  exists (spec_frame c (Address.tx_arb_id (c_txa c) Physical) d), s1. split; [exact Hsr|].
  destruct (start_request_waitfc c _ r a s1 [] _ Hsr Hw) as (T1 & T2 & T3).
  assert (Hcf6 : 6 <= cf_cap c).
  { unfold cf_cap. unfold c_tx_prefix in Hp. cbv zeta in *. lia. }
  assert (Hnc : 0 <= n_cf c n) by (unfold n_cf; apply Z.div_pos; lia).
  assert (Hat : at_cf c rid payload extra t 1 s1).
  { split; [rewrite Hact; f_equal; f_equal; fold n; lia|]. split; [exact Hsq|].
    left. split; [exact Hw|]. rewrite T3. cbn [now set RecordSet.set] in T1. auto. }
  pose proof (coop_run c Hok Htbs fc Hfc a ltac:(unfold cf_cap; unfold c_tx_prefix in Hp; cbv zeta in *; lia)
                rid payload extra t ltac:(fold n; lia) (Z.to_nat (n_cf c n)) 1 s1 [] [] ltac:(lia) Hat) as Hrun.
  fold n in Hrun.
  specialize (Hrun ltac:(lia)).
  rewrite Z2Nat.id in Hrun by exact Hnc.
  specialize (Hrun ltac:(unfold n_cf; f_equal; lia) (2 * Z.to_nat (n_cf c n))%nat ltac:(lia)).
  destruct (coop c fc a _ s1 [] []) as [[cfs evs] s']. destruct Hrun as (Hfr & He & Hi & Ha').
  split; [|auto]. rewrite Hfr. cbn [app].
  unfold seg. fold n. unfold is_single in Hns. apply orb_false_iff in Hns. destruct Hns as [-> ->]. reflexivity.
Qed.
