(** C04 at run level: along any run of micro-steps, the Consecutive Frames emitted since the most
    recently accepted ContinueToSend never exceed the block size that ContinueToSend granted
    (block size 0 = no limit); no Consecutive Frame leaves before a ContinueToSend was accepted for
    the message. *)
From IsoTp Require Import Base.Prelude Model.Micro Proofs.Inv Proofs.DuplexP Proofs.PacingP Proofs.CoopP.

(** [B g s]: [g] Consecutive Frames were emitted since the last accepted ContinueToSend *)
Definition B (g : Z) (s : layer) : Prop :=
  0 <= g /\ 0 <= tx_block_counter s /\
  (tx_state s = TxTransmitCF -> exists rbs, remote_bs s = Some rbs /\
     (rbs <> 0 -> g <= tx_block_counter s /\ (tx_block_counter s < rbs \/ g = 0))).

(** [K s s']: the step neither accepts a ContinueToSend nor emits a Consecutive Frame: if the sender
    is (still) pacing Consecutive Frames, block size and counter are unchanged *)
Definition K (s s' : layer) : Prop :=
  0 <= tx_block_counter s -> 0 <= tx_block_counter s' /\
  (tx_state s' = TxTransmitCF ->
     tx_state s = TxTransmitCF /\ remote_bs s' = remote_bs s /\ tx_block_counter s' = tx_block_counter s).

Lemma K_refl s : K s s.
Proof. intros H. split; [exact H|]. auto. Qed.

Lemma K_trans s1 s2 s3 : K s1 s2 -> K s2 s3 -> K s1 s3.
Proof.
  intros H1 H2 H0. destruct (H1 H0) as [A1 B1]. destruct (H2 A1) as [A2 B2]. split; [exact A2|].
  intros H3. destruct (B2 H3) as (X & Y & Z'). destruct (B1 X) as (X' & Y' & Z''). repeat split; congruence.
Qed.

Lemma B_K g s s' : B g s -> K s s' -> B g s'.
Proof.
  intros (Hg & Hc & Hb) HK. destruct (HK Hc) as [Hc' Hk]. split; [exact Hg|]. split; [exact Hc'|].
  intros Hs. destruct (Hk Hs) as (X & Y & Z'). destruct (Hb X) as (rbs & Hr & Hx). exists rbs. rewrite Y, Z'. auto.
Qed.

Lemma K_not_cf s s' : 0 <= tx_block_counter s' -> tx_state s' <> TxTransmitCF -> K s s'.
Proof. intros H0 H _. split; [exact H0|]. intros E. contradiction. Qed.

Lemma K_same s s' : tx_state s' = tx_state s -> remote_bs s' = remote_bs s -> tx_block_counter s' = tx_block_counter s -> K s s'.
Proof. intros H1 H2 H3 H0. split; [lia|]. intros E. repeat split; congruence. Qed.

Lemma K_stop_sending b s : K s (fst (stop_sending b s)).
Proof. apply K_not_cf; cbn; [lia|discriminate]. Qed.

Lemma K_lim_inform p n s : K s (lim_inform p n s).
Proof.
  unfold lim_inform. destruct (negb (p_lim_enable p)); [apply K_refl|].
  destruct (lim_times s); [apply K_same; reflexivity|]. destruct (SLOT_NS <? _); apply K_same; reflexivity.
Qed.

Lemma K_tx_finish p s evs out imm : K s (tr_s (tx_finish p s evs out imm)).
Proof. unfold tx_finish. destruct out; cbn [tr_s mk_tr]; [apply K_lim_inform|apply K_refl]. Qed.

Lemma K_start_request c s r allowed s' evs out :
  start_request c s r allowed = SRDone s' evs out -> K s s'.
Proof.
  unfold start_request.
  destruct (r_size r <=? _).
  - destruct (consume (r_size r) true r) as [[payload|] r'].
    + destruct (make_tx_msg _ _ _); [|discriminate].
      destruct (allowed <? _); intros E; injection E as <- _ _; intros H0; (split; [cbn; lia|cbn; discriminate]).
    + intros E; injection E as <- _ _; intros H0; (split; [cbn; lia|cbn; discriminate]).
  - destruct (consume _ true r) as [[payload|] r'].
    + destruct (make_tx_msg _ _ _); [|discriminate].
      destruct (_ <=? allowed); intros E; injection E as <- _ _; intros H0; (split; [cbn; lia|cbn; discriminate]).
    + intros E; injection E as <- _ _; intros H0; (split; [cbn; lia|cbn; discriminate]).
Qed.

Lemma K_idle_dequeue c q : forall s evs allowed s' evs' out,
  tx_state s <> TxTransmitCF ->
  idle_dequeue c q s evs allowed = SRDone s' evs' out -> K s s'.
Proof.
  induction q as [|r rest IH]; intros s evs allowed s' evs' out Hs; cbn [idle_dequeue].
  - intros E; injection E as <- _ _. intros H0. split; [cbn; lia|]. cbn. intros E; contradiction.
  - destruct (r_is_depleted r).
    + intros E. apply IH in E; [|exact Hs]. eapply K_trans; [|exact E]. apply K_same; reflexivity.
    + destruct (start_request _ _ _ _) as [site|s1 e1 o1] eqn:Es; [discriminate|].
      intros E; injection E as <- _ _. apply K_start_request in Es.
      eapply K_trans; [|exact Es]. apply K_same; reflexivity.
Qed.

(** this Flow Control, read in this state, is an accepted ContinueToSend *)
Definition cts_acc1 (s : layer) (f : fcpdu) : bool :=
  negb (fc_status f =? FS_OVFLW) &&
  (match tx_state s with TxWaitFC | TxTransmitCF => true | _ => false end) &&
  negb (fc_status f =? FS_WAIT) && (fc_status f =? FS_CTS) && negb (timer_timed_out (now s) (timer_rx_fc s)).

Lemma handle_fc_cases c s f : 0 <= tx_block_counter s ->
  if cts_acc1 s f then fst (handle_fc c s f) = false /\ B 0 (fst (snd (handle_fc c s f)))
  else K s (fst (snd (handle_fc c s f))).
Proof.
  intros H0. unfold cts_acc1, handle_fc.
  destruct (fc_status f =? FS_OVFLW); cbn [negb andb]; [apply (K_stop_sending false)|].
  cbn [fst snd].
  destruct (tx_state s) eqn:Est; cbn [andb]; try apply K_refl.
  - (* WAIT_FC *)
    unfold handle_fc_active. destruct (fc_status f =? FS_WAIT); cbn [negb andb].
    + destruct (p_wftmax _ =? 0); [apply K_refl|]. destruct (timer_timed_out _ _); [apply K_refl|].
      destruct (p_wftmax _ <=? _); [apply (K_stop_sending false)|]. apply K_not_cf; cbn; [lia|discriminate].
    + destruct (fc_status f =? FS_CTS); cbn [andb]; [|apply K_refl].
      destruct (timer_timed_out _ _); cbn [negb]; [apply K_refl|].
      split; [reflexivity|]. cbn [fst]. cbn [tx_state set RecordSet.set]. rewrite Est. unfold B. cbn.
      split; [lia|]. split; [lia|]. intros _. eexists. split; [reflexivity|]. intros _. split; [lia|]. right. reflexivity.
  - (* TRANSMIT_CF *)
    unfold handle_fc_active. destruct (fc_status f =? FS_WAIT); cbn [negb andb].
    + destruct (p_wftmax _ =? 0); [apply K_refl|]. destruct (timer_timed_out _ _); [apply K_refl|].
      destruct (p_wftmax _ <=? _); [apply (K_stop_sending false)|]. apply K_not_cf; cbn; [lia|discriminate].
    + destruct (fc_status f =? FS_CTS); cbn [andb]; [|apply K_refl].
      destruct (timer_timed_out _ _); cbn [negb]; [apply K_refl|].
      split; [reflexivity|]. cbn [fst]. cbn [tx_state set RecordSet.set]. rewrite Est. unfold B. cbn.
      split; [lia|]. split; [lia|]. intros _. eexists. split; [reflexivity|]. intros _. split; [lia|]. right. reflexivity.
Qed.

(** does the flow-control part of this transmit pass accept a ContinueToSend? *)
Definition cts_accepted (c : cfg) (s : layer) : bool :=
  match tx_input c s with
  | Some s1 => match last_fc s1 with Some f => cts_acc1 (s1 <| last_fc := None |>) f | None => false end
  | None => false
  end.

Lemma B_stop g b s : 0 <= g -> B g (fst (stop_sending b s)).
Proof. intros Hg. unfold B. cbn. split; [exact Hg|]. split; [lia|]. intros H; discriminate. Qed.

Lemma tx_after_fc_cases c s g : B g s ->
  let acc := match last_fc s with Some f => cts_acc1 (s <| last_fc := None |>) f | None => false end in
  match tx_after_fc c s with
  | inl r => B (if acc then 0 else g) (tr_s r)
  | inr (s', _) => B (if acc then 0 else g) s'
  end.
Proof.
  intros HB acc. pose proof HB as (Hg & Hc & _). unfold tx_after_fc.
  set (s0 := s <| last_fc := None |>) in *.
  assert (HB0 : B g s0) by (apply (B_K g s); [exact HB|apply K_same; reflexivity]).
  set (g1 := if acc then 0 else g).
  assert (Hg1 : 0 <= g1) by (subst g1; destruct acc; lia).
  assert (Ha : forall b s1 e, (match last_fc s with None => (false, (s0, [])) | Some f => handle_fc c s0 f end) = (b, (s1, e)) -> B g1 s1).
  { intros b s1 e. subst g1 acc. destruct (last_fc s) as [f|].
    - intros E. pose proof (handle_fc_cases c s0 f Hc) as H. rewrite E in H. cbn [fst snd] in H.
      destruct (cts_acc1 s0 f); [exact (proj2 H)|exact (B_K _ _ _ HB0 H)].
    - intros E; injection E as _ <- _. exact HB0. }
  destruct (match last_fc s with None => (false, (s0, [])) | Some f => handle_fc c s0 f end) as [b [s1 evs1]] eqn:E.
  specialize (Ha b s1 evs1 eq_refl).
  destruct b; [exact Ha|].
  assert (Hto : B g1 (fst (if timer_timed_out (now s1) (timer_rx_fc s1)
                          then let '(s', e) := stop_sending false s1 in (s', EErr FlowControlTimeout :: e)
                          else (s1, [])))).
  { destruct (timer_timed_out _ _); [|exact Ha].
    pose proof (B_stop g1 false s1 Hg1) as Hss. destruct (stop_sending false s1) as [s' e']. exact Hss. }
  destruct (if timer_timed_out (now s1) (timer_rx_fc s1) then _ else _) as [s2 evs2]. cbn [fst] in Hto.
  destruct (tx_state s2) eqn:Est; [exact Hto|..];
    (destruct (active s2) as [r|]; [|exact Hto];
     destruct (r_is_depleted r && _); [|exact Hto];
     pose proof (B_stop g1 true s2 Hg1) as Hss; destruct (stop_sending true s2) as [s3 e3]; exact Hss).
Qed.

Lemma tx_cf_counter c a s evs : 0 <= tx_block_counter s ->
  0 <= tx_block_counter (tr_s (tx_cf c a s evs)) /\ (tr_msg (tx_cf c a s evs) = None -> K s (tr_s (tx_cf c a s evs))).
Proof.
  intros H0.
  assert (Hli : forall p n s0, tx_block_counter (lim_inform p n s0) = tx_block_counter s0).
  { intros p n s0. unfold lim_inform. destruct (negb (p_lim_enable p)); [auto|].
    destruct (lim_times s0); [cbn; auto|]. destruct (SLOT_NS <? _); cbn; auto. }
  assert (Hsame : forall s', K s s' -> 0 <= tx_block_counter s' /\ (@None frame = None -> K s s')).
  { intros s' HK. split; [apply (HK H0)|auto]. }
  unfold tx_cf.
  destruct (remote_bs s) as [rbs|] eqn:Erb; [|cbn [tr_s tr_msg mk_crash]; apply Hsame; apply K_same; reflexivity].
  destruct (active s) as [r|]; [|cbn [tr_s tr_msg mk_crash]; apply Hsame; apply K_same; reflexivity].
  destruct (timer_timed_out _ _); [|unfold tx_finish; cbn [tr_s tr_msg mk_tr]; apply Hsame; apply K_refl].
  destruct (_ <=? a); [|unfold tx_finish; cbn [tr_s tr_msg mk_tr]; apply Hsame; apply K_refl].
  destruct (consume _ false r) as [[payload|] r']; [|cbn [tr_s tr_msg mk_crash]; apply Hsame; apply K_same; reflexivity].
  destruct (0 <? zlen payload).
  - destruct (make_tx_msg _ _ _) as [mm|]; [|cbn [tr_s tr_msg mk_crash]; apply Hsame; apply K_same; reflexivity].
    destruct (r_is_depleted r').
    + destruct (0 <? r_remaining r'); unfold stop_sending, tx_finish; cbv beta iota; cbn [tr_msg tr_s mk_tr];
        rewrite Hli; cbn; (split; [lia|intros H; discriminate]).
    + destruct (negb (rbs =? 0) && _); unfold tx_finish; cbn [tr_msg tr_s mk_tr]; rewrite Hli; cbn; (split; [lia|intros H; discriminate]).
  - destruct (r_is_depleted r').
    + destruct (0 <? r_remaining r'); unfold stop_sending, tx_finish; cbv beta iota; cbn [tr_msg tr_s mk_tr]; cbn;
        (split; [lia|intros _; apply K_not_cf; cbn; [lia|discriminate]]).
    + destruct (negb (rbs =? 0) && _); unfold tx_finish; cbn [tr_msg tr_s mk_tr]; cbn.
      * split; [lia|intros _; apply K_not_cf; cbn; [lia|discriminate]].
      * split; [lia|intros _; apply K_same; reflexivity].
Qed.

(** the Consecutive Frame branch: an emission is within the grant and counts; otherwise nothing changes *)
Lemma tx_cf_block_run c a s evs g : B g s -> tx_state s = TxTransmitCF ->
  match tr_msg (tx_cf c a s evs) with
  | None => B g (tr_s (tx_cf c a s evs))
  | Some _ =>
      (exists rbs, remote_bs s = Some rbs /\ (rbs <> 0 -> g < Z.max 1 rbs)) /\
      B (g + 1) (tr_s (tx_cf c a s evs))
  end.
Proof.
  intros HB Hst. pose proof HB as (Hg & Hc & Hb). destruct (Hb Hst) as (rbs & Hrb & Hx).
  pose proof (tx_cf_pacing c a s evs Hst) as Hp.
  destruct (tr_msg (tx_cf c a s evs)) as [m|] eqn:Em.
  - split.
    + exists rbs. split; [exact Hrb|]. intros Hn. destruct (Hx Hn) as [H1 [H2|H2]]; lia.
    + pose proof (CoopP.tx_cf_block c a s evs m rbs Hst Hrb Em) as Hblk. cbv zeta in Hblk.
      unfold B. split; [lia|].
      destruct Hblk as [Hi|[(Hw & Hcond)|(Hcf & Hcond & Hcn & Hr)]].
      * split; [exact (proj1 (tx_cf_counter c a s evs Hc))|intros E; congruence].
      * split; [exact (proj1 (tx_cf_counter c a s evs Hc))|intros E; congruence].
      * split; [lia|]. intros _. exists rbs. split; [exact Hr|]. intros Hn.
        apply andb_false_iff in Hcond. destruct Hcond as [Hz|Hle]; [apply negb_false_iff, Z.eqb_eq in Hz; contradiction|].
        apply Z.leb_gt in Hle. destruct (Hx Hn) as [H1 _]. split; [lia|]. left. lia.
  - exact (B_K _ _ _ HB (proj2 (tx_cf_counter c a s evs Hc) Em)).
Qed.

Lemma K_tx_fsm_other c a s evs : tx_state s <> TxTransmitCF -> K s (tr_s (tx_fsm c a s evs)).
Proof.
  intros Hn. unfold tx_fsm. destruct (tx_state s) eqn:Est; [| |contradiction| |].
  - destruct (idle_dequeue _ _ _ _ _) as [site|s4 e4 out] eqn:Ed; [cbn; apply K_refl|].
    apply K_idle_dequeue in Ed; [|congruence]. exact (K_trans _ _ _ Ed (K_tx_finish _ _ _ _ _)).
  - apply K_tx_finish.
  - destruct (tx_standby s); [|apply K_tx_finish].
    destruct (_ <=? a); [|apply K_tx_finish]. unfold stop_sending; cbv beta iota.
    eapply K_trans; [|apply K_tx_finish]. apply K_not_cf; cbn; [lia|discriminate].
  - destruct (tx_standby s); [|apply K_tx_finish].
    destruct (_ <=? a); [|apply K_tx_finish].
    eapply K_trans; [|apply K_tx_finish]. intros H0. split; [cbn; lia|cbn; discriminate].
Qed.

Lemma K_tx_input c s s1 : tx_input c s = Some s1 -> K s s1 /\ last_fc s1 = last_fc s.
Proof.
  unfold tx_input. destruct (pending_fc s); [|intros E; injection E as <-; split; [apply K_refl|reflexivity]].
  cbv zeta. destruct (negb (p_listen (c_p c))); [discriminate|].
  intros E; injection E as <-. destruct (opt_eqb _ _); (split; [apply K_same; reflexivity|reflexivity]).
Qed.

Lemma K_fc_only c s : tx_input c s = None -> K s (tr_s (process_tx c s)).
Proof.
  unfold tx_input, process_tx. destruct (pending_fc s); [|discriminate].
  cbv zeta. destruct (negb (p_listen (c_p c))); [|discriminate]. intros _.
  destruct (opt_eqb _ _); (destruct (pending_fc_status _) as [st|]; [destruct (make_flow_control c st)|]);
    cbn [tr_s mk_tr mk_crash]; apply K_same; reflexivity.
Qed.

(** ghost after a pass: reset by an accepted ContinueToSend, incremented by an emitted Consecutive Frame *)
Definition gpass (c : cfg) (s : layer) (g : Z) : Z :=
  let g1 := if cts_accepted c s then 0 else g in
  match cf_emitted c s with Some _ => g1 + 1 | None => g1 end.

(** the Consecutive Frame emitted by this pass (if any) is within the grant *)
Definition within_grant (c : cfg) (s : layer) (g : Z) : Prop :=
  match cf_emitted c s with
  | Some s3 => exists rbs, remote_bs s3 = Some rbs /\ (rbs <> 0 -> (if cts_accepted c s then 0 else g) < Z.max 1 rbs)
  | None => True
  end.

Theorem tx_pass_block c s g : B g s -> within_grant c s g /\ B (gpass c s g) (tr_s (process_tx c s)).
Proof.
  intros HB. unfold within_grant, gpass, cts_accepted, cf_emitted, cf_pass.
  pose proof (process_tx_by_input c s) as Hp. pose proof (K_tx_input c s) as Hi. pose proof (K_fc_only c s) as Hfo.
  destruct (tx_input c s) as [s1|].
  2: { split; [exact I|]. exact (B_K _ _ _ HB (Hfo eq_refl)). }
  destruct (Hi s1 eq_refl) as [HK1 Hlf]. rewrite Hp. unfold process_tx_main.
  assert (HB1 : B g s1) by exact (B_K _ _ _ HB HK1).
  pose proof (tx_after_fc_cases c s1 g HB1) as Hf. cbv zeta in Hf.
  set (acc := match last_fc s1 with Some f => cts_acc1 (s1 <| last_fc := None |>) f | None => false end) in *.
  destruct (tx_after_fc c s1) as [r|[s3 evs]]; [split; [exact I|exact Hf]|].
  destruct (txst_eqb (tx_state s3) TxTransmitCF) eqn:Ecf.
  - apply txst_eqb_true in Ecf.
    assert (Hfsm : tx_fsm c (lim_allowed_bytes (c_p c) s) s3 evs = tx_cf c (lim_allowed_bytes (c_p c) s) s3 evs)
      by (unfold tx_fsm; rewrite Ecf; reflexivity).
    rewrite Hfsm. pose proof (tx_cf_block_run c (lim_allowed_bytes (c_p c) s) s3 evs _ Hf Ecf) as Hc.
    destruct (tr_msg (tx_cf _ _ _ _)) as [m|]; [exact Hc|split; [exact I|exact Hc]].
  - assert (Hne : tx_state s3 <> TxTransmitCF).
    { intros E. apply txst_eqb_true in E. congruence. }
    split; [exact I|]. exact (B_K _ _ _ Hf (K_tx_fsm_other c _ s3 evs Hne)).
Qed.

(** *** Whole runs *)
Definition gstepb (c : cfg) (s : layer) (g : Z) (m : micro) : Z :=
  match m with MTx => gpass c s g | _ => g end.

Definition grant_ok (c : cfg) (s : layer) (g : Z) (m : micro) : Prop :=
  match m with MTx => within_grant c s g | _ => True end.

Fixpoint granted (c : cfg) (s : layer) (g : Z) (ms : list micro) : Prop :=
  match ms with
  | [] => True
  | m :: rest => grant_ok c s g m /\ granted c (fst (mstep c s m)) (gstepb c s g m) rest
  end.

Lemma txv_K s s' : txv s' = txv s -> K s s'.
Proof.
  unfold txv. intros E.
  pose proof (f_equal (fun '(_, st, _, _, _, rb, bc, _, _, _, _, _, _, _, _, _) => (st, rb, bc)) E) as E'.
  cbv beta iota in E'. injection E' as E1 E2 E3. apply K_same; assumption.
Qed.

Lemma B_step c s g m : B g s -> grant_ok c s g m /\ B (gstepb c s g m) (fst (mstep c s m)).
Proof.
  intros HB.
  assert (Hkeep : forall s', K s s' -> B g s') by (intros s' HK; exact (B_K _ _ _ HB HK)).
  destruct m; cbn [grant_ok gstepb mstep fst]; try (split; [exact I|]).
  - apply Hkeep, txv_K, check_timeouts_preserves_tx.
  - apply Hkeep.
    destruct (pdu_decode (f_data f) (c_rx_prefix_size c)) as [d|] eqn:Ed.
    + destruct (d_pdu d) as [esc l data|l len data|sn data|fs bs st] eqn:Ep.
      4: { rewrite (rx_fc_only_mailbox c s f d fs bs st Ed Ep). cbn [rr_s mk_rr]. apply K_same; reflexivity. }
      all: apply txv_K, rx_data_preserves_tx; intros d' fs' bs' st' Hd'; rewrite Ed in Hd'; injection Hd' as <-; rewrite Ep; discriminate.
    + apply txv_K, rx_data_preserves_tx. intros d' fs' bs' st' Hd'. rewrite Ed in Hd'. discriminate.
  - apply Hkeep. unfold lim_update. destruct (negb _); [apply K_same; reflexivity|].
    destruct (lim_pop _ _ _ _ _) as [[ts bs] tot]. apply K_same; reflexivity.
  - apply tx_pass_block. exact HB.
  - apply Hkeep. unfold send. destruct (size <? 0); [apply K_refl|]. destruct (_ <? size); [apply K_refl|].
    destruct (match match t with Some x => x | None => _ end with Functional => _ | Physical => _ end); [apply K_refl|].
    apply K_same; reflexivity.
  - apply Hkeep. unfold recv. destruct (rx_queue s); [apply K_refl|apply K_same; reflexivity].
  - apply Hkeep. apply K_stop_sending.
  - apply Hkeep. apply K_same; reflexivity.
  - apply Hkeep. apply K_not_cf; cbn; [lia|discriminate].
  - apply Hkeep. apply K_same; reflexivity.
Qed.

(** Along any run of micro-steps, every Consecutive Frame that leaves is within the block size of the
    most recently accepted ContinueToSend ([within_grant]: fewer than max(1, blocksize) Consecutive
    Frames were sent since that ContinueToSend, or the block size is 0 = unlimited). *)
Theorem granted_run c : forall ms s g, B g s -> granted c s g ms.
Proof.
  induction ms as [|m rest IH]; intros s g HB; cbn [granted]; [exact I|].
  destruct (B_step c s g m HB) as [Hg Hb]. split; [exact Hg|]. apply IH. exact Hb.
Qed.

Corollary granted_from_init c t0 ms : granted c (init_layer c t0) 0 ms.
Proof. apply granted_run. unfold B. cbn. split; [lia|]. split; [lia|]. intros H; discriminate. Qed.
