(** Which events each part of the layer can produce. *)
From IsoTp Require Import Base.Prelude Model.Micro.

Definition is_rx_err (e : errclass) : bool :=
  match e with
  | InvalidCanData | MissingEscapeSequence | InvalidCanFdFirstFrameRXDL | FrameTooLong
  | UnexpectedConsecutiveFrame | InterruptedWithSF | InterruptedWithFF | ChangingInvalidRXDL
  | WrongSequenceNumber => true
  | _ => false
  end.

Definition is_tx_err (e : errclass) : bool :=
  match e with
  | OverflowErr | UnexpectedFlowControl | UnsupportedWaitFrame | MaximumWaitFrameReached
  | FlowControlTimeout | BadGenerator => true
  | _ => false
  end.

Definition rx_ev_ok (e : event) : bool := match e with EErr x => is_rx_err x | _ => false end.
Definition tx_ev_ok (e : event) : bool :=
  match e with EErr x => is_tx_err x | EDone _ _ => true | ETx _ => false | ECrash _ => false end.

Lemma forallb_app' {A} (f : A -> bool) a b : forallb f a = true -> forallb f b = true -> forallb f (a ++ b) = true.
Proof. intros; rewrite forallb_app; rewrite H, H0; reflexivity. Qed.

Lemma start_reception_evs c s len data rxdl :
  forallb rx_ev_ok (snd (fst (start_reception_after_ff c s len data rxdl))) = true.
Proof.
  unfold start_reception_after_ff.
  destruct (negb (valid_rxdl rxdl)); [reflexivity|].
  destruct (p_max_frame_size (c_p c) <? len); reflexivity.
Qed.

(** _process_rx only reports reception errors; it emits no frame and completes no request. *)
Theorem process_rx_evs c s f : forallb rx_ev_ok (rr_evs (process_rx c s f)) = true.
Proof.
  unfold process_rx.
  destruct (pdu_decode _ _) as [d|]; [|reflexivity].
  destruct (d_pdu d) as [esc len data|esc len data|sn data|fs bs st]; try reflexivity.
  - destruct ((8 <? d_can_dl d) && negb esc); [reflexivity|].
    destruct (rx_state s); reflexivity.
  - cbn [negb andb]. cbv iota. destruct (rx_state s).
    + pose proof (start_reception_evs c (s <| rx_frame_length := 0 |> <| timer_rx_cf ::= timer_stop |>) len data (d_rx_dl d)) as He.
      destruct (start_reception_after_ff _ _ _ _ _) as [[s2 evs] st]. exact He.
    + pose proof (start_reception_evs c s len data (d_rx_dl d)) as He.
      destruct (start_reception_after_ff _ _ _ _ _) as [[s2 evs] st]. simpl in *.
      apply forallb_app'; [exact He|reflexivity].
  - cbv iota. destruct (rx_state s); [reflexivity|].
    destruct (sn =? _); [|reflexivity].
    destruct (negb _ && _); [reflexivity|].
    cbn. destruct (rx_frame_length s <=? _); [reflexivity|].
    cbn. destruct (_ && _); reflexivity.
Qed.

Lemma check_timeouts_evs s :
  snd (check_timeouts_rx s) = [] \/ snd (check_timeouts_rx s) = [EErr ConsecutiveFrameTimeout].
Proof. unfold check_timeouts_rx. destruct (timer_timed_out _ _); auto. Qed.

Lemma stop_sending_evs b s : forallb tx_ev_ok (snd (stop_sending b s)) = true.
Proof. unfold stop_sending. destruct (active s); reflexivity. Qed.

Lemma start_request_evs c s r allowed s' evs out :
  start_request c s r allowed = SRDone s' evs out -> forallb tx_ev_ok evs = true.
Proof.
  unfold start_request.
  destruct (r_size r <=? _).
  - destruct (consume _ true r) as [[payload|] r'].
    + destruct (make_tx_msg _ _ _); [|discriminate].
      destruct (allowed <? _).
      * intros E; injection E as _ <- _; reflexivity.
      * pose proof (stop_sending_evs true (s <| active := Some r' |>)) as He.
        destruct (stop_sending _ _). intros E; injection E as _ <- _. exact He.
    + match goal with |- context [stop_sending false ?x] => pose proof (stop_sending_evs false x) as He; destruct (stop_sending false x) end.
      intros E; injection E as _ <- _. exact He.
  - destruct (consume _ true r) as [[payload|] r'].
    + destruct (make_tx_msg _ _ _); [|discriminate].
      destruct (_ <=? allowed); intros E; injection E as _ <- _; reflexivity.
    + match goal with |- context [stop_sending false ?x] => pose proof (stop_sending_evs false x) as He; destruct (stop_sending false x) end.
      intros E; injection E as _ <- _. exact He.
Qed.

Lemma idle_dequeue_evs c q : forall s evs allowed s' evs' out,
  forallb tx_ev_ok evs = true ->
  idle_dequeue c q s evs allowed = SRDone s' evs' out -> forallb tx_ev_ok evs' = true.
Proof.
  induction q as [|r rest IH]; intros s evs allowed s' evs' out He; simpl.
  - intros E; injection E as _ <- _; exact He.
  - destruct (r_is_depleted r).
    + apply IH. apply forallb_app'; [exact He|reflexivity].
    + destruct (start_request c _ r allowed) as [|s2 evs2 out2] eqn:Es; [discriminate|].
      intros E; injection E as _ <- _. apply forallb_app'; [exact He|].
      eapply start_request_evs; eauto.
Qed.

Lemma handle_fc_active_evs c s fc : forallb tx_ev_ok (snd (handle_fc_active c s fc)) = true.
Proof.
  unfold handle_fc_active.
  destruct (fc_status fc =? FS_WAIT).
  - destruct (p_wftmax (c_p c) =? 0); [reflexivity|].
    destruct (timer_timed_out _ _); [reflexivity|].
    destruct (p_wftmax (c_p c) <=? wft_counter s); [|reflexivity].
    pose proof (stop_sending_evs false s) as He. destruct (stop_sending false s). exact He.
  - destruct (_ && _); reflexivity.
Qed.

Lemma handle_fc_evs c s fc : forallb tx_ev_ok (snd (snd (handle_fc c s fc))) = true.
Proof.
  unfold handle_fc.
  destruct (fc_status fc =? FS_OVFLW).
  - pose proof (stop_sending_evs false s) as He. destruct (stop_sending false s).
    apply forallb_app'; [exact He|reflexivity].
  - destruct (tx_state s); try reflexivity; apply handle_fc_active_evs.
Qed.

Lemma tx_finish_evs p s evs out imm : tr_evs (tx_finish p s evs out imm) = evs.
Proof. unfold tx_finish; destruct out; reflexivity. Qed.

Lemma tx_after_fc_evs c s :
  match tx_after_fc c s with
  | inl r => tr_crash r = false -> forallb tx_ev_ok (tr_evs r) = true
  | inr (_, evs) => forallb tx_ev_ok evs = true
  end.
Proof.
  unfold tx_after_fc.
  assert (Hfc : forallb tx_ev_ok (snd (snd (match last_fc s with
            | None => (false, (s <| last_fc := None |>, []))
            | Some f => handle_fc c (s <| last_fc := None |>) f end))) = true).
  { destruct (last_fc s); [apply handle_fc_evs|reflexivity]. }
  destruct (match last_fc s with None => _ | Some f => _ end) as [early [s1 evs1]]. simpl in Hfc.
  destruct early; [intros _; exact Hfc|].
  assert (Hto : forallb tx_ev_ok (snd (if timer_timed_out (now s1) (timer_rx_fc s1)
        then let '(s', e) := stop_sending false s1 in (s', EErr FlowControlTimeout :: e) else (s1, []))) = true).
  { destruct (timer_timed_out _ _); [|reflexivity].
    pose proof (stop_sending_evs false s1) as He. destruct (stop_sending false s1). exact He. }
  destruct (if timer_timed_out (now s1) (timer_rx_fc s1) then _ else _) as [s2 evs2]. simpl in Hto.
  assert (H12 : forallb tx_ev_ok (evs1 ++ evs2) = true) by (apply forallb_app'; assumption).
  destruct (tx_state s2); [exact H12| | | |];
  (destruct (active s2); [|intros Hc; discriminate];
   destruct (r_is_depleted _ && _); [|exact H12];
   pose proof (stop_sending_evs true s2) as He; destruct (stop_sending true s2);
   rewrite app_assoc; apply forallb_app'; assumption).
Qed.

Lemma tx_cf_evs c allowed s evs :
  forallb tx_ev_ok evs = true ->
  tr_crash (tx_cf c allowed s evs) = false -> forallb tx_ev_ok (tr_evs (tx_cf c allowed s evs)) = true.
Proof.
  intros He. unfold tx_cf.
  destruct (remote_bs s); [|discriminate].
  destruct (active s); [|discriminate].
  destruct (timer_timed_out _ _); [|rewrite tx_finish_evs; auto].
  destruct (_ <=? allowed); [|rewrite tx_finish_evs; auto].
  destruct (consume _ false r) as [[payload|] r']; [|discriminate].
  match goal with |- context [match ?e with Some _ => _ | None => mk_crash _ _ 7 end] => destruct e as [[s5 out]|] end; [|discriminate].
  destruct (r_is_depleted r').
  - destruct (0 <? r_remaining r').
    + pose proof (stop_sending_evs false s5) as H5. destruct (stop_sending false s5).
      rewrite tx_finish_evs. intros _. apply forallb_app'; [exact He|exact H5].
    + pose proof (stop_sending_evs true s5) as H5. destruct (stop_sending true s5).
      rewrite tx_finish_evs. intros _. apply forallb_app'; [exact He|exact H5].
  - destruct (negb _ && _); rewrite tx_finish_evs; auto.
Qed.

Lemma tx_fsm_evs c allowed s evs :
  forallb tx_ev_ok evs = true ->
  tr_crash (tx_fsm c allowed s evs) = false -> forallb tx_ev_ok (tr_evs (tx_fsm c allowed s evs)) = true.
Proof.
  intros He. unfold tx_fsm.
  destruct (tx_state s).
  - destruct (idle_dequeue c (tx_queue s) s [] allowed) as [|s4 evs4 out] eqn:Ei; [discriminate|].
    rewrite tx_finish_evs. intros _. apply forallb_app'; [exact He|].
    eapply idle_dequeue_evs; [|exact Ei]. reflexivity.
  - rewrite tx_finish_evs; auto.
  - apply tx_cf_evs; exact He.
  - destruct (tx_standby s); [|rewrite tx_finish_evs; auto].
    destruct (_ <=? allowed); [|rewrite tx_finish_evs; auto].
    match goal with |- context [stop_sending true ?x] => pose proof (stop_sending_evs true x) as H5; destruct (stop_sending true x) end.
    rewrite tx_finish_evs. intros _. apply forallb_app'; assumption.
  - destruct (tx_standby s); [|rewrite tx_finish_evs; auto].
    destruct (_ <=? allowed); rewrite tx_finish_evs; auto.
Qed.

(** _process_tx only reports transmission errors and request completions (its frame is
    handed to txfn by the caller). *)
Theorem process_tx_evs c s :
  tr_crash (process_tx c s) = false -> forallb tx_ev_ok (tr_evs (process_tx c s)) = true.
Proof.
  unfold process_tx.
  assert (Hmain : forall a s2, tr_crash (process_tx_main c a s2) = false ->
                          forallb tx_ev_ok (tr_evs (process_tx_main c a s2)) = true).
  { intros a s2. unfold process_tx_main. pose proof (tx_after_fc_evs c s2) as Hf.
    destruct (tx_after_fc c s2) as [r|[s3 evs]]; [exact Hf|]. apply tx_fsm_evs; exact Hf. }
  destruct (pending_fc s); [|apply Hmain].
  destruct (negb (p_listen (c_p c))); [|apply Hmain].
  match goal with |- context [pending_fc_status ?x] => destruct (pending_fc_status x) end; [|discriminate].
  destruct (make_flow_control c z); [reflexivity|discriminate].
Qed.

(** ** Finer classification, used for the timeout theorems *)
Definition done_only (e : event) : bool := match e with EDone _ _ => true | _ => false end.
Definition fsm_ev_ok (e : event) : bool :=
  match e with EErr BadGenerator => true | EDone _ _ => true | _ => false end.
Definition fc_ev_ok (e : event) : bool :=
  match e with
  | EErr OverflowErr | EErr UnexpectedFlowControl | EErr UnsupportedWaitFrame
  | EErr MaximumWaitFrameReached => true
  | EDone _ _ => true
  | _ => false
  end.

Lemma forallb_impl {A} (f g : A -> bool) l : (forall x, f x = true -> g x = true) ->
  forallb f l = true -> forallb g l = true.
Proof. intros H. induction l; simpl; [auto|]. rewrite !andb_true_iff. intros [H1 H2]. auto. Qed.

Lemma stop_sending_done b s : forallb done_only (snd (stop_sending b s)) = true.
Proof. unfold stop_sending. destruct (active s); reflexivity. Qed.

Lemma done_fsm l : forallb done_only l = true -> forallb fsm_ev_ok l = true.
Proof. apply forallb_impl. intros [] H; try discriminate; reflexivity. Qed.
Lemma done_fc l : forallb done_only l = true -> forallb fc_ev_ok l = true.
Proof. apply forallb_impl. intros [] H; try discriminate; reflexivity. Qed.

Lemma handle_fc_active_fc c s fc : forallb fc_ev_ok (snd (handle_fc_active c s fc)) = true.
Proof.
  unfold handle_fc_active.
  destruct (fc_status fc =? FS_WAIT).
  - destruct (p_wftmax (c_p c) =? 0); [reflexivity|].
    destruct (timer_timed_out _ _); [reflexivity|].
    destruct (p_wftmax (c_p c) <=? wft_counter s); [|reflexivity].
    pose proof (done_fc _ (stop_sending_done false s)) as He. destruct (stop_sending false s). exact He.
  - destruct (_ && _); reflexivity.
Qed.

Lemma handle_fc_fc c s fc : forallb fc_ev_ok (snd (snd (handle_fc c s fc))) = true.
Proof.
  unfold handle_fc.
  destruct (fc_status fc =? FS_OVFLW).
  - pose proof (done_fc _ (stop_sending_done false s)) as He. destruct (stop_sending false s).
    apply forallb_app'; [exact He|reflexivity].
  - destruct (tx_state s); try reflexivity; apply handle_fc_active_fc.
Qed.

Lemma start_request_fsm c s r allowed s' evs out :
  start_request c s r allowed = SRDone s' evs out -> forallb fsm_ev_ok evs = true.
Proof.
  unfold start_request.
  destruct (r_size r <=? _).
  - destruct (consume _ true r) as [[payload|] r'].
    + destruct (make_tx_msg _ _ _); [|discriminate].
      destruct (allowed <? _).
      * intros E; injection E as _ <- _; reflexivity.
      * pose proof (done_fsm _ (stop_sending_done true (s <| active := Some r' |>))) as He.
        destruct (stop_sending _ _). intros E; injection E as _ <- _. exact He.
    + match goal with |- context [stop_sending false ?x] => pose proof (done_fsm _ (stop_sending_done false x)) as He; destruct (stop_sending false x) end.
      intros E; injection E as _ <- _. exact He.
  - destruct (consume _ true r) as [[payload|] r'].
    + destruct (make_tx_msg _ _ _); [|discriminate].
      destruct (_ <=? allowed); intros E; injection E as _ <- _; reflexivity.
    + match goal with |- context [stop_sending false ?x] => pose proof (done_fsm _ (stop_sending_done false x)) as He; destruct (stop_sending false x) end.
      intros E; injection E as _ <- _. exact He.
Qed.

Lemma idle_dequeue_fsm c q : forall s evs allowed s' evs' out,
  forallb fsm_ev_ok evs = true ->
  idle_dequeue c q s evs allowed = SRDone s' evs' out -> forallb fsm_ev_ok evs' = true.
Proof.
  induction q as [|r rest IH]; intros s evs allowed s' evs' out He; simpl.
  - intros E; injection E as _ <- _; exact He.
  - destruct (r_is_depleted r).
    + apply IH. apply forallb_app'; [exact He|reflexivity].
    + destruct (start_request c _ r allowed) as [|s2 evs2 out2] eqn:Es; [discriminate|].
      intros E; injection E as _ <- _. apply forallb_app'; [exact He|].
      eapply start_request_fsm; eauto.
Qed.

Lemma tx_cf_fsm c allowed s evs :
  tr_crash (tx_cf c allowed s evs) = false ->
  exists new, tr_evs (tx_cf c allowed s evs) = evs ++ new /\ forallb fsm_ev_ok new = true.
Proof.
  unfold tx_cf.
  assert (Hnil : exists new, evs = evs ++ new /\ forallb fsm_ev_ok new = true)
    by (exists []; rewrite app_nil_r; auto).
  destruct (remote_bs s); [|discriminate].
  destruct (active s); [|discriminate].
  destruct (timer_timed_out _ _); [|rewrite tx_finish_evs; auto].
  destruct (_ <=? allowed); [|rewrite tx_finish_evs; auto].
  destruct (consume _ false r) as [[payload|] r']; [|discriminate].
  match goal with |- context [match ?e with Some _ => _ | None => mk_crash _ _ 7 end] => destruct e as [[s5 out]|] end; [|discriminate].
  destruct (r_is_depleted r').
  - destruct (0 <? r_remaining r').
    + pose proof (done_fsm _ (stop_sending_done false s5)) as H5. destruct (stop_sending false s5) as [s6 e6].
      rewrite tx_finish_evs. intros _. exists (EErr BadGenerator :: e6). split; [reflexivity|exact H5].
    + pose proof (done_fsm _ (stop_sending_done true s5)) as H5. destruct (stop_sending true s5) as [s6 e6].
      rewrite tx_finish_evs. intros _. exists e6. split; [reflexivity|exact H5].
  - destruct (negb _ && _); rewrite tx_finish_evs; auto.
Qed.

Lemma tx_fsm_fsm c allowed s evs :
  tr_crash (tx_fsm c allowed s evs) = false ->
  exists new, tr_evs (tx_fsm c allowed s evs) = evs ++ new /\ forallb fsm_ev_ok new = true.
Proof.
  unfold tx_fsm.
  assert (Hnil : exists new, evs = evs ++ new /\ forallb fsm_ev_ok new = true)
    by (exists []; rewrite app_nil_r; auto).
  destruct (tx_state s).
  - destruct (idle_dequeue c (tx_queue s) s [] allowed) as [|s4 evs4 out] eqn:Ei; [discriminate|].
    rewrite tx_finish_evs. intros _. exists evs4. split; [reflexivity|].
    eapply idle_dequeue_fsm; [|exact Ei]. reflexivity.
  - rewrite tx_finish_evs; auto.
  - apply tx_cf_fsm.
  - destruct (tx_standby s); [|rewrite tx_finish_evs; auto].
    destruct (_ <=? allowed); [|rewrite tx_finish_evs; auto].
    match goal with |- context [stop_sending true ?x] => pose proof (done_fsm _ (stop_sending_done true x)) as H5; destruct (stop_sending true x) as [s5 e5] end.
    rewrite tx_finish_evs. intros _. exists e5. auto.
  - destruct (tx_standby s); [|rewrite tx_finish_evs; auto].
    destruct (_ <=? allowed); rewrite tx_finish_evs; auto.
Qed.
