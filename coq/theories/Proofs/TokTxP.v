(** Flow-control credit, sender side.  A sender that has emitted the data frames [W] and accepted [ga]
    grants is idle / transmitting exactly when it has accepted as many grants as [W] has flow-control
    points ([scan] with the peer's block size), and waits for a Flow Control exactly when one is missing;
    its block counter is the scan's frame count modulo the block size.  A transmit pass in which the
    mailbox holds a ContinueToSend of the peer (only possible while a grant is missing) reports no error
    other than a Flow Control timeout. *)
From IsoTp Require Import Base.Prelude Base.Bits Model.Micro Spec.ConfigSpec Spec.FrameSpec Spec.Segment
  Proofs.FramesP Proofs.Codec Proofs.Inv Proofs.NoCrash Proofs.TxP Proofs.SegP Proofs.DuplexP Proofs.PacingP
  Proofs.Events Proofs.LazyP Proofs.LazyRunP Proofs.IgnoreP Proofs.SendTraceP Proofs.WireP Proofs.ScanP.

Section TokTx.
Variable c : cfg.
Hypothesis Hok : params_ok (c_p c).
Variable bs : Z.
Hypothesis Hbs : 0 <= bs.

Local Notation k := (zlen (c_tx_prefix c)).

Definition SX (s : layer) (W : list frame) (ga : Z) : Prop :=
  match tx_state s with
  | TxWaitFC =>
      (exists r, active s = Some r /\ sc_rem (scan k bs W) = r_remaining r) /\
      0 < sc_rem (scan k bs W) /\ ga + 1 = sc_pts (scan k bs W) /\ (0 < bs -> sc_k (scan k bs W) mod bs = 0)
  | TxTransmitCF =>
      (exists r, active s = Some r /\ sc_rem (scan k bs W) = r_remaining r) /\
      0 < sc_rem (scan k bs W) /\ ga = sc_pts (scan k bs W) /\ remote_bs s = Some bs /\
      (0 < bs -> tx_block_counter s = sc_k (scan k bs W) mod bs)
  | _ => sc_rem (scan k bs W) = 0 /\ ga = sc_pts (scan k bs W)
  end.

Definition stok (s : layer) := (tx_state s, active s, remote_bs s, tx_block_counter s).

Lemma SX_stok s s' W ga : stok s' = stok s -> SX s W ga -> SX s' W ga.
Proof. unfold stok. intros E. injection E as E1 E2 E3 E4. unfold SX. rewrite E1, E2, E3, E4. auto. Qed.

Lemma txv_stok s s' : txv s' = txv s -> stok s' = stok s.
Proof.
  unfold txv, stok. intros E.
  pose proof (f_equal (fun '(_, st, _, a, _, rb, bc, _, _, _, _, _, _, _, _, _) => (st, a, rb, bc)) E) as E'. exact E'.
Qed.

(** a missing grant means the sender waits *)
Lemma SX_missing s W ga : SX s W ga -> ga < sc_pts (scan k bs W) -> tx_state s = TxWaitFC.
Proof.
  unfold SX. destruct (tx_state s); intros H Hlt; try reflexivity; exfalso.
  - destruct H as [_ H]; lia.
  - destruct H as (_ & _ & H & _); lia.
  - destruct H as [_ H]; lia.
  - destruct H as [_ H]; lia.
Qed.

(** *** the Flow Control part of a transmit pass *)

(** what the mailbox may hold: a ContinueToSend with the peer's block size, and only while a grant is missing *)
Definition Pfc (s : layer) (W : list frame) (ga : Z) : Prop :=
  forall fc, last_fc s = Some fc -> fc_status fc = FS_CTS /\ fc_bs fc = bs /\ ga < sc_pts (scan k bs W).

Definition granted (s : layer) : Z := match last_fc s with Some _ => 1 | None => 0 end.

Lemma handle_cts s fc : tx_state s = TxWaitFC -> fc_status fc = FS_CTS ->
  timer_timed_out (now s) (timer_rx_fc s) = false ->
  exists s2, handle_fc_active c s fc = (s2, []) /\ tx_state s2 = TxTransmitCF /\ remote_bs s2 = Some (fc_bs fc) /\
    tx_block_counter s2 = 0 /\ active s2 = active s /\ tx_queue s2 = tx_queue s /\ tx_standby s2 = tx_standby s /\
    tx_seqnum s2 = tx_seqnum s /\ last_fc s2 = last_fc s /\ timer_timed_out (now s2) (timer_rx_fc s2) = false.
Proof.
  intros Hw Hst Hto. unfold handle_fc_active. rewrite Hst. cbn [Z.eqb FS_CTS FS_WAIT andb]. rewrite Hto. cbn [negb].
  eexists. split; [reflexivity|]. cbn. rewrite Hw. cbn. repeat split.
Qed.

Lemma after_fc_tok s W H ga :
  WF c s -> ST c s W H -> SX s W ga -> Pfc s W ga ->
  match tx_after_fc c s with
  | inl r => In (EErr FlowControlTimeout) (tr_evs r)
  | inr (s3, evs) =>
      In (EErr FlowControlTimeout) evs \/
      (evs = [] /\ last_fc s3 = None /\ Ks s s3 /\ SX s3 W (ga + granted s))
  end.
Proof.
  intros Hwf HS HX HP. pose proof (ST_nd c s W H HS) as Hnd.
  unfold tx_after_fc. set (s0 := s <| last_fc := None |>).
  assert (H0 : Ks s s0) by (repeat split).
  assert (HX0 : SX s0 W ga) by (apply (SX_stok s); [reflexivity|exact HX]).
  assert (Hcomp : forall s1, Ks s s1 -> last_fc s1 = None -> SX s1 W (ga + granted s) ->
            timer_timed_out (now s1) (timer_rx_fc s1) = false ->
            match (match tx_state s1 with
                   | TxIdle => inr (s1, [] ++ [])
                   | _ => match active s1 with
                          | None => inl (mk_crash s1 ([] ++ []) 5)
                          | Some r => if r_is_depleted r && (match tx_standby s1 with None => true | Some _ => false end)
                                      then let '(s3, evs3) := stop_sending true s1 in inr (s3, [] ++ [] ++ evs3)
                                      else inr (s1, [] ++ [])
                          end
                   end : tx_report + (layer * list event)) with
            | inl r => In (EErr FlowControlTimeout) (tr_evs r)
            | inr (s3, evs) => In (EErr FlowControlTimeout) evs \/ (evs = [] /\ last_fc s3 = None /\ Ks s s3 /\ SX s3 W (ga + granted s))
            end).
  { intros s1 HK Hl1 HX1 _. pose proof HK as (A & B & C & D & E).
    destruct (tx_state s1) eqn:Est1; [right; auto|..].
    all: destruct (active s1) as [r|] eqn:Ea.
    all: try (assert (Hr : active s = Some r) by congruence; specialize (Hnd r Hr); rewrite C, Hnd; right; auto).
    all: exfalso; assert (Ha : active s = None) by congruence; destruct (wf_active c s Hwf) as [_ Hact]; specialize (Hact Ha);
      rewrite Hact in E; discriminate. }
  destruct (last_fc s) as [fc|] eqn:Efc.
  - (* a grant in the mailbox: the sender is waiting for it *)
    destruct (HP fc Efc) as (Hst & Hfb & Hlt).
    pose proof (SX_missing s W ga HX Hlt) as Hw.
    unfold handle_fc. rewrite Hst. cbn [Z.eqb FS_CTS FS_OVFLW]. change (tx_state s0) with (tx_state s). rewrite Hw.
    destruct (timer_timed_out (now s) (timer_rx_fc s)) eqn:Eto.
    + (* too late: the timeout is reported in this very pass *)
      unfold handle_fc_active. rewrite Hst. cbn [Z.eqb FS_CTS FS_WAIT andb].
      change (timer_timed_out (now s0) (timer_rx_fc s0)) with (timer_timed_out (now s) (timer_rx_fc s)). rewrite Eto. cbn [negb].
      change (timer_timed_out (now s0) (timer_rx_fc s0)) with (timer_timed_out (now s) (timer_rx_fc s)). rewrite Eto.
      unfold stop_sending; cbv beta iota.
      match goal with |- context [tx_state ?x] => destruct (tx_state x) end;
        [left; cbn [app]; left; reflexivity|..];
        (match goal with |- context [match active ?x with Some _ => _ | None => inl _ end] => destruct (active x) end;
         [match goal with |- context [if ?b then _ else _] => destruct b end; left; cbn [app]; left; reflexivity
         |cbn [tr_evs mk_crash app]; first [left; reflexivity|apply in_or_app; left; left; reflexivity]]).
    + destruct (handle_cts s0 fc Hw Hst Eto) as (s2 & Hh & T1 & T2 & T3 & T4 & T5 & T6 & T7 & T8 & T9).
      rewrite Hh, T9.
      apply Hcomp; [repeat split; try assumption; rewrite T1, Hw; reflexivity|exact T8| |exact T9].
      unfold granted. rewrite Efc. unfold SX in HX |- *. rewrite Hw in HX. destruct HX as ((r & Hr & Hrem) & Hpos & Hga & Hk).
      rewrite T1. split; [exists r; split; [rewrite T4; exact Hr|exact Hrem]|]. split; [exact Hpos|]. split; [lia|]. split; [rewrite T2, Hfb; reflexivity|].
      intros Hb. rewrite T3, (Hk Hb). reflexivity.
  - (* nothing in the mailbox *)
    change (timer_rx_fc s0) with (timer_rx_fc s). change (now s0) with (now s).
    destruct (timer_timed_out (now s) (timer_rx_fc s)) eqn:Eto.
    + unfold stop_sending; cbv beta iota.
      match goal with |- context [tx_state ?x] => destruct (tx_state x) end;
        [left; cbn [app]; left; reflexivity|..];
        (match goal with |- context [match active ?x with Some _ => _ | None => inl _ end] => destruct (active x) end;
         [match goal with |- context [if ?b then _ else _] => destruct b end; left; cbn [app]; left; reflexivity
         |cbn [tr_evs mk_crash app]; first [left; reflexivity|apply in_or_app; left; left; reflexivity]]).
    + apply Hcomp; [exact H0|reflexivity| |exact Eto]. unfold granted. rewrite Efc, Z.add_0_r. exact HX0.
Qed.

(** *** the state machine part *)

Lemma remote_bs_lim_inform p n s : remote_bs (lim_inform p n s) = remote_bs s.
Proof. unfold lim_inform. destruct (negb _); [reflexivity|]. destruct (lim_times s); [reflexivity|]. destruct (SLOT_NS <? _); reflexivity. Qed.

Lemma remote_bs_tx_finish p s evs out imm : remote_bs (tr_s (tx_finish p s evs out imm)) = remote_bs s.
Proof. unfold tx_finish. destruct out; cbn [tr_s mk_tr]; [apply remote_bs_lim_inform|reflexivity]. Qed.

Lemma stok_tx_finish p s evs out imm : stok (tr_s (tx_finish p s evs out imm)) = stok s.
Proof.
  unfold tx_finish. destruct out; cbn [tr_s mk_tr]; [|reflexivity]. unfold stok.
  destruct (lim_inform_fields p (zlen (f_data f)) s) as (A & _ & B & C). rewrite A, B, C, remote_bs_lim_inform. reflexivity.
Qed.

Lemma fin_fields p S e o i :
  tx_state (tr_s (tx_finish p S e o i)) = tx_state S /\ active (tr_s (tx_finish p S e o i)) = active S /\
  remote_bs (tr_s (tx_finish p S e o i)) = remote_bs S /\ tx_block_counter (tr_s (tx_finish p S e o i)) = tx_block_counter S.
Proof. pose proof (stok_tx_finish p S e o i) as Hs. unfold stok in Hs. injection Hs as H1 H2 H3 H4. auto. Qed.

Ltac fin :=
  repeat match goal with
  | |- context [tx_state (tr_s (tx_finish ?p ?S ?e ?o ?i))] => rewrite (proj1 (fin_fields p S e o i))
  | |- context [active (tr_s (tx_finish ?p ?S ?e ?o ?i))] => rewrite (proj1 (proj2 (fin_fields p S e o i)))
  | |- context [remote_bs (tr_s (tx_finish ?p ?S ?e ?o ?i))] => rewrite (proj1 (proj2 (proj2 (fin_fields p S e o i))))
  | |- context [tx_block_counter (tr_s (tx_finish ?p ?S ?e ?o ?i))] => rewrite (proj2 (proj2 (proj2 (fin_fields p S e o i))))
  end.

(** after a Consecutive Frame that leaves the request alive: the block counter moves on, and the sender
    waits iff the block granted by the peer is used up *)
Lemma tx_cf_next a s evs rbs f r' :
  remote_bs s = Some rbs -> tr_msg (tx_cf c a s evs) = Some f -> active (tr_s (tx_cf c a s evs)) = Some r' ->
  remote_bs (tr_s (tx_cf c a s evs)) = Some rbs /\
  tx_block_counter (tr_s (tx_cf c a s evs)) = tx_block_counter s + 1 /\
  tx_state (tr_s (tx_cf c a s evs)) = (if negb (rbs =? 0) && (rbs <=? tx_block_counter s + 1) then TxWaitFC else tx_state s).
Proof.
  intros Hrb. unfold tx_cf. rewrite Hrb.
  destruct (active s) as [r|]; [|cbn; discriminate].
  destruct (timer_timed_out _ _); [|rewrite tx_finish_msg; discriminate].
  destruct (_ <=? a); [|rewrite tx_finish_msg; discriminate].
  destruct (consume _ false r) as [[payload|] r1]; [|cbn; discriminate].
  destruct (0 <? zlen payload).
  - destruct (make_tx_msg _ _ _) as [mm|]; [|cbn; discriminate].
    destruct (r_is_depleted r1).
    + destruct (0 <? r_remaining r1); unfold stop_sending; cbv beta iota; intros _ Ha;
        match type of Ha with active (tr_s (tx_finish ?p ?S ?e ?o ?i)) = _ =>
          destruct (fin_fields p S e o i) as (_ & F2 & _); rewrite F2 in Ha; discriminate Ha end.
    + cbn [tx_block_counter set RecordSet.set].
      destruct (negb (rbs =? 0) && (rbs <=? tx_block_counter s + 1)); intros _ _;
        match goal with |- context [tr_s (tx_finish ?p ?S ?e ?o ?i)] =>
          destruct (fin_fields p S e o i) as (F1 & _ & F3 & F4); rewrite F1, F3, F4 end;
        (split; [exact Hrb|split; reflexivity]).
  - destruct (r_is_depleted r1).
    + destruct (0 <? r_remaining r1); unfold stop_sending; cbv beta iota; rewrite tx_finish_msg; discriminate.
    + destruct (negb (rbs =? 0) && _); rewrite tx_finish_msg; discriminate.
Qed.

Lemma mod_step x b : 0 < b -> 0 <= x -> (b <=? x mod b + 1) = ((x + 1) mod b =? 0).
Proof.
  intros Hb Hx. pose proof (Z.mod_pos_bound x b Hb) as Hm.
  destruct (Z.leb_spec b (x mod b + 1)) as [H1|H1].
  - symmetry. apply Z.eqb_eq. assert (E : x mod b = b - 1) by lia.
    rewrite <- Z.add_mod_idemp_l by lia. rewrite E. replace (b - 1 + 1) with (1 * b) by lia. apply Z.mod_mul. lia.
  - symmetry. apply Z.eqb_neq. rewrite <- Z.add_mod_idemp_l by lia. rewrite Z.mod_small by lia. lia.
Qed.

Lemma mod_succ x b : 0 < b -> 0 <= x -> x mod b + 1 < b -> (x + 1) mod b = x mod b + 1.
Proof. intros Hb Hx H. rewrite <- Z.add_mod_idemp_l by lia. apply Z.mod_small. pose proof (Z.mod_pos_bound x b Hb). lia. Qed.

Lemma scan_k_nonneg fs : forall st, 0 <= sc_k st -> 0 <= sc_k (scan_from k bs st fs).
Proof.
  induction fs as [|f r IH]; intros st Hst; [exact Hst|]. cbn [scan_from fold_left]. apply IH.
  unfold scan_frame. destruct (pdu_decode _ _) as [x|]; [|exact Hst]. destruct (d_pdu x); cbn [sc_k]; lia.
Qed.

Lemma scan_nonneg W : 0 <= sc_k (scan k bs W).
Proof. apply scan_k_nonneg. cbn. lia. Qed.

Lemma r_remaining_adv rid payload extra t x : r_remaining (adv_req rid payload extra t x) = zlen payload - x.
Proof. reflexivity. Qed.

(** the state machine part of a transmit pass keeps the credit invariant and reports no error *)
Lemma fsm_tok a s evs W H ga : WF c s -> ST c s W H -> SX s W ga ->
  (exists new, tr_evs (tx_fsm c a s evs) = evs ++ new /\ has_err new = false) /\
  SX (tr_s (tx_fsm c a s evs)) (W ++ opt_list (tr_msg (tx_fsm c a s evs))) ga.
Proof.
  intros Hwf HS HX. pose proof HS as (done & pending & HH & Hall & Hst).
  pose proof (cf_cap_pos c Hok) as Hcf. pose proof (scan_nonneg W) as Hk0.
  assert (Hnone : forall S i, stok S = stok s ->
            (exists new, tr_evs (tx_finish (c_p c) S evs None i) = evs ++ new /\ has_err new = false) /\
            SX (tr_s (tx_finish (c_p c) S evs None i)) (W ++ opt_list (tr_msg (tx_finish (c_p c) S evs None i))) ga).
  { intros S i Hs. rewrite tx_finish_evs, tx_finish_msg. cbn [opt_list]. rewrite app_nil_r. split; [exists []; rewrite app_nil_r; auto|].
    apply (SX_stok s); [rewrite stok_tx_finish; exact Hs|exact HX]. }
  unfold tx_fsm. destruct (tx_state s) eqn:Est.
  - (* idle: next queued message, if any *)
    destruct Hst as (Hact & Hsb & Hq & HW). rewrite Hq.
    unfold SX in HX. rewrite Est in HX. destruct HX as [Hrem Hga].
    destruct pending as [|m rest].
    { cbn [map idle_dequeue]. rewrite (app_nil_r evs). apply Hnone. reflexivity. }
    assert (Hm : m_ok m). { rewrite HH in Hall. apply Forall_app in Hall. destruct Hall as [_ Hp]. inversion Hp; assumption. }
    assert (Hnd : r_is_depleted (m_req m) = false).
    { unfold r_is_depleted, r_remaining, m_req, fresh_req. cbn. unfold m_ok, m_n in Hm. destruct (Z.leb_spec (zlen (m_p m) - 0) 0); [lia|reflexivity]. }
    cbn [map idle_dequeue]. rewrite Hnd.
    set (s0 := s <| tx_queue := map m_req rest |>).
    destruct (is_single c (m_n m)) eqn:Esg.
    + destruct (single_seg c m Hm Esg) as [f Hf].
      destruct (start_single c Hok s0 (m_id m) (m_p m) (m_x m) (m_t m) a (proj1 Hm) Esg) as (f' & Hhd & _ & Hem & Hsb').
      fold (m_seg c m) in Hhd. rewrite Hf in Hhd. injection Hhd as <-.
      fold (m_req m) in Hem, Hsb'.
      destruct (a <? _) eqn:Ea.
      * destruct (Hsb' eq_refl) as (s' & Es' & Hst' & Hsb1). rewrite Es'. rewrite tx_finish_evs, tx_finish_msg. cbn [opt_list]. rewrite !app_nil_r.
        split; [exists []; rewrite app_nil_r; auto|]. unfold SX. match goal with |- context [tx_state (tr_s (tx_finish ?p ?S ?e ?o ?i))] => rewrite (proj1 (fin_fields p S e o i)) end. rewrite Hst'. auto.
      * destruct (Hem eq_refl) as (s' & Es' & Hst' & Hact'). rewrite Es'. rewrite tx_finish_evs, tx_finish_msg. cbn [opt_list].
        split; [exists [EDone (m_id m) true]; rewrite app_nil_l; auto|].
        unfold SX. match goal with |- context [tx_state (tr_s (tx_finish ?p ?S ?e ?o ?i))] => rewrite (proj1 (fin_fields p S e o i)) end. rewrite Hst'.
        rewrite scan_snoc. rewrite (scan_sf c Hok bs m f _ Hm Hf). cbn [sc_rem sc_pts]. auto.
    + destruct (start_first c Hok s0 (m_id m) (m_p m) (m_x m) (m_t m) a Hm Esg) as (_ & Hcap & Hem & Hsb').
      fold (m_req m) (m_n m) in Hem, Hsb'. fold (ff_frame c m) in Hem, Hsb'. fold (m_n m) in Hcap.
      destruct (_ <=? a) eqn:Ea.
      * destruct (Hem eq_refl) as (s' & Es' & Hst' & Hact' & _). rewrite Es'. rewrite tx_finish_evs, tx_finish_msg. cbn [opt_list]. rewrite app_nil_r.
        split; [exists []; rewrite app_nil_r; auto|].
        unfold SX. fin. rewrite Hst'. rewrite scan_snoc, (scan_ff c Hok bs m _ Hm Esg). cbn [sc_rem sc_pts sc_k].
        split; [exists (adv_req (m_id m) (m_p m) (m_x m) (m_t m) (ff_cap c (m_n m))); split; [exact Hact'|rewrite r_remaining_adv; reflexivity]|].
        split; [lia|]. split; [lia|]. intros Hb. apply Z.mod_0_l. lia.
      * destruct (Hsb' eq_refl) as (s' & Es' & Hst' & _). rewrite Es'. rewrite tx_finish_evs, tx_finish_msg. cbn [opt_list]. rewrite !app_nil_r.
        split; [exists []; rewrite app_nil_r; auto|].
        unfold SX. match goal with |- context [tx_state (tr_s (tx_finish ?p ?S ?e ?o ?i))] => rewrite (proj1 (fin_fields p S e o i)) end. rewrite Hst'. auto.
  - (* waiting for a Flow Control *)
    apply Hnone; reflexivity.
  - (* pacing Consecutive Frames *)
    destruct Hst as (m & rest & j & Hp & Hsg & Hj & Hk & Hsb & Hact & Hsq & Hq & HW).
    assert (Hm : m_ok m). { rewrite HH, Hp in Hall. apply Forall_app in Hall. destruct Hall as [_ Hpp]. inversion Hpp; assumption. }
    pose proof HX as HX0. unfold SX in HX0. rewrite Est in HX0. destruct HX0 as ((r0 & Hr0 & Hrem) & Hpos & Hga & Hrb & Hbc).
    rewrite Hact in Hr0. injection Hr0 as <-. unfold m_adv in Hrem. rewrite r_remaining_adv in Hrem. fold (m_n m) in Hrem.
    pose proof (ff_cap_bounds c Hok m Hm Hsg) as Hcap.
    destruct (timer_timed_out (now s) (timer_tx_stmin s)) eqn:Eto.
    2: { rewrite (cf_waits_no_pull c a s evs bs _ Hrb Hact (or_introl Eto)). cbn [tr_s tr_msg tr_evs mk_tr opt_list]. rewrite app_nil_r.
         split; [exists []; rewrite app_nil_r; auto|exact HX]. }
    destruct (Z.leb_spec (Z.min (cf_cap c) (m_n m - kpos c m j)) a) as [Hal|Hal].
    2: { rewrite (cf_waits_no_pull c a s evs bs _ Hrb Hact (or_intror Hal)). cbn [tr_s tr_msg tr_evs mk_tr opt_list]. rewrite app_nil_r.
         split; [exists []; rewrite app_nil_r; auto|exact HX]. }
    destruct (cf_step c Hok s evs (m_id m) (m_p m) (m_x m) (m_t m) j bs a Hj (proj1 Hcap) Hk Est Hrb Hact Hsq Eto Hal) as (Hmsg & _ & Hmore & Hlast).
    fold (cf_frame c m j) in Hmsg. rewrite Hmsg. cbn [opt_list].
    destruct (Z.ltb_spec (kpos c m j + cf_cap c) (m_n m)) as [Hlt|Hge].
    + destruct (Hmore Hlt) as (Hact' & _ & _ & _ & Hev). rewrite Hev.
      split; [exists []; rewrite app_nil_r; auto|].
      destruct (tx_cf_next a s evs bs _ _ Hrb Hmsg Hact') as (N1 & N2 & N3).
      assert (Hk' : kpos c m (j + 1) = kpos c m j + cf_cap c) by (unfold kpos; lia).
      unfold SX. rewrite N3, Est. rewrite !scan_snoc, !(scan_cf_more c Hok bs m j _ Hm Hsg Hj Hlt Hrem). cbn [sc_k sc_rem sc_pts].
      destruct (Z.eqb_spec bs 0) as [Hz|Hnz]; cbn [negb andb].
      * (* block size 0: never waits, never a point *)
        assert (Hlt0 : (0 <? bs) = false) by (apply Z.ltb_ge; lia). rewrite Hlt0. cbn [andb]. rewrite Z.add_0_r.
        split; [eexists; split; [exact Hact'|rewrite r_remaining_adv, Hk'; reflexivity]|]. split; [lia|]. split; [exact Hga|]. split; [exact N1|]. intros Hb; lia.
      * assert (Hbp : 0 < bs) by lia. specialize (Hbc Hbp). destruct (Z.ltb_spec 0 bs); [|lia]. cbn [andb].
        rewrite Hbc, (mod_step _ bs Hbp Hk0).
        destruct ((sc_k (scan k bs W) + 1) mod bs =? 0) eqn:Ept.
        -- apply Z.eqb_eq in Ept.
           split; [eexists; split; [exact Hact'|rewrite r_remaining_adv, Hk'; reflexivity]|]. split; [lia|]. split; [lia|]. intros _; exact Ept.
        -- apply Z.eqb_neq in Ept. rewrite Z.add_0_r.
           split; [eexists; split; [exact Hact'|rewrite r_remaining_adv, Hk'; reflexivity]|]. split; [lia|]. split; [exact Hga|]. split; [exact N1|].
           intros _. rewrite N2, Hbc. symmetry. apply mod_succ; try assumption.
           pose proof (Z.mod_pos_bound (sc_k (scan k bs W)) bs Hbp) as Hmb.
           destruct (Z.eq_dec (sc_k (scan k bs W) mod bs + 1) bs) as [E|E]; [|lia].
           exfalso. apply Ept. rewrite <- Z.add_mod_idemp_l by lia. replace (sc_k (scan k bs W) mod bs + 1) with (1 * bs) by lia. apply Z.mod_mul. lia.
    + destruct (Hlast Hge) as (Hst' & Hact' & Hev). rewrite Hev.
      split; [exists [EDone (m_id m) true]; auto|].
      unfold SX. rewrite Hst'. rewrite !scan_snoc, !(scan_cf_last c Hok bs m j _ Hm Hsg Hj Hk Hge Hrem). cbn [sc_rem sc_pts]. auto.
  - (* a Single Frame held back by the rate limiter *)
    destruct Hst as (m & rest & f & Hp & Hf & Hsb & Hq & HW). rewrite Hsb.
    assert (Hm : m_ok m). { rewrite HH, Hp in Hall. apply Forall_app in Hall. destruct Hall as [_ Hpp]. inversion Hpp; assumption. }
    unfold SX in HX. rewrite Est in HX. destruct HX as [Hrem Hga].
    destruct (_ <=? a).
    + unfold stop_sending; cbv beta iota. rewrite tx_finish_evs, tx_finish_msg. cbn [opt_list].
      split; [eexists; split; [reflexivity|]; destruct (active _); reflexivity|].
      unfold SX. match goal with |- context [tx_state (tr_s (tx_finish ?p ?S ?e ?o ?i))] => rewrite (proj1 (fin_fields p S e o i)) end. cbn [tx_state set RecordSet.set].
      rewrite scan_snoc, (scan_sf c Hok bs m f _ Hm Hf). cbn [sc_rem sc_pts]. auto.
    + apply Hnone; reflexivity.
  - (* a First Frame held back by the rate limiter *)
    destruct Hst as (m & rest & Hp & Hsg & Hk & Hsb & Hact & Hsq & Hq & HW). rewrite Hsb.
    assert (Hm : m_ok m). { rewrite HH, Hp in Hall. apply Forall_app in Hall. destruct Hall as [_ Hpp]. inversion Hpp; assumption. }
    pose proof HX as HX0. unfold SX in HX0. rewrite Est in HX0. destruct HX0 as [Hrem Hga].
    destruct (_ <=? a).
    + rewrite tx_finish_evs, tx_finish_msg. cbn [opt_list]. split; [exists []; rewrite app_nil_r; auto|].
      unfold SX. fin. cbn [tx_state active start_rx_fc_timer set RecordSet.set].
      rewrite scan_snoc, (scan_ff c Hok bs m _ Hm Hsg). cbn [sc_rem sc_pts sc_k].
      assert (Hk1 : kpos c m 1 = ff_cap c (m_n m)) by (unfold kpos; lia).
      split; [eexists; split; [exact Hact|unfold m_adv; rewrite r_remaining_adv, Hk1; reflexivity]|].
      split; [lia|]. split; [lia|]. intros Hb. apply Z.mod_0_l. lia.
    + apply Hnone; reflexivity.
Qed.

(** *** the transmit state machine never writes the Flow Control mailbox *)
Lemma lfc_lim_inform p n s : last_fc (lim_inform p n s) = last_fc s.
Proof. unfold lim_inform. destruct (negb _); [reflexivity|]. destruct (lim_times s); [reflexivity|]. destruct (SLOT_NS <? _); reflexivity. Qed.

Lemma lfc_tx_finish p s evs out imm : last_fc (tr_s (tx_finish p s evs out imm)) = last_fc s.
Proof. unfold tx_finish. destruct out; cbn [tr_s mk_tr]; [apply lfc_lim_inform|reflexivity]. Qed.

Lemma lfc_start_request s r allowed s' evs out : start_request c s r allowed = SRDone s' evs out -> last_fc s' = last_fc s.
Proof.
  unfold start_request.
  destruct (r_size r <=? _).
  - destruct (consume (r_size r) true r) as [[payload|] r'].
    + destruct (make_tx_msg _ _ _); [|discriminate].
      destruct (allowed <? _); intros E; injection E as <- _ _; reflexivity.
    + intros E; injection E as <- _ _; reflexivity.
  - destruct (consume _ true r) as [[payload|] r'].
    + destruct (make_tx_msg _ _ _); [|discriminate].
      destruct (_ <=? allowed); intros E; injection E as <- _ _; reflexivity.
    + intros E; injection E as <- _ _; reflexivity.
Qed.

Lemma lfc_idle_dequeue q : forall s evs allowed s' evs' out,
  idle_dequeue c q s evs allowed = SRDone s' evs' out -> last_fc s' = last_fc s.
Proof.
  induction q as [|r rest IH]; intros s evs allowed s' evs' out; cbn [idle_dequeue].
  - intros E; injection E as <- _ _; reflexivity.
  - destruct (r_is_depleted r).
    + intros E. apply IH in E. exact E.
    + destruct (start_request _ _ _ _) as [site|s1 e1 o1] eqn:Es; [discriminate|].
      intros E; injection E as <- _ _. apply lfc_start_request in Es. exact Es.
Qed.

Lemma lfc_tx_cf allowed s evs : last_fc (tr_s (tx_cf c allowed s evs)) = last_fc s.
Proof.
  unfold tx_cf.
  destruct (remote_bs s) as [rbs|]; [|reflexivity].
  destruct (active s) as [r|]; [|reflexivity].
  destruct (timer_timed_out _ _); [|apply lfc_tx_finish].
  destruct (_ <=? allowed); [|apply lfc_tx_finish].
  destruct (consume _ false r) as [[payload|] r']; [|reflexivity].
  destruct (0 <? zlen payload).
  - destruct (make_tx_msg _ _ _); [|reflexivity].
    destruct (r_is_depleted r').
    + destruct (0 <? r_remaining r'); unfold stop_sending; cbv beta iota; rewrite lfc_tx_finish; reflexivity.
    + destruct (negb (rbs =? 0) && _); rewrite lfc_tx_finish; reflexivity.
  - destruct (r_is_depleted r').
    + destruct (0 <? r_remaining r'); unfold stop_sending; cbv beta iota; rewrite lfc_tx_finish; reflexivity.
    + destruct (negb (rbs =? 0) && _); rewrite lfc_tx_finish; reflexivity.
Qed.

Lemma lfc_tx_fsm allowed s evs : tr_crash (tx_fsm c allowed s evs) = false -> last_fc (tr_s (tx_fsm c allowed s evs)) = last_fc s.
Proof.
  unfold tx_fsm. destruct (tx_state s) eqn:Est.
  - destruct (idle_dequeue _ _ _ _ _) as [site|s4 e4 out] eqn:Ed; [discriminate|]. intros _.
    rewrite lfc_tx_finish. apply lfc_idle_dequeue in Ed. exact Ed.
  - intros _. apply lfc_tx_finish.
  - intros _. apply lfc_tx_cf.
  - intros _. destruct (tx_standby s); [|apply lfc_tx_finish].
    destruct (_ <=? allowed); [|apply lfc_tx_finish]. unfold stop_sending; cbv beta iota. rewrite lfc_tx_finish. reflexivity.
  - intros _. destruct (tx_standby s); [|apply lfc_tx_finish].
    destruct (_ <=? allowed); [|apply lfc_tx_finish]. rewrite lfc_tx_finish. reflexivity.
Qed.

(** *** a whole transmit pass *)
Theorem SX_tx s W H ga :
  WF c s -> ST c s W H -> SX s W ga -> Pfc s W ga ->
  In (EErr FlowControlTimeout) (tr_evs (process_tx c s)) \/
  (has_err (tr_evs (process_tx c s)) = false /\
   match tx_input c s with
   | Some _ => SX (tr_s (process_tx c s)) (W ++ pass_data c s) (ga + granted s) /\ last_fc (tr_s (process_tx c s)) = None
   | None => SX (tr_s (process_tx c s)) W ga /\ last_fc (tr_s (process_tx c s)) = last_fc s
   end).
Proof.
  intros Hwf HS HX HP. unfold pass_data.
  pose proof (process_tx_by_input c s) as Hp. pose proof (Ks_tx_input c s) as Hi. pose proof (WF_tx_input c s) as Hw.
  destruct (tx_input c s) as [s1|] eqn:Ei.
  2: { (* only a Flow Control answer *)
       right. pose proof (process_tx_nocrash c s Hok Hwf) as Hc. revert Ei Hc. unfold tx_input, process_tx.
       destruct (pending_fc s); [|discriminate]. cbv zeta.
       destruct (negb (p_listen (c_p c))); [|discriminate]. intros _.
       destruct (opt_eqb _ _); (destruct (pending_fc_status _) as [st|]; [destruct (make_flow_control c st)|]);
         cbn [tr_s tr_evs tr_crash mk_tr mk_crash]; intros Hc; try discriminate Hc;
         (split; [reflexivity|split; [apply (SX_stok s); [reflexivity|exact HX]|reflexivity]]). }
  rewrite Hp. unfold process_tx_main. specialize (Hi s1 eq_refl). specialize (Hw s1 Hwf eq_refl).
  assert (Hs1 : stok s1 = stok s /\ last_fc s1 = last_fc s).
  { revert Ei. unfold tx_input. destruct (pending_fc s); [|intros E; injection E as <-; auto].
    cbv zeta. destruct (negb (p_listen (c_p c))); [discriminate|]. intros E; injection E as <-. destruct (opt_eqb _ _); auto. }
  destruct Hs1 as [Hst1 Hl1].
  assert (HS1 : ST c s1 W H) by exact (ST_Ks c _ _ _ _ HS Hi).
  assert (HX1 : SX s1 W ga) by exact (SX_stok _ _ _ _ Hst1 HX).
  assert (HP1 : Pfc s1 W ga) by (intros fc Hfc; rewrite Hl1 in Hfc; exact (HP fc Hfc)).
  assert (Hg1 : granted s1 = granted s) by (unfold granted; rewrite Hl1; reflexivity).
  pose proof (after_fc_tok s1 W H ga Hw HS1 HX1 HP1) as Hf. pose proof (WF_tx_after_fc c s1 Hw) as Hwf3.
  pose proof (process_tx_nocrash c s Hok Hwf) as Hc. rewrite Hp in Hc. unfold process_tx_main in Hc.
  destruct (tx_after_fc c s1) as [r|[s3 evs]]; [left; exact Hf|].
  destruct Hf as [Hto|(-> & Hl3 & HK & HX3)].
  - left. destruct (tx_fsm_prefix c (lim_allowed_bytes (c_p c) s) s3 evs) as [e' He]. rewrite He. apply in_or_app. left. exact Hto.
  - right. rewrite Hg1 in HX3.
    destruct (fsm_tok (lim_allowed_bytes (c_p c) s) s3 [] W H (ga + granted s) (proj1 Hwf3) (ST_Ks c _ _ _ _ HS1 HK) HX3) as ((new & Hev & Hne) & HX4).
    rewrite Hev. cbn [app]. split; [exact Hne|]. split; [exact HX4|].
    rewrite lfc_tx_fsm; [exact Hl3|exact Hc].
Qed.

End TokTx.
