(** Message sequences and single faults on the reception side (C01, C11). *)
From IsoTp Require Import Base.Prelude Model.Layer Spec.ConfigSpec Spec.Stream Proofs.Codec Proofs.RxP.

Section Fault.
Variable c : cfg.
Variable mk : list Z -> frame.
Hypothesis mk_data : forall d, f_data (mk d) = d.
Let k := c_rx_prefix_size c.

Lemma rx_run_app a : forall s b,
  rx_run c s (a ++ b) mk =
  let '(s1, e1) := rx_run c s a mk in let '(s2, e2) := rx_run c s1 b mk in (s2, e1 ++ e2).
Proof.
  induction a as [|d a IH]; intros s b.
  - cbn [app rx_run]. destruct (rx_run c s b mk); reflexivity.
  - cbn [app rx_run]. rewrite IH.
    destruct (rx_run c (rr_s (process_rx c s (mk d))) a mk) as [s1 e1].
    destruct (rx_run c s1 b mk) as [s2 e2]. rewrite app_assoc. reflexivity.
Qed.

(** Any number of messages, each sent as any well-formed stream: delivered in order, each
    exactly once, with no error, from any state in which no reception is in progress. *)
Theorem rx_messages : forall (msgs : list (list Z * list (list Z))) s,
  Forall (fun m => wf_stream k (fst m) (snd m) /\ zlen (fst m) <= p_max_frame_size (c_p c)) msgs ->
  rx_state s = RxIdle ->
  let '(s', evs) := rx_run c s (concat (map snd msgs)) mk in
  evs = [] /\ rx_queue s' = rx_queue s ++ map fst msgs /\ rx_state s' = RxIdle /\
  tx_state s' = tx_state s /\ tx_queue s' = tx_queue s /\ active s' = active s.
Proof.
  induction msgs as [|[p fr] msgs IH]; intros s Hall Hidle.
  - cbn. rewrite app_nil_r. auto 10.
  - inversion Hall as [|x l [Hwf Hmax] Hrest]; subst. cbn [map concat fst snd] in *.
    rewrite rx_run_app.
    pose proof (rx_stream c mk mk_data p fr Hwf Hmax s) as H1.
    destruct (rx_run c s fr mk) as [s1 e1].
    destruct H1 as (Hq & Hst & Hev & Ht1 & Ht2 & Ht3).
    specialize (IH s1 Hrest Hst).
    destruct (rx_run c s1 (concat (map snd msgs)) mk) as [s2 e2].
    destruct IH as (He2 & Hq2 & Hst2 & Hu1 & Hu2 & Hu3).
    unfold interrupt_evs in Hev. rewrite Hidle in Hev.
    assert (e1 = []) by (destruct Hev; assumption). subst e1 e2.
    repeat split; try congruence.
    rewrite Hq2, Hq, <- app_assoc. reflexivity.
Qed.

(** A duplicated Single Frame is delivered twice, without error (the one tolerated anomaly). *)
Corollary dup_single p f s : wf_stream k p [f] -> zlen p <= p_max_frame_size (c_p c) -> rx_state s = RxIdle ->
  let '(s', evs) := rx_run c s [f; f] mk in
  evs = [] /\ rx_queue s' = rx_queue s ++ [p; p] /\ rx_state s' = RxIdle.
Proof.
  intros Hwf Hmax Hidle.
  pose proof (rx_messages [(p, [f]); (p, [f])] s) as H. cbn [map concat snd fst app] in H.
  destruct (rx_run c s [f; f] mk) as [s' evs].
  destruct H as (H1 & H2 & H3 & _); auto.
Qed.

(** The First Frame is lost: every Consecutive Frame that follows is reported as unexpected and
    ignored; nothing is delivered and the receiver stays idle. *)
Lemma drop_first T : forall j rest frames, wf_cfs k T j rest frames ->
  forall s, rx_state s = RxIdle ->
  let '(s', evs) := rx_run c s frames mk in
  evs = repeat (EErr UnexpectedConsecutiveFrame) (length frames) /\
  rx_queue s' = rx_queue s /\ rx_state s' = RxIdle /\
  tx_state s' = tx_state s /\ tx_queue s' = tx_queue s /\ active s' = active s.
Proof.
  induction 1 as [j rest pre pad Hpre Hne Hlen Hmax | j chunk rest pre tl Hpre Hchunk Hne Hcfs IH]; intros s Hidle.
  - cbn [rx_run]. unfold process_rx. rewrite mk_data. change (c_rx_prefix_size c) with k.
    rewrite (decode_cf pre (j mod 16) (rest ++ pad) k Hpre) by (apply Z.mod_pos_bound; lia).
    cbn [d_pdu]. rewrite Hidle. cbn. repeat split; assumption.
  - cbn [rx_run]. unfold process_rx. rewrite mk_data. change (c_rx_prefix_size c) with k.
    rewrite (decode_cf pre (j mod 16) chunk k Hpre) by (apply Z.mod_pos_bound; lia).
    cbn [d_pdu]. rewrite Hidle. cbv iota. cbn [rr_s rr_evs mk_rr].
    match goal with |- context [rx_run c ?s1 tl mk] => specialize (IH s1 Hidle) end.
    destruct (rx_run c _ tl mk) as [s' evs].
    destruct IH as (He & Hq & Hst & H1 & H2 & H3). subst evs. cbn. repeat split; assumption.
Qed.

End Fault.

(** A duplicated ContinueToSend reaching a sender that is already transmitting Consecutive
    Frames is harmless: no error, still transmitting the same request at the same position. *)
From IsoTp Require Import Proofs.Inv.

Lemma dup_cts_harmless c s fc : WF c s -> tx_state s = TxTransmitCF -> fc_status fc = FS_CTS ->
  exists s', handle_fc c s fc = (false, (s', [])) /\ tx_state s' = TxTransmitCF /\
    active s' = active s /\ tx_seqnum s' = tx_seqnum s /\ tx_block_counter s' = tx_block_counter s /\
    tx_queue s' = tx_queue s /\ timer_running (timer_tx_stmin s') = timer_running (timer_tx_stmin s).
Proof.
  intros Hwf Hst Hfc.
  assert (Hto : timer_timed_out (now s) (timer_rx_fc s) = false).
  { pose proof (wf_waitfc c s Hwf) as [_ Hw]. unfold timer_timed_out, timer_running in *.
    destruct (t_start (timer_rx_fc s)); [|reflexivity].
    specialize (Hw eq_refl). congruence. }
  unfold handle_fc. rewrite Hfc. cbn [Z.eqb FS_CTS FS_OVFLW]. rewrite Hst.
  unfold handle_fc_active. rewrite Hfc, Hto. cbn. rewrite Hst. cbn.
  eexists. split; [reflexivity|]. cbn. repeat split.
Qed.

From IsoTp Require Import Model.Micro Proofs.FsmProps Proofs.AnomalyP.

Lemma sequence_gap c s f d sn data :
  pdu_decode (f_data f) (c_rx_prefix_size c) = Some d -> d_pdu d = PCF sn data -> rx_state s = RxWaitCF ->
  sn <> Z.land (last_seqnum s + 1) 0xF ->
  process_rx c s f = mk_rr (stop_receiving s) [EErr WrongSequenceNumber] false false /\
  rx_queue (stop_receiving s) = rx_queue s /\ rx_state (stop_receiving s) = RxIdle /\ rx_buffer (stop_receiving s) = [].
Proof. intros. split; [eapply anomaly_wrong_seq; eassumption|repeat split]. Qed.

Lemma lost_tail_reported c s : reachable c s -> rx_state s = RxWaitCF ->
  ((timer_running (timer_rx_cf s) = true /\ t_timeout (timer_rx_cf s) = p_tcr_ns (c_p c)) \/
   (pending_fc s = true /\ pending_fc_status s = Some FS_CTS)) /\
  (timer_timed_out (now s) (timer_rx_cf s) = true ->
     snd (check_timeouts_rx s) = [EErr ConsecutiveFrameTimeout] /\
     rx_state (fst (check_timeouts_rx s)) = RxIdle /\ rx_queue (fst (check_timeouts_rx s)) = rx_queue s).
Proof.
  intros Hr Hs. split; [apply rx_live; assumption|].
  intros Ht. destruct (cf_timeout_effect s Ht) as (H1 & H2 & H3 & _). auto.
Qed.
