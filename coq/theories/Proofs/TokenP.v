(** Flow-control credit between two linked layers: a Flow Control only ever reaches a sender that is
    waiting for it.  For one direction of traffic (sender S, receiver R) the invariant [Tok] says: the
    receiver has consumed the data frames [C], a prefix of the data frames [W] the sender emitted; the
    receiver has issued exactly one ContinueToSend request per flow-control point of [C]; the sender has
    accepted [ga] grants and waits iff [W] has a point it has no grant for; and grants are conserved:
    accepted + pending at the receiver + in flight + in the sender's mailbox <= issued.  Hence a grant in
    the mailbox finds the sender waiting, and the only errors a joint run can report first are missed
    deadlines (N_Bs, N_Cr). *)
From IsoTp Require Import Base.Prelude Base.Bits Model.Micro Model.Joint Spec.ConfigSpec Spec.FrameSpec Spec.Segment Spec.Stream
  Spec.AddrSpec Proofs.FramesP Proofs.Codec Proofs.Inv Proofs.NoCrash Proofs.TxP Proofs.SegP Proofs.DuplexP Proofs.Events
  Proofs.RxP Proofs.PacingP Proofs.SendTraceP Proofs.RecvTraceP Proofs.WireP Proofs.MicroP Proofs.JointP
  Proofs.ScanP Proofs.TokRxP Proofs.TokTxP.

Definition is_timeout (e : event) : bool :=
  match e with EErr FlowControlTimeout | EErr ConsecutiveFrameTimeout => true | _ => false end.
Definition has_to (evs : list event) : bool := existsb is_timeout evs.

Lemma has_to_app a b : has_to (a ++ b) = has_to a || has_to b.
Proof. apply existsb_app. Qed.

Lemma in_fct_has_to evs : In (EErr FlowControlTimeout) evs -> has_to evs = true.
Proof. intros H. apply existsb_exists. exists (EErr FlowControlTimeout). auto. Qed.

Lemma filter_len_le {A} (f : A -> bool) l : (length (filter f l) <= length l)%nat.
Proof. induction l as [|x l IH]; [cbn; lia|]. cbn [filter]. destruct (f x); cbn [length]; lia. Qed.

Lemma filter_id_all {A} (f : A -> bool) l : filter f l = l -> Forall (fun x => f x = true) l.
Proof.
  induction l as [|x l IH]; [constructor|]. cbn [filter]. destruct (f x) eqn:E.
  - intros H. injection H as H. constructor; [exact E|apply IH; exact H].
  - intros H. exfalso. pose proof (filter_len_le f l) as Hl. rewrite H in Hl. cbn [length] in Hl. lia.
Qed.

Lemma filter_none_all {A} (f : A -> bool) l : filter f l = [] -> Forall (fun x => f x = false) l.
Proof.
  induction l as [|x l IH]; [constructor|]. cbn [filter]. destruct (f x) eqn:E; [discriminate|]. intros H. constructor; [exact E|apply IH; exact H].
Qed.

Section TokDir.
Variables cS cR : cfg.
Hypothesis HokS : params_ok (c_p cS).
Hypothesis HokR : params_ok (c_p cR).
Hypothesis Hlink : linked cS cR.
Hypothesis Hlink' : linked cR cS.
Hypothesis HstR : stmin_valid (p_stmin (c_p cR)) = true.

Let bs := p_blocksize (c_p cR).
Let kR := c_rx_prefix_size cR.
Let kS := c_rx_prefix_size cS.

Lemma kR_eq : kR = zlen (c_tx_prefix cS).
Proof. apply linked_prefix. exact Hlink. Qed.
Lemma kS_eq : kS = zlen (c_tx_prefix cR).
Proof. apply linked_prefix. exact Hlink'. Qed.
Lemma bs_nonneg : 0 <= bs.
Proof. destruct HokR as (_ & _ & _ & _ & Hb & _). subst bs. lia. Qed.

(** a ContinueToSend of the receiver as the sender reads it *)
Definition fcR (f : frame) : Prop :=
  exists x, pdu_decode (f_data f) kS = Some x /\ d_pdu x = PFC FS_CTS bs (p_stmin (c_p cR)).

(** frames of the channel toward the sender that are not data frames *)
Definition nfc (ch : list frame) : Z := zlen (filter (fun f => negb (dataf cS f)) ch).

Lemma nfc_app a b : nfc (a ++ b) = nfc a + nfc b.
Proof. unfold nfc. rewrite filter_app, zlen_app. reflexivity. Qed.
Lemma nfc_nonneg a : 0 <= nfc a.
Proof. apply zlen_nonneg. Qed.

Record tg := { tC : list frame; ta : Z; ti : Z }.

Definition Tok (sS sR : layer) (chSR chRS : list frame) (W : list frame) (t : tg) : Prop :=
  tC t ++ filter (dataf cR) chSR = W /\
  SX cS bs sS W (ta t) /\
  RXI cR sR (tC t) (ti t) /\
  ta t + (b2z (pending_fc sR) + nfc chRS + granted sS) <= ti t /\
  (forall fc, last_fc sS = Some fc -> fc_status fc = FS_CTS /\ fc_bs fc = bs) /\
  Forall (fun f => dataf cS f = true \/ fcR f) chRS.

Lemma Tok_Pfc sS sR chSR chRS W t : Tok sS sR chSR chRS W t -> Pfc cS bs sS W (ta t).
Proof.
  intros (HC & HX & (Hgi & _) & Hineq & Hmb & _) fc Hfc. destruct (Hmb fc Hfc) as [H1 H2].
  split; [exact H1|]. split; [exact H2|].
  unfold granted in Hineq. rewrite Hfc in Hineq.
  pose proof (nfc_nonneg chRS). assert (0 <= b2z (pending_fc sR)) by (unfold b2z; destruct (pending_fc sR); lia).
  rewrite <- HC. pose proof (scan_prefix_pts (zlen (c_tx_prefix cS)) bs (tC t) (filter (dataf cR) chSR)) as Hm.
  fold kR in Hgi. rewrite kR_eq in Hgi. fold bs in Hgi. lia.
Qed.

(** **** the sender makes a transmit pass *)
Lemma T_sender_tx sS sR chSR chRS H W t :
  WF cS sS -> ST cS sS W H -> Tok sS sR chSR chRS W t ->
  has_to (tr_evs (process_tx cS sS)) = true \/
  (has_err (tr_evs (process_tx cS sS)) = false /\
   forall W', W' = W ++ pass_data cS sS ->
     filter (dataf cR) (chSR ++ opt_list (tr_msg (process_tx cS sS))) = filter (dataf cR) chSR ++ pass_data cS sS ->
     exists t', Tok (tr_s (process_tx cS sS)) sR (chSR ++ opt_list (tr_msg (process_tx cS sS))) chRS W' t').
Proof.
  intros Hwf HS HT. pose proof HT as (HC & HX & HRX & Hineq & Hmb & Hch).
  destruct (SX_tx cS HokS bs bs_nonneg sS W H (ta t) Hwf HS HX (Tok_Pfc _ _ _ _ _ _ HT)) as [Hto|[Hne Hres]].
  { left. apply in_fct_has_to. exact Hto. }
  right. split; [exact Hne|]. intros W' HW' Hfil.
  unfold pass_data in *. destruct (tx_input cS sS) as [s1|] eqn:Ei.
  - destruct Hres as [HX' Hl'].
    exists {| tC := tC t; ta := ta t + granted sS; ti := ti t |}. unfold Tok. cbn [tC ta ti].
    split; [rewrite Hfil, HW', app_assoc, HC; reflexivity|]. split; [rewrite HW'; exact HX'|]. split; [exact HRX|].
    split; [unfold granted at 2; rewrite Hl'; lia|]. split; [rewrite Hl'; discriminate|exact Hch].
  - destruct Hres as [HX' Hl']. rewrite app_nil_r in HW', Hfil. subst W'.
    exists t. unfold Tok. split; [rewrite Hfil; exact HC|]. split; [exact HX'|]. split; [exact HRX|].
    split; [unfold granted in *; rewrite Hl'; exact Hineq|]. split; [rewrite Hl'; exact Hmb|exact Hch].
Qed.

(** **** the sender layer does something else than a pass or a reception *)
Definition quiet (m : micro) : Prop := match m with MLim | MSend _ _ _ | MRecv | MTick _ => True | _ => False end.

Lemma quiet_fields c s m : quiet m ->
  snd (mstep c s m) = [] /\ stok (fst (mstep c s m)) = stok s /\ last_fc (fst (mstep c s m)) = last_fc s /\
  rtok (fst (mstep c s m)) = rtok s.
Proof.
  intros Hq. destruct m; try (destruct Hq; fail); cbn [mstep fst snd].
  - split; [reflexivity|]. unfold lim_update. destruct (negb _); [repeat split|]. destruct (lim_pop _ _ _ _ _) as [[a b] d]. repeat split.
  - split; [reflexivity|]. unfold send. destruct (size <? 0); [repeat split|]. destruct (_ <? size); [repeat split|].
    destruct (match match t with Some x => x | None => _ end with Functional => _ | Physical => _ end); repeat split.
  - split; [reflexivity|]. unfold recv. destruct (rx_queue s); repeat split.
  - repeat split.
Qed.

Lemma check_fields s :
  has_to (snd (check_timeouts_rx s)) = true \/
  (snd (check_timeouts_rx s) = [] /\ fst (check_timeouts_rx s) = s).
Proof. unfold check_timeouts_rx. destruct (timer_timed_out _ _); [left; reflexivity|right; auto]. Qed.

Lemma Tok_same sS sR chSR chRS W t sS' sR' :
  stok sS' = stok sS -> last_fc sS' = last_fc sS -> rtok sR' = rtok sR ->
  Tok sS sR chSR chRS W t -> Tok sS' sR' chSR chRS W t.
Proof.
  intros E1 E2 E3 (HC & HX & HRX & Hineq & Hmb & Hch).
  assert (Ep : pending_fc sR' = pending_fc sR) by (unfold rtok in E3; injection E3; auto).
  split; [exact HC|]. split; [exact (SX_stok cS bs _ _ _ _ E1 HX)|]. split; [exact (RXI_rtok cR _ _ _ _ E3 HRX)|].
  split; [unfold granted; rewrite E2, Ep; exact Hineq|]. split; [rewrite E2; exact Hmb|exact Hch].
Qed.

(** **** the sender takes the oldest frame toward it *)
Lemma T_sender_rx sS sR chSR f chRS W t :
  Tok sS sR chSR (f :: chRS) W t ->
  (* a data frame of the other direction: the transmit view is untouched, the mailbox kept or emptied *)
  (dataf cS f = true -> stok (rr_s (process_rx cS sS f)) = stok sS /\
     (last_fc (rr_s (process_rx cS sS f)) = last_fc sS \/ last_fc (rr_s (process_rx cS sS f)) = None)) ->
  (dataf cS f = false -> rr_evs (process_rx cS sS f) = []) /\
  Tok (rr_s (process_rx cS sS f)) sR chSR chRS W t.
Proof.
  intros (HC & HX & HRX & Hineq & Hmb & Hch) Hdata.
  pose proof (Forall_inv Hch) as Hf. pose proof (Forall_inv_tail Hch) as Hch'. cbv beta in Hf.
  destruct (dataf cS f) eqn:Edf.
  - destruct (Hdata eq_refl) as [Hst Hl]. split; [discriminate|].
    assert (Hn : nfc (f :: chRS) = nfc chRS) by (unfold nfc; cbn [filter]; rewrite Edf; reflexivity).
    split; [exact HC|]. split; [exact (SX_stok cS bs _ _ _ _ Hst HX)|]. split; [exact HRX|].
    split; [rewrite Hn in Hineq; unfold granted in *; destruct Hl as [-> | ->]; [exact Hineq|destruct (last_fc sS); lia]|].
    split; [destruct Hl as [-> | ->]; [exact Hmb|discriminate]|exact Hch'].
  - destruct Hf as [Hf|(x & Hdec & Hp)]; [congruence|].
    rewrite (rx_fc_only_mailbox cS sS f x _ _ _ Hdec Hp). cbn [rr_s rr_evs mk_rr]. split; [reflexivity|].
    assert (Hn : nfc (f :: chRS) = 1 + nfc chRS) by (unfold nfc; cbn [filter]; rewrite Edf; cbn [negb]; rewrite zlen_cons; reflexivity).
    split; [exact HC|]. split; [apply (SX_stok cS bs sS); [reflexivity|exact HX]|]. split; [exact HRX|].
    split; [rewrite Hn in Hineq; unfold granted in *; cbn [last_fc set RecordSet.set]; destruct (last_fc sS); lia|].
    split; [cbn [last_fc set RecordSet.set]; intros fc E; injection E as <-; cbn; auto|exact Hch'].
Qed.

(** a ContinueToSend in flight toward the sender leaves its reception untouched and reports nothing *)
Lemma fc_rtok sS sR chSR f chRS W t : Tok sS sR chSR (f :: chRS) W t -> dataf cS f = false ->
  rtok (rr_s (process_rx cS sS f)) = rtok sS /\ rr_evs (process_rx cS sS f) = [].
Proof.
  intros (_ & _ & _ & _ & _ & Hch) Edf. pose proof (Forall_inv Hch) as Hf. cbv beta in Hf.
  destruct Hf as [Hf|(x & Hdec & Hp)]; [congruence|].
  rewrite (rx_fc_only_mailbox cS sS f x _ _ _ Hdec Hp). cbn [rr_s rr_evs mk_rr]. split; reflexivity.
Qed.

(** **** the receiver makes a transmit pass: a pending request becomes a ContinueToSend in flight *)
Definition fc_frame : frame :=
  spec_frame cR (Address.tx_arb_id (c_txa cR) Physical)
    (Address.tx_prefix (c_txa cR) ++ [0x30 + FS_CTS; p_blocksize (c_p cR); p_stmin (c_p cR)]).

Lemma fc_frame_read : fcR fc_frame /\ dataf cS fc_frame = false.
Proof.
  pose proof HokR as (Hdl & _ & _ & Hstm & Hb & _).
  set (d := c_tx_prefix cR ++ [0x30 + 0; p_blocksize (c_p cR); p_stmin (c_p cR)]).
  assert (Hlen : 2 <= zlen d <= p_tx_dl (c_p cR)).
  { subst d. rewrite zlen_app, !zlen_cons, zlen_nil. pose proof (in_ll_sizes _ Hdl). pose proof (plen_bounds cR). lia. }
  assert (Hmk : make_flow_control cR FS_CTS = Some fc_frame).
  { unfold make_flow_control, craft_fc_data.
    rewrite (land_byte (p_blocksize (c_p cR))) by lia. rewrite (land_byte (p_stmin (c_p cR))) by lia.
    change (Z.lor 48 (Z.land FS_CTS 15)) with (0x30 + 0). fold d.
    rewrite (spec_frame_of_make cR HokR _ d Hlen). reflexivity. }
  split.
  - destruct (spec_frame_data cR HokR (c_tx_id cR Physical) d Hlen) as [Hd _]; [intros; lia|].
    unfold fcR, fc_frame. change (Address.tx_prefix (c_txa cR) ++ [48 + FS_CTS; p_blocksize (c_p cR); p_stmin (c_p cR)]) with d.
    change (Address.tx_arb_id (c_txa cR) Physical) with (c_tx_id cR Physical). rewrite Hd. subst d. rewrite <- app_assoc. cbn [app].
    rewrite kS_eq. rewrite (decode_fc (c_tx_prefix cR) 0 _ _ _ _ eq_refl ltac:(lia) HstR).
    eexists. split; [reflexivity|]. reflexivity.
  - unfold dataf. fold kS. rewrite kS_eq. exact (fc_not_data cR HokR FS_CTS fc_frame Hmk).
Qed.

Lemma T_recv_tx sS sR chSR chRS W t :
  WF cR sR -> Tok sS sR chSR chRS W t ->
  let r := process_tx cR sR in
  let out := opt_list (tr_msg r) in
  filter (dataf cS) (chRS ++ out) = filter (dataf cS) chRS ++ pass_data cR sR ->
  Tok sS (tr_s r) chSR (chRS ++ out) W t.
Proof.
  intros Hwf (HC & HX & HRX & Hineq & Hmb & Hch). cbv zeta. intros Hfil.
  pose proof HRX as (Hgi & Hpend & Hst).
  assert (Hfo : filter (dataf cS) (opt_list (tr_msg (process_tx cR sR))) = pass_data cR sR).
  { rewrite filter_app in Hfil. apply (app_inv_head _ _ _ Hfil). }
  unfold pass_data in Hfo.
  destruct (tx_input cR sR) as [s1|] eqn:Ei.
  - (* an ordinary pass: only data frames leave; the reception view is kept, a pending request at most dropped (listen mode) *)
    pose proof (process_tx_by_input cR sR) as Hp. rewrite Ei in Hp.
    assert (Hs1 : rx_state s1 = rx_state sR /\ rx_block_counter s1 = rx_block_counter sR /\ rx_frame_length s1 = rx_frame_length sR /\
                  rx_buffer s1 = rx_buffer sR /\ pending_fc_status s1 = pending_fc_status sR /\
                  (pending_fc s1 = pending_fc sR \/ pending_fc s1 = false)).
    { revert Ei. unfold tx_input. destruct (pending_fc sR) eqn:Ep; [|intros E; injection E as <-; rewrite Ep; auto 10].
      cbv zeta. destruct (negb (p_listen (c_p cR))); [discriminate|]. intros E; injection E as <-. destruct (opt_eqb _ _); cbn; auto 10. }
    destruct Hs1 as (A1 & A2 & A3 & A4 & A5 & A6).
    assert (Hr : rtok (tr_s (process_tx cR sR)) = rtok s1) by (rewrite Hp; apply rxv_rtok, tx_preserves_rx).
    unfold rtok in Hr. injection Hr as B1 B2 B3 B4 B5 B6.
    assert (Hall : Forall (fun f => dataf cS f = true) (opt_list (tr_msg (process_tx cR sR)))) by (apply filter_id_all; exact Hfo).
    assert (Hn : nfc (opt_list (tr_msg (process_tx cR sR))) = 0).
    { unfold nfc. replace (filter _ _) with (@nil frame); [reflexivity|]. symmetry.
      clear -Hall. induction Hall as [|f l Hf _ IH]; [reflexivity|]. cbn [filter]. rewrite Hf. exact IH. }
    split; [exact HC|]. split; [exact HX|].
    split. { unfold RXI in *. rewrite B1, B2, B3, B4, B5, B6, A1, A2, A3, A4, A5.
             split; [exact Hgi|]. split; [|exact Hst]. intros Hq. apply Hpend. destruct A6 as [E|E]; congruence. }
    split. { rewrite nfc_app, Hn, B5. destruct A6 as [-> | ->]; [lia|]. unfold b2z in *. destruct (pending_fc sR); lia. }
    split; [exact Hmb|]. apply Forall_app. split; [exact Hch|]. eapply Forall_impl; [|exact Hall]. intros f Hf; left; exact Hf.
  - (* the pass only answers with the Flow Control that was requested *)
    assert (Hno : Forall (fun f => dataf cS f = false) (opt_list (tr_msg (process_tx cR sR)))) by (apply filter_none_all; exact Hfo).
    assert (Hpl : pending_fc sR = true /\ p_listen (c_p cR) = false).
    { revert Ei. unfold tx_input. destruct (pending_fc sR); [|discriminate]. cbv zeta. destruct (p_listen (c_p cR)); [discriminate|auto]. }
    destruct Hpl as [Hp1 Hl1].
    destruct (fc_answer cR sR FS_CTS HokR Hl1 Hp1 (Hpend Hp1) (or_introl eq_refl)) as (Hmsg & _ & Hp' & _ & R1 & _ & R3).
    fold fc_frame in Hmsg. set (fm := fc_frame) in *. rewrite Hmsg in *. cbn [opt_list] in *.
    destruct fc_frame_read as [Hfr Hfd]. fold fm in Hfr, Hfd.
    assert (Hn : nfc [fm] = 1) by (unfold nfc; cbn [filter]; rewrite Hfd; reflexivity).
    assert (Hrt : rx_state (tr_s (process_tx cR sR)) = rx_state sR /\ rx_block_counter (tr_s (process_tx cR sR)) = rx_block_counter sR /\
                  rx_frame_length (tr_s (process_tx cR sR)) = rx_frame_length sR /\ rx_buffer (tr_s (process_tx cR sR)) = rx_buffer sR).
    { unfold process_tx. rewrite Hp1. cbv zeta. rewrite Hl1. cbn [negb].
      destruct (opt_eqb _ _); (destruct (pending_fc_status _) as [st|]; [destruct (make_flow_control cR st)|]); cbn [tr_s mk_tr mk_crash]; repeat split. }
    destruct Hrt as (B1 & B2 & B3 & B4).
    split; [exact HC|]. split; [exact HX|].
    split. { unfold RXI in *. rewrite B1, B2, B3, B4, Hp'. split; [exact Hgi|]. split; [discriminate|exact Hst]. }
    split. { rewrite nfc_app, Hn, Hp', Hp1 in *. unfold b2z in *. lia. }
    split; [exact Hmb|]. apply Forall_app. split; [exact Hch|]. constructor; [right; exact Hfr|constructor].
Qed.

(** **** the receiver takes the oldest frame toward it *)
Lemma T_recv_rx sS sR f chSR chRS W t S cur D :
  Tok sS sR (f :: chSR) chRS W t ->
  (dataf cR f = true -> script_ok cR S /\ RT cR sR cur D /\ expected cur S = Some (f_data f)) ->
  (dataf cR f = false -> rtok (rr_s (process_rx cR sR f)) = rtok sR) ->
  exists t', Tok sS (rr_s (process_rx cR sR f)) chSR chRS W t'.
Proof.
  intros (HC & HX & HRX & Hineq & Hmb & Hch) Hdata Hfc.
  destruct (dataf cR f) eqn:Edf.
  - destruct (Hdata eq_refl) as (HS & HRT & Hexp).
    destruct (RXI_data cR sR cur S D f (tC t) (ti t) HS HRT Hexp HRX) as (HRX' & Hle & Hp & _).
    exists {| tC := tC t ++ [f]; ta := ta t; ti := sc_pts (scan (c_rx_prefix_size cR) (p_blocksize (c_p cR)) (tC t ++ [f])) |}.
    unfold Tok. cbn [tC ta ti].
    split; [rewrite <- HC; cbn [filter]; rewrite Edf, <- app_assoc; reflexivity|]. split; [exact HX|]. split; [exact HRX'|].
    split; [lia|]. split; [exact Hmb|exact Hch].
  - exists t. specialize (Hfc eq_refl).
    assert (Ep : pending_fc (rr_s (process_rx cR sR f)) = pending_fc sR) by (unfold rtok in Hfc; injection Hfc; auto).
    split; [rewrite <- HC; cbn [filter]; rewrite Edf; reflexivity|]. split; [exact HX|]. split; [exact (RXI_rtok cR _ _ _ _ Hfc HRX)|].
    split; [rewrite Ep; exact Hineq|]. split; [exact Hmb|exact Hch].
Qed.

Lemma Tok_init ta0 tb0 : Tok (init_layer cS ta0) (init_layer cR tb0) [] [] [] {| tC := []; ta := 0; ti := 0 |}.
Proof.
  split; [reflexivity|]. split; [cbn; auto|]. split; [cbn; repeat split; try reflexivity; discriminate|].
  split; [cbn; lia|]. split; [cbn; discriminate|constructor].
Qed.

End TokDir.

(** *** one layer X linked with its peer Y: both of its roles at once *)
Section Layer.
Variables cX cY : cfg.
Hypothesis HokX : params_ok (c_p cX).
Hypothesis HokY : params_ok (c_p cY).
Hypothesis Hxy : linked cX cY.
Hypothesis Hyx : linked cY cX.
Hypothesis HstX : stmin_valid (p_stmin (c_p cX)) = true.
Hypothesis HstY : stmin_valid (p_stmin (c_p cY)) = true.

(** what is known about the pair seen from X: its own state, the peer's, the frames in flight both ways *)
Definition LInv (sX sY : layer) (chXY chYX : list frame) (gxy gyx : dg) (txy tyx : tg) : Prop :=
  WF cX sX /\
  Dir cX cY sX sY chXY gxy /\ Dir cY cX sY sX chYX gyx /\
  Tok cX cY sX sY chXY chYX (dW gxy) txy /\ Tok cY cX sY sX chYX chXY (dW gyx) tyx.

Lemma layer_step sX sY chXY chYX gxy gyx txy tyx m :
  LInv sX sY chXY chYX gxy gyx txy tyx -> op_ok m -> not_rx m -> send_fits cY m ->
  has_to (snd (mstep cX sX m)) = true \/
  (has_err (snd (mstep cX sX m)) = false /\
   exists gxy' gyx' txy' tyx',
     LInv (fst (mstep cX sX m)) sY (chXY ++ out_frames (snd (mstep cX sX m))) chYX gxy' gyx' txy' tyx' /\
     map m_p (dH gxy') = map m_p (dH gxy) ++ sent_payload cX sX m /\ dR gxy' = dR gxy /\
     dH gyx' = dH gyx /\ dR gyx' = dR gyx ++ recv_payload sX m).
Proof.
  intros (Hwf & Dxy & Dyx & Txy & Tyx) Hm Hnr Hfit.
  pose proof (Dir_sender cX cY HokX Hxy sX sY chXY gxy m Hwf Dxy Hm Hfit) as HS.
  pose proof (Dir_receiver cY cX sY sX chYX gyx m Dyx Hm Hnr) as HR.
  pose proof (WF_mstep cX sX m Hwf) as Hw'.
  pose proof (mstep_out cX sX m HokX Hwf) as Hout.
  (* once the step is known to be free of errors, both directions keep their transfer invariant *)
  assert (Hdirs : has_err (snd (mstep cX sX m)) = false ->
            exists gxy' gyx', Dir cX cY (fst (mstep cX sX m)) sY (chXY ++ out_frames (snd (mstep cX sX m))) gxy' /\
              Dir cY cX sY (fst (mstep cX sX m)) chYX gyx' /\
              map m_p (dH gxy') = map m_p (dH gxy) ++ sent_payload cX sX m /\ dR gxy' = dR gxy /\
              dW gxy' = dW gxy ++ xdata cX sX m /\
              filter (dataf cY) (chXY ++ out_frames (snd (mstep cX sX m))) = filter (dataf cY) chXY ++ xdata cX sX m /\
              dH gyx' = dH gyx /\ dR gyx' = dR gyx ++ recv_payload sX m /\ dW gyx' = dW gyx).
  { intros Hne. destruct HS as [He|(gxy' & D1 & E1 & E2 & E3 & E4)]; [congruence|].
    destruct HR as [He|(gyx' & D2 & F1 & F2 & F3)]; [congruence|].
    exists gxy', gyx'. auto 12. }
  destruct m; try (destruct Hm; fail); try (destruct Hnr; fail).
  - (* timeout check of the reception *)
    cbn [mstep fst snd] in *. destruct (check_fields sX) as [Hto|[Hev Hs]]; [left; exact Hto|right].
    rewrite Hev in *. split; [reflexivity|]. destruct (Hdirs eq_refl) as (gxy' & gyx' & D1 & D2 & E1 & E2 & E3 & E4 & F1 & F2 & F3).
    cbn [xdata] in E3, E4. rewrite app_nil_r in E3. cbn [out_frames flat_map] in *. rewrite Hs in *.
    exists gxy', gyx', txy, tyx. split; [|auto]. split; [exact Hwf|]. split; [exact D1|]. split; [exact D2|].
    rewrite E3, F3, app_nil_r. split; assumption.
  - (* limiter update *)
    destruct (quiet_fields cX sX MLim I) as (Hev & Hst & Hl & Hrt). right. rewrite Hev in *. split; [reflexivity|].
    destruct (Hdirs eq_refl) as (gxy' & gyx' & D1 & D2 & E1 & E2 & E3 & E4 & F1 & F2 & F3).
    cbn [xdata] in E3. rewrite app_nil_r in E3. cbn [out_frames flat_map] in *.
    exists gxy', gyx', txy, tyx. split; [|auto]. split; [exact Hw'|]. split; [exact D1|]. split; [exact D2|].
    rewrite E3, F3, app_nil_r. split; [apply (Tok_same cX cY sX sY); auto|apply (Tok_same cY cX sY sX); auto].
  - (* a transmit pass *)
    cbn [mstep fst snd] in *.
    pose proof (process_tx_nocrash cX sX HokX Hwf) as Hc. unfold tx_events in *. rewrite Hc in *.
    destruct (T_sender_tx cX cY HokX HokY Hxy sX sY chXY chYX (dH gxy) (dW gxy) txy Hwf (Dir_ST cX cY _ _ _ _ Dxy) Txy) as [Hto|[Hne HT]].
    { left. rewrite has_to_app, Hto. reflexivity. }
    right.
    assert (Hne' : has_err (tr_evs (process_tx cX sX) ++ match tr_msg (process_tx cX sX) with Some m => [ETx m] | None => [] end) = false).
    { rewrite has_err_app, Hne. destruct (tr_msg (process_tx cX sX)); reflexivity. }
    split; [exact Hne'|].
    destruct (Hdirs Hne') as (gxy' & gyx' & D1 & D2 & E1 & E2 & E3 & E4 & F1 & F2 & F3).
    cbn [xdata] in E3, E4. rewrite Hout in *.
    destruct (HT (dW gxy') E3 E4) as (txy' & Txy').
    pose proof (T_recv_tx cY cX HokX Hxy HstX sY sX chYX chXY (dW gyx) tyx Hwf Tyx E4) as Tyx'.
    exists gxy', gyx', txy', tyx. split; [|auto]. split; [exact Hw'|]. split; [exact D1|]. split; [exact D2|].
    rewrite F3. split; assumption.
  - (* send() *)
    destruct (quiet_fields cX sX (MSend g size t) I) as (Hev & Hst & Hl & Hrt). right. rewrite Hev in *. split; [reflexivity|].
    destruct (Hdirs eq_refl) as (gxy' & gyx' & D1 & D2 & E1 & E2 & E3 & E4 & F1 & F2 & F3).
    cbn [xdata] in E3. rewrite app_nil_r in E3. cbn [out_frames flat_map] in *.
    exists gxy', gyx', txy, tyx. split; [|auto]. split; [exact Hw'|]. split; [exact D1|]. split; [exact D2|].
    rewrite E3, F3, app_nil_r. split; [apply (Tok_same cX cY sX sY); auto|apply (Tok_same cY cX sY sX); auto].
  - (* recv() *)
    destruct (quiet_fields cX sX MRecv I) as (Hev & Hst & Hl & Hrt). right. rewrite Hev in *. split; [reflexivity|].
    destruct (Hdirs eq_refl) as (gxy' & gyx' & D1 & D2 & E1 & E2 & E3 & E4 & F1 & F2 & F3).
    cbn [xdata] in E3. rewrite app_nil_r in E3. cbn [out_frames flat_map] in *.
    exists gxy', gyx', txy, tyx. split; [|auto]. split; [exact Hw'|]. split; [exact D1|]. split; [exact D2|].
    rewrite E3, F3, app_nil_r. split; [apply (Tok_same cX cY sX sY); auto|apply (Tok_same cY cX sY sX); auto].
  - (* the clock moves *)
    destruct (quiet_fields cX sX (MTick d) I) as (Hev & Hst & Hl & Hrt). right. rewrite Hev in *. split; [reflexivity|].
    destruct (Hdirs eq_refl) as (gxy' & gyx' & D1 & D2 & E1 & E2 & E3 & E4 & F1 & F2 & F3).
    cbn [xdata] in E3. rewrite app_nil_r in E3. cbn [out_frames flat_map] in *.
    exists gxy', gyx', txy, tyx. split; [|auto]. split; [exact Hw'|]. split; [exact D1|]. split; [exact D2|].
    rewrite E3, F3, app_nil_r. split; [apply (Tok_same cX cY sX sY); auto|apply (Tok_same cY cX sY sX); auto].
Qed.

Lemma dataf_not_fc c f : dataf c f = true ->
  forall d fs b st, pdu_decode (f_data f) (c_rx_prefix_size c) = Some d -> d_pdu d <> PFC fs b st.
Proof.
  unfold dataf, is_data. intros H d fs b st Hd. rewrite Hd in H. intros E. rewrite E in H. discriminate.
Qed.

Lemma layer_pop sX sY chXY f chYX gxy gyx txy tyx :
  LInv sX sY chXY (f :: chYX) gxy gyx txy tyx ->
  c_is_for_me cX f = true /\
  has_err (snd (mstep cX sX (MRx f))) = false /\
  exists gxy' gyx' txy' tyx',
    LInv (fst (mstep cX sX (MRx f))) sY chXY chYX gxy' gyx' txy' tyx' /\
    map m_p (dH gxy') = map m_p (dH gxy) /\ dR gxy' = dR gxy /\ dH gyx' = dH gyx /\ dR gyx' = dR gyx.
Proof.
  intros (Hwf & Dxy & Dyx & Txy & Tyx).
  destruct (Dir_pop cY cX Hyx sY sX f chYX gyx Dyx) as [Hfor HR]. split; [exact Hfor|].
  pose proof (Dir_sender cX cY HokX Hxy sX sY chXY gxy (MRx f) Hwf Dxy I I) as HS.
  rewrite (mstep_out cX sX (MRx f) HokX Hwf), app_nil_r in HS.
  pose proof (WF_mstep cX sX (MRx f) Hwf) as Hw'.
  cbn [mstep fst snd] in *.
  assert (Hev : rr_evs (process_rx cX sX f) = []).
  { destruct (dataf cX f) eqn:Edf.
    - destruct (Dir_expected cY cX sY sX f chYX gyx Dyx Edf) as (HSc & HRT & Hexp).
      exact (proj1 (RT_data cX sX (dcur gyx) (dS gyx) (rx_queue sX) f HSc HRT Hexp)).
    - exact (proj2 (fc_rtok cX cY sX sY chXY f chYX (dW gxy) txy Txy Edf)). }
  rewrite Hev in *. split; [reflexivity|].
  destruct HS as [He|(gxy' & D1 & E1 & E2 & E3 & _)]; [discriminate|].
  destruct HR as [He|(gyx' & D2 & F1 & F2 & F3)]; [discriminate|].
  cbn [sent_payload xdata] in E1, E3. rewrite app_nil_r in E1, E3.
  assert (Hdata : dataf cX f = true -> stok (rr_s (process_rx cX sX f)) = stok sX /\
            (last_fc (rr_s (process_rx cX sX f)) = last_fc sX \/ last_fc (rr_s (process_rx cX sX f)) = None)).
  { intros Edf. destruct (rx_data_preserves_tx cX sX f (dataf_not_fc cX f Edf)) as [Hv Hl]. split; [apply txv_stok; exact Hv|exact Hl]. }
  destruct (T_sender_rx cX cY sX sY chXY f chYX (dW gxy) txy Txy Hdata) as [_ Txy'].
  destruct (T_recv_rx cY cX sY sX f chYX chXY (dW gyx) tyx (dS gyx) (dcur gyx) (rx_queue sX) Tyx
              (fun Edf => Dir_expected cY cX sY sX f chYX gyx Dyx Edf)
              (fun Edf => proj1 (fc_rtok cX cY sX sY chXY f chYX (dW gxy) txy Txy Edf))) as (tyx' & Tyx').
  exists gxy', gyx', txy, tyx'. split; [|auto]. split; [exact Hw'|]. split; [exact D1|]. split; [exact D2|].
  rewrite E3, F3. split; assumption.
Qed.

End Layer.

(** *** the joint system *)
Definition jev_to (e : jev) : bool := match e with JE _ e => is_timeout e | _ => false end.
Definition jto (tr : list jev) : bool := existsb jev_to tr.

Lemma jto_app a b : jto (a ++ b) = jto a || jto b.
Proof. apply existsb_app. Qed.
Lemma jto_events x evs : jto (map (JE x) evs) = has_to evs.
Proof. induction evs as [|e r IH]; [reflexivity|]. unfold jto, has_to in *. cbn [map existsb]. rewrite IH. reflexivity. Qed.
Lemma jto_obs x c s m : jto (user_obs x c s m) = false.
Proof.
  destruct m; try reflexivity; cbn.
  - destruct (snd (send c s g size t)); reflexivity.
  - destruct (snd (recv s)); reflexivity.
Qed.

Section JointTok.
Variables ca cb : cfg.
Hypothesis Hoka : params_ok (c_p ca).
Hypothesis Hokb : params_ok (c_p cb).
Hypothesis Hab : linked ca cb.
Hypothesis Hba : linked cb ca.
Hypothesis Hsta : stmin_valid (p_stmin (c_p ca)) = true.
Hypothesis Hstb : stmin_valid (p_stmin (c_p cb)) = true.

Definition JInvT (n : net) (gab gba : dg) (tab tba : tg) : Prop :=
  LInv ca cb (nA n) (nB n) (inB n) (inA n) gab gba tab tba /\ WF cb (nB n).

Lemma JInvT_swap n gab gba tab tba : JInvT n gab gba tab tba ->
  LInv cb ca (nB n) (nA n) (inA n) (inB n) gba gab tba tab /\ WF ca (nA n).
Proof. intros ((Hwa & D1 & D2 & T1 & T2) & Hwb). split; [split; [exact Hwb|auto]|exact Hwa]. Qed.

Lemma jstep_invT n gab gba tab tba tr0 o :
  JInvT n gab gba tab tba -> Obs tr0 gab gba -> jop_ok ca cb o ->
  jto (snd (jstep ca cb n o)) = true \/
  (jerr (snd (jstep ca cb n o)) = false /\
   exists gab' gba' tab' tba', JInvT (fst (jstep ca cb n o)) gab' gba' tab' tba' /\ Obs (tr0 ++ snd (jstep ca cb n o)) gab' gba').
Proof.
  intros HJ (O1 & O2 & O3 & O4) Hop.
  destruct o as [[|] m|[|]]; cbn [jstep cfg_of lay inbox].
  - (* a micro-step of A *)
    destruct Hop as (Hm & Hnr & Hfit). cbn [other cfg_of] in Hfit. destruct HJ as [HL Hwb].
    pose proof (layer_step ca cb Hoka Hokb Hab Hsta _ _ _ _ _ _ _ _ m HL Hm Hnr Hfit) as Hs.
    destruct (mstep ca (nA n) m) as [s' evs]. cbn [fst snd] in *.
    rewrite jto_app, jto_events, jto_obs, orb_false_r, jerr_app, jerr_events, jerr_obs, orb_false_r.
    destruct Hs as [Hto|(Hne & gab' & gba' & tab' & tba' & HL' & E1 & E2 & E3 & E4)]; [left; exact Hto|right].
    split; [exact Hne|]. exists gab', gba', tab', tba'.
    cbn [fst snd push_out set_lay set_inbox inbox other nA nB inA inB]. split; [split; [exact HL'|exact Hwb]|].
    unfold Obs. rewrite !sent_of_app, !recv_of_app, !sent_of_events, !recv_of_events, !sent_of_obs, !recv_of_obs. cbn [side_eqb app].
    rewrite !app_nil_r. repeat split; congruence.
  - (* a micro-step of B *)
    destruct Hop as (Hm & Hnr & Hfit). cbn [other cfg_of] in Hfit. destruct (JInvT_swap _ _ _ _ _ HJ) as [HL Hwa].
    pose proof (layer_step cb ca Hokb Hoka Hba Hstb _ _ _ _ _ _ _ _ m HL Hm Hnr Hfit) as Hs.
    destruct (mstep cb (nB n) m) as [s' evs]. cbn [fst snd] in *.
    rewrite jto_app, jto_events, jto_obs, orb_false_r, jerr_app, jerr_events, jerr_obs, orb_false_r.
    destruct Hs as [Hto|(Hne & gba' & gab' & tba' & tab' & HL' & E1 & E2 & E3 & E4)]; [left; exact Hto|right].
    split; [exact Hne|]. exists gab', gba', tab', tba'.
    cbn [fst snd push_out set_lay set_inbox inbox other nA nB inA inB].
    destruct HL' as (Hw' & D1 & D2 & T1 & T2).
    split; [split; [split; [exact Hwa|auto]|exact Hw']|].
    unfold Obs. rewrite !sent_of_app, !recv_of_app, !sent_of_events, !recv_of_events, !sent_of_obs, !recv_of_obs. cbn [side_eqb app].
    rewrite !app_nil_r. repeat split; congruence.
  - (* A's reception loop takes a frame *)
    destruct HJ as [HL Hwb].
    destruct (inA n) as [|f rest] eqn:Ein.
    { right. split; [reflexivity|]. exists gab, gba, tab, tba. cbn [fst snd]. rewrite app_nil_r.
      split; [split; [rewrite Ein; exact HL|exact Hwb]|repeat split; assumption]. }
    destruct (layer_pop ca cb Hoka Hab Hba _ _ _ f rest _ _ _ _ HL) as (Hfor & Hne & gab' & gba' & tab' & tba' & HL' & E1 & E2 & E3 & E4).
    rewrite Hfor. destruct (mstep ca (nA n) (MRx f)) as [s' evs]. cbn [fst snd] in *.
    right. rewrite jerr_events. split; [exact Hne|]. exists gab', gba', tab', tba'.
    cbn [fst snd set_lay set_inbox nA nB inA inB]. split; [split; [exact HL'|exact Hwb]|].
    unfold Obs. rewrite !sent_of_app, !recv_of_app, !sent_of_events, !recv_of_events, !app_nil_r. repeat split; congruence.
  - (* B's reception loop takes a frame *)
    destruct (JInvT_swap _ _ _ _ _ HJ) as [HL Hwa].
    destruct (inB n) as [|f rest] eqn:Ein.
    { right. split; [reflexivity|]. exists gab, gba, tab, tba. cbn [fst snd]. rewrite app_nil_r.
      split; [exact HJ|repeat split; assumption]. }
    destruct (layer_pop cb ca Hokb Hba Hab _ _ _ f rest _ _ _ _ HL) as (Hfor & Hne & gba' & gab' & tba' & tab' & HL' & E1 & E2 & E3 & E4).
    rewrite Hfor. destruct (mstep cb (nB n) (MRx f)) as [s' evs]. cbn [fst snd] in *.
    right. rewrite jerr_events. split; [exact Hne|]. exists gab', gba', tab', tba'.
    cbn [fst snd set_lay set_inbox nA nB inA inB]. destruct HL' as (Hw' & D1 & D2 & T1 & T2).
    split; [split; [split; [exact Hwa|auto]|exact Hw']|].
    unfold Obs. rewrite !sent_of_app, !recv_of_app, !sent_of_events, !recv_of_events, !app_nil_r. repeat split; congruence.
Qed.

Theorem jrun_invT : forall ops n gab gba tab tba tr0,
  JInvT n gab gba tab tba -> Obs tr0 gab gba -> Forall (jop_ok ca cb) ops ->
  jto (snd (jrun ca cb n ops)) = true \/
  (jerr (snd (jrun ca cb n ops)) = false /\
   exists gab' gba' tab' tba', JInvT (fst (jrun ca cb n ops)) gab' gba' tab' tba' /\ Obs (tr0 ++ snd (jrun ca cb n ops)) gab' gba').
Proof.
  induction ops as [|o rest IH]; intros n gab gba tab tba tr0 HI HO Hops; cbn [jrun].
  - right. split; [reflexivity|]. exists gab, gba, tab, tba. cbn [fst snd]. rewrite app_nil_r. split; assumption.
  - inversion Hops as [|? ? Ho Hrest]; subst.
    pose proof (jstep_invT n gab gba tab tba tr0 o HI HO Ho) as Hs.
    destruct (jstep ca cb n o) as [n1 e1]. cbn [fst snd] in Hs.
    destruct Hs as [Hto|(Hne & gab1 & gba1 & tab1 & tba1 & HI1 & HO1)].
    { left. destruct (jrun ca cb n1 rest) as [n2 e2]. cbn [snd]. rewrite jto_app, Hto. reflexivity. }
    specialize (IH n1 gab1 gba1 tab1 tba1 (tr0 ++ e1) HI1 HO1 Hrest).
    destruct (jrun ca cb n1 rest) as [n2 e2]. cbn [fst snd] in *.
    destruct IH as [Hto|(Hne2 & gab2 & gba2 & tab2 & tba2 & HI2 & HO2)].
    + left. rewrite jto_app, Hto. apply orb_true_r.
    + right. split; [rewrite jerr_app, Hne, Hne2; reflexivity|]. exists gab2, gba2, tab2, tba2. split; [exact HI2|]. rewrite app_assoc. exact HO2.
Qed.

Definition t0 : tg := {| tC := []; ta := 0; ti := 0 |}.

Lemma JInvT_init ta tb : JInvT (init_net ca cb ta tb) g0 g0 t0 t0.
Proof.
  split; [|apply WF_init]. split; [apply WF_init|]. split; [apply Dir_init|]. split; [apply Dir_init|].
  split; apply Tok_init.
Qed.

(** Unless a deadline error (N_Bs: FlowControlTimeoutError, N_Cr: ConsecutiveFrameTimeoutError) has been
    reported, NO error has been reported at all, and the transfer statement holds.  From the initial state,
    every interleaving. *)
Theorem joint_only_deadlines ta tb ops : Forall (jop_ok ca cb) ops ->
  let n := fst (jrun ca cb (init_net ca cb ta tb) ops) in
  let tr := snd (jrun ca cb (init_net ca cb ta tb) ops) in
  jto tr = true \/
  (jerr tr = false /\
   (exists later, sent_of SA tr = (recv_of SB tr ++ rx_queue (nB n)) ++ later) /\
   (exists later, sent_of SB tr = (recv_of SA tr ++ rx_queue (nA n)) ++ later) /\
   (at_rest n -> sent_of SA tr = recv_of SB tr ++ rx_queue (nB n) /\
                 sent_of SB tr = recv_of SA tr ++ rx_queue (nA n))).
Proof.
  intros Hops. cbv zeta.
  assert (HO0 : Obs [] g0 g0) by (repeat split).
  destruct (jrun_invT ops _ g0 g0 t0 t0 [] (JInvT_init ta tb) HO0 Hops)
    as [Hto|(Hne & gab & gba & tab & tba & ((Hwa & Dab & Dba & _) & Hwb) & (O1 & O2 & O3 & O4))]; [left; exact Hto|right].
  cbn [app] in *. split; [exact Hne|]. split; [|split].
  - destruct (Dir_prefix ca cb _ _ _ _ Dab) as [tl Htl]. exists tl. rewrite O1, O2. exact Htl.
  - destruct (Dir_prefix cb ca _ _ _ _ Dba) as [tl Htl]. exists tl. rewrite O3, O4. exact Htl.
  - intros (Ea & Eb & A1 & A2 & A3 & B1 & B2 & B3). rewrite Eb in Dab. rewrite Ea in Dba.
    rewrite O1, O2, O3, O4. split; symmetry.
    + exact (Dir_rest ca cb _ _ _ Dab A1 A2 B3).
    + exact (Dir_rest cb ca _ _ _ Dba B1 B2 A3).
Qed.

End JointTok.
