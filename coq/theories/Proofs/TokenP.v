(** Flow-control credit between two linked layers: a Flow Control only ever reaches a sender that is
    waiting for it.  For one direction of traffic (sender S, receiver R) the invariant [Tok] says: the
    receiver has consumed the data frames [C], a prefix of the data frames [W] the sender emitted; the
    receiver has issued exactly one ContinueToSend request per flow-control point of [C]; the sender has
    accepted [ga] grants and waits iff [W] has a point it has no grant for; and grants are conserved:
    accepted + pending at the receiver + in flight + in the sender's mailbox <= issued.  Hence a grant in
    the mailbox finds the sender waiting, and the only errors a joint run can report first are missed
    deadlines (N_Bs, N_Cr). *)
From IsoTp Require Import Base.Prelude Base.Bits Model.Micro Model.Joint Spec.ConfigSpec Spec.FrameSpec Spec.Segment Spec.Stream
  Spec.AddrSpec Proofs.FramesP Proofs.Codec Proofs.Inv Proofs.NoCrash Proofs.TxP Proofs.SegP Proofs.DuplexP Proofs.Events
  Proofs.RxP Proofs.PacingP Proofs.SendTraceP Proofs.RecvTraceP Proofs.WireP Proofs.MicroP Proofs.JointP
  Proofs.ScanP Proofs.TokRxP Proofs.TokTxP.

Definition is_timeout (e : event) : bool :=
  match e with EErr FlowControlTimeout | EErr ConsecutiveFrameTimeout => true | _ => false end.
Definition has_to (evs : list event) : bool := existsb is_timeout evs.

Lemma has_to_app a b : has_to (a ++ b) = has_to a || has_to b.
Proof. apply existsb_app. Qed.

Lemma in_fct_has_to evs : In (EErr FlowControlTimeout) evs -> has_to evs = true.
Proof. intros H. apply existsb_exists. exists (EErr FlowControlTimeout). auto. Qed.

Section TokDir.
Variables cS cR : cfg.
Hypothesis HokS : params_ok (c_p cS).
Hypothesis HokR : params_ok (c_p cR).
Hypothesis Hlink : linked cS cR.
Hypothesis Hlink' : linked cR cS.
Hypothesis HstR : stmin_valid (p_stmin (c_p cR)) = true.

Let bs := p_blocksize (c_p cR).
Let kR := c_rx_prefix_size cR.
Let kS := c_rx_prefix_size cS.

Lemma kR_eq : kR = zlen (c_tx_prefix cS).
Proof. apply linked_prefix. exact Hlink. Qed.
Lemma kS_eq : kS = zlen (c_tx_prefix cR).
Proof. apply linked_prefix. exact Hlink'. Qed.
Lemma bs_nonneg : 0 <= bs.
Proof. destruct HokR as (_ & _ & _ & _ & Hb & _). subst bs. lia. Qed.

(** a ContinueToSend of the receiver as the sender reads it *)
Definition fcR (f : frame) : Prop :=
  exists x, pdu_decode (f_data f) kS = Some x /\ d_pdu x = PFC FS_CTS bs (p_stmin (c_p cR)).

(** frames of the channel toward the sender that are not data frames *)
Definition nfc (ch : list frame) : Z := zlen (filter (fun f => negb (dataf cS f)) ch).

Lemma nfc_app a b : nfc (a ++ b) = nfc a + nfc b.
Proof. unfold nfc. rewrite filter_app, zlen_app. reflexivity. Qed.
Lemma nfc_nonneg a : 0 <= nfc a.
Proof. apply zlen_nonneg. Qed.

Record tg := { tC : list frame; ta : Z; ti : Z }.

Definition Tok (sS sR : layer) (chSR chRS : list frame) (W : list frame) (t : tg) : Prop :=
  tC t ++ filter (dataf cR) chSR = W /\
  SX cS bs sS W (ta t) /\
  RXI cR sR (tC t) (ti t) /\
  ta t + (b2z (pending_fc sR) + nfc chRS + granted sS) <= ti t /\
  (forall fc, last_fc sS = Some fc -> fc_status fc = FS_CTS /\ fc_bs fc = bs) /\
  Forall (fun f => dataf cS f = true \/ fcR f) chRS.

Lemma Tok_Pfc sS sR chSR chRS W t : Tok sS sR chSR chRS W t -> Pfc cS bs sS W (ta t).
Proof.
  intros (HC & HX & (Hgi & _) & Hineq & Hmb & _) fc Hfc. destruct (Hmb fc Hfc) as [H1 H2].
  split; [exact H1|]. split; [exact H2|].
  unfold granted in Hineq. rewrite Hfc in Hineq.
  pose proof (nfc_nonneg chRS). assert (0 <= b2z (pending_fc sR)) by (unfold b2z; destruct (pending_fc sR); lia).
  rewrite <- HC. pose proof (scan_prefix_pts (zlen (c_tx_prefix cS)) bs (tC t) (filter (dataf cR) chSR)) as Hm.
  fold kR in Hgi. rewrite kR_eq in Hgi. fold bs in Hgi. lia.
Qed.

(** **** the sender makes a transmit pass *)
Lemma T_sender_tx sS sR chSR chRS H W W' t :
  WF cS sS -> ST cS sS W H -> Tok sS sR chSR chRS W t ->
  let r := process_tx cS sS in
  let out := opt_list (tr_msg r) in
  W' = W ++ pass_data cS sS ->
  filter (dataf cR) (chSR ++ out) = filter (dataf cR) chSR ++ pass_data cS sS ->
  has_to (tr_evs r) = true \/
  (has_err (tr_evs r) = false /\
   exists t', Tok (tr_s r) sR (chSR ++ out) chRS W' t').
Proof.
  intros Hwf HS HT r out HW' Hfil. pose proof HT as (HC & HX & HRX & Hineq & Hmb & Hch).
  destruct (SX_tx cS HokS bs bs_nonneg sS W H (ta t) Hwf HS HX (Tok_Pfc _ _ _ _ _ _ HT)) as [Hto|[Hne Hres]].
  { left. apply in_fct_has_to. exact Hto. }
  right. split; [exact Hne|].
  unfold pass_data in *. destruct (tx_input cS sS) as [s1|] eqn:Ei.
  - destruct Hres as [HX' Hl'].
    exists {| tC := tC t; ta := ta t + granted sS; ti := ti t |}. unfold Tok. cbn [tC ta ti].
    split; [rewrite Hfil, HW', app_assoc, HC; reflexivity|]. split; [rewrite HW'; exact HX'|]. split; [exact HRX|].
    split; [unfold granted at 2; fold r; rewrite Hl'; lia|]. split; [fold r; rewrite Hl'; discriminate|exact Hch].
  - destruct Hres as [HX' Hl']. rewrite app_nil_r in HW', Hfil. subst W'.
    exists t. unfold Tok. split; [rewrite Hfil; exact HC|]. split; [exact HX'|]. split; [exact HRX|].
    split; [unfold granted in *; fold r; rewrite Hl'; exact Hineq|]. split; [fold r; rewrite Hl'; exact Hmb|exact Hch].
Qed.

(** **** the sender layer does something else than a pass or a reception *)
Definition quiet (m : micro) : Prop := match m with MLim | MSend _ _ _ | MRecv | MTick _ => True | _ => False end.

Lemma quiet_fields c s m : quiet m ->
  snd (mstep c s m) = [] /\ stok (fst (mstep c s m)) = stok s /\ last_fc (fst (mstep c s m)) = last_fc s /\
  rtok (fst (mstep c s m)) = rtok s.
Proof.
  intros Hq. destruct m; try (destruct Hq; fail); cbn [mstep fst snd].
  - split; [reflexivity|]. unfold lim_update. destruct (negb _); [repeat split|]. destruct (lim_pop _ _ _ _ _) as [[a b] d]. repeat split.
  - split; [reflexivity|]. unfold send. destruct (size <? 0); [repeat split|]. destruct (_ <? size); [repeat split|].
    destruct (match match t with Some x => x | None => _ end with Functional => _ | Physical => _ end); repeat split.
  - split; [reflexivity|]. unfold recv. destruct (rx_queue s); repeat split.
  - repeat split.
Qed.

Lemma check_fields s :
  has_to (snd (check_timeouts_rx s)) = true \/
  (snd (check_timeouts_rx s) = [] /\ fst (check_timeouts_rx s) = s).
Proof. unfold check_timeouts_rx. destruct (timer_timed_out _ _); [left; reflexivity|right; auto]. Qed.

Lemma Tok_same sS sR chSR chRS W t sS' sR' :
  stok sS' = stok sS -> last_fc sS' = last_fc sS -> rtok sR' = rtok sR ->
  Tok sS sR chSR chRS W t -> Tok sS' sR' chSR chRS W t.
Proof.
  intros E1 E2 E3 (HC & HX & HRX & Hineq & Hmb & Hch).
  assert (Ep : pending_fc sR' = pending_fc sR) by (unfold rtok in E3; injection E3; auto).
  split; [exact HC|]. split; [exact (SX_stok cS bs _ _ _ _ E1 HX)|]. split; [exact (RXI_rtok cR _ _ _ _ E3 HRX)|].
  split; [unfold granted; rewrite E2, Ep; exact Hineq|]. split; [rewrite E2; exact Hmb|exact Hch].
Qed.

(** **** the sender takes the oldest frame toward it *)
Lemma T_sender_rx sS sR chSR f chRS W t :
  Tok sS sR chSR (f :: chRS) W t ->
  (* a data frame of the other direction: the transmit view is untouched, the mailbox kept or emptied *)
  (dataf cS f = true -> stok (rr_s (process_rx cS sS f)) = stok sS /\
     (last_fc (rr_s (process_rx cS sS f)) = last_fc sS \/ last_fc (rr_s (process_rx cS sS f)) = None)) ->
  (dataf cS f = false -> rr_evs (process_rx cS sS f) = []) /\
  Tok (rr_s (process_rx cS sS f)) sR chSR chRS W t.
Proof.
  intros (HC & HX & HRX & Hineq & Hmb & Hch) Hdata.
  inversion Hch as [|? ? Hf Hch']; subst.
  destruct (dataf cS f) eqn:Edf.
  - destruct (Hdata eq_refl) as [Hst Hl]. split; [discriminate|].
    assert (Hn : nfc (f :: chRS) = nfc chRS) by (unfold nfc; cbn [filter]; rewrite Edf; reflexivity).
    split; [exact HC|]. split; [exact (SX_stok cS bs _ _ _ _ Hst HX)|]. split; [exact HRX|].
    split; [rewrite Hn in Hineq; unfold granted in *; destruct Hl as [-> | ->]; [exact Hineq|destruct (last_fc sS); lia]|].
    split; [destruct Hl as [-> | ->]; [exact Hmb|discriminate]|exact Hch'].
  - destruct Hf as [Hf|(x & Hdec & Hp)]; [congruence|].
    rewrite (rx_fc_only_mailbox cS sS f x _ _ _ Hdec Hp). cbn [rr_s rr_evs mk_rr]. split; [reflexivity|].
    assert (Hn : nfc (f :: chRS) = 1 + nfc chRS) by (unfold nfc; cbn [filter]; rewrite Edf; cbn [negb]; rewrite zlen_cons; reflexivity).
    split; [exact HC|]. split; [apply (SX_stok cS bs sS); [reflexivity|exact HX]|]. split; [exact HRX|].
    split; [rewrite Hn in Hineq; unfold granted in *; cbn [last_fc set RecordSet.set]; destruct (last_fc sS); lia|].
    split; [cbn [last_fc set RecordSet.set]; intros fc E; injection E as <-; cbn; auto|exact Hch'].
Qed.

(** **** the receiver makes a transmit pass: a pending request becomes a ContinueToSend in flight *)
Lemma fc_frame_read m : make_flow_control cR FS_CTS = Some m -> fcR m /\ dataf cS m = false.
Proof.
  intros Hm. split.
  - unfold make_flow_control, craft_fc_data in Hm.
    pose proof HokR as (Hdl & _ & _ & Hstm & Hb & _).
    rewrite (land_byte (p_blocksize (c_p cR))) in Hm by lia. rewrite (land_byte (p_stmin (c_p cR))) in Hm by lia.
    change (Z.lor 48 (Z.land FS_CTS 15)) with (0x30 + 0) in Hm.
    set (d := c_tx_prefix cR ++ [0x30 + 0; p_blocksize (c_p cR); p_stmin (c_p cR)]) in Hm.
    assert (Hlen : 2 <= zlen d <= p_tx_dl (c_p cR)).
    { subst d. rewrite zlen_app, !zlen_cons, zlen_nil. pose proof (in_ll_sizes _ Hdl). pose proof (plen_bounds cR). lia. }
    rewrite (spec_frame_of_make cR HokR _ d Hlen) in Hm. injection Hm as <-.
    destruct (spec_frame_data cR HokR (c_tx_id cR Physical) d Hlen) as [Hd _]; [intros; lia|].
    unfold fcR. rewrite Hd. subst d. rewrite <- app_assoc. cbn [app].
    rewrite kS_eq. rewrite (decode_fc (c_tx_prefix cR) 0 _ _ _ _ eq_refl ltac:(lia) HstR).
    eexists. split; [reflexivity|]. reflexivity.
  - unfold dataf. fold kS. rewrite kS_eq. exact (fc_not_data cR HokR FS_CTS m Hm).
Qed.

Lemma T_recv_tx sS sR chSR chRS W t :
  WF cR sR -> Tok sS sR chSR chRS W t ->
  let r := process_tx cR sR in
  let out := opt_list (tr_msg r) in
  filter (dataf cS) (chRS ++ out) = filter (dataf cS) chRS ++ pass_data cR sR ->
  Tok sS (tr_s r) chSR (chRS ++ out) W t.
Proof.
  intros Hwf (HC & HX & HRX & Hineq & Hmb & Hch) r out Hfil.
  pose proof HRX as (Hgi & Hpend & Hst).
  assert (Hfo : filter (dataf cS) out = pass_data cR sR).
  { rewrite filter_app in Hfil. apply (app_inv_head _ _ _ Hfil). }
  unfold pass_data in Hfo. subst r out.
  destruct (tx_input cR sR) as [s1|] eqn:Ei.
  - (* an ordinary pass: only data frames leave; the reception view is kept, a pending request at most dropped (listen mode) *)
    pose proof (process_tx_by_input cR sR) as Hp. rewrite Ei in Hp.
    assert (Hs1 : rtok s1 = (rx_state sR, rx_block_counter sR, rx_frame_length sR, rx_buffer sR, pending_fc s1, pending_fc_status sR) /\
                  (pending_fc s1 = pending_fc sR \/ pending_fc s1 = false)).
    { revert Ei. unfold tx_input. destruct (pending_fc sR) eqn:Ep; [|intros E; injection E as <-; unfold rtok; rewrite Ep; auto].
      cbv zeta. destruct (negb (p_listen (c_p cR))); [discriminate|]. intros E; injection E as <-. destruct (opt_eqb _ _); unfold rtok; cbn; auto. }
    destruct Hs1 as [Hr1 Hp1].
    assert (Hr : rtok (tr_s (process_tx cR sR)) = rtok s1).
    { rewrite Hp. apply rxv_rtok. apply tx_preserves_rx. }
    assert (Hpf : pending_fc (tr_s (process_tx cR sR)) = pending_fc s1) by (unfold rtok in Hr; injection Hr; auto).
    assert (Hall : Forall (fun f => dataf cS f = true) (opt_list (tr_msg (process_tx cR sR)))).
    { rewrite <- Hfo. clear. induction (opt_list _) as [|f l IH]; [constructor|]. cbn [filter]. destruct (dataf cS f) eqn:E; [constructor; [|apply IH]|apply IH]. Abort.
