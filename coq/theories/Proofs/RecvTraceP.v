(** C01 / C10, receiver side, for every run.  Along any run of micro-steps of one layer in which the
    data frames it processes follow a script of well-formed streams (Spec/Stream.v) - interleaved in
    any way with Flow Control frames, transmit passes, timeout checks, send() calls and clock ticks -
    and as long as no error has been reported, the receive queue holds exactly the payloads of the
    streams processed completely, in order, and the reception state is the one the partly processed
    stream determines. *)
From IsoTp Require Import Base.Prelude Base.Bits Model.Micro Spec.ConfigSpec Spec.Stream
  Proofs.Codec Proofs.FramesP Proofs.RxP Proofs.FcPosP Proofs.DuplexP Proofs.SendTraceP.

Definition mkf (f : frame) (d : list Z) : frame :=
  {| f_id := f_id f; f_ext := f_ext f; f_data := d; f_dlc := f_dlc f; f_fd := f_fd f; f_brs := f_brs f |}.

Lemma mkf_self f : mkf f (f_data f) = f.
Proof. destruct f; reflexivity. Qed.

Section RT.
Variable c : cfg.
Let k := c_rx_prefix_size c.

(** reception core: what reassembly reads and writes *)
Definition rcore (s : layer) :=
  (rx_state s, rx_buffer s, rx_frame_length s, last_seqnum s, actual_rxdl s, rx_queue s).

(** a script: the payloads with the frame data of their streams *)
Definition script := list (list Z * list (list Z)).
Definition script_ok (S : script) : Prop :=
  Forall (fun e => wf_stream k (fst e) (snd e) /\ zlen (fst e) <= p_max_frame_size (c_p c)) S.

(** position: in the middle of a stream (payload, frames still expected) or between streams *)
Definition rcur := option (list Z * list (list Z)).

Definition expected (cur : rcur) (S : script) : option (list Z) :=
  match cur with
  | Some (_, d :: _) => Some d
  | Some (_, []) => None
  | None => match S with (_, d :: _) :: _ => Some d | _ => None end
  end.

(** position after the expected data frame, and the payload it completes *)
Definition advance (cur : rcur) (S : script) : rcur * script * list (list Z) :=
  match cur with
  | Some (p, [_]) => (None, S, [p])
  | Some (p, _ :: todo) => (Some (p, todo), S, [])
  | Some (p, []) => (cur, S, [])
  | None =>
      match S with
      | (p, [_]) :: S' => (None, S', [p])
      | (p, _ :: todo) :: S' => (Some (p, todo), S', [])
      | _ => (cur, S, [])
      end
  end.

Definition RT (s : layer) (cur : rcur) (D : list (list Z)) : Prop :=
  rx_queue s = D /\
  match cur with
  | None => rx_state s = RxIdle
  | Some (p, todo) =>
      exists T j rest, In T LL_SIZES /\ wf_cfs k T j rest todo /\ 1 <= j /\
        rx_state s = RxWaitCF /\ actual_rxdl s = Some T /\
        rx_frame_length s = zlen (rx_buffer s) + zlen rest /\
        last_seqnum s = (j - 1) mod 16 /\ p = rx_buffer s ++ rest
  end.

Lemma RT_core s s' cur D : rcore s' = rcore s -> RT s cur D -> RT s' cur D.
Proof.
  unfold rcore. intros E. injection E as E1 E2 E3 E4 E5 E6. unfold RT. rewrite E1, E2, E3, E4, E5, E6. auto.
Qed.

Lemma k_bounds : 0 <= k <= 1.
Proof. subst k. unfold c_rx_prefix_size, Address.rx_prefix_size. destruct (Address.requires_ext_byte _); lia. Qed.

(** a full Consecutive Frame that does not complete the message *)
Lemma rx_cf_more T j chunk rest pre s f :
  In T LL_SIZES -> zlen pre = k -> zlen chunk = T - 1 - k -> rest <> [] -> 1 <= j ->
  f_data f = pre ++ (0x20 + j mod 16) :: chunk ->
  rx_state s = RxWaitCF -> actual_rxdl s = Some T ->
  rx_frame_length s = zlen (rx_buffer s) + zlen (chunk ++ rest) ->
  last_seqnum s = (j - 1) mod 16 ->
  let rr := process_rx c s f in
  rr_evs rr = [] /\ rx_state (rr_s rr) = RxWaitCF /\ actual_rxdl (rr_s rr) = Some T /\
  rx_buffer (rr_s rr) = rx_buffer s ++ chunk /\ rx_frame_length (rr_s rr) = rx_frame_length s /\
  last_seqnum (rr_s rr) = j mod 16 /\ rx_queue (rr_s rr) = rx_queue s.
Proof.
  intros HT Hpre Hchunk Hne Hj Hd Hst Hdl Hfl Hsq. pose proof (in_ll_sizes T HT) as HTs. pose proof k_bounds as Hk.
  cbv zeta. unfold process_rx. rewrite Hd. change (c_rx_prefix_size c) with k.
  rewrite (decode_cf pre (j mod 16) chunk k Hpre) by (apply Z.mod_pos_bound; lia).
  cbn [d_pdu d_can_dl d_rx_dl]. rewrite Hst. cbv iota.
  rewrite Hsq, seq_next by lia. rewrite Z.eqb_refl.
  assert (Hrxdl : Z.max 8 (zlen (pre ++ (32 + j mod 16) :: chunk)) = T).
  { rewrite zlen_app, zlen_cons. lia. }
  rewrite Hrxdl, Hdl. cbn [opt_eqb]. rewrite Z.eqb_refl. cbn [negb andb].
  assert (Hrest : 0 < zlen rest). { destruct rest; [congruence|rewrite zlen_cons; pose proof (zlen_nonneg rest); lia]. }
  rewrite zlen_app in Hfl.
  rewrite (ztake_all chunk) by lia.
  cbn [rx_frame_length rx_buffer start_rx_cf_timer].
  assert (Hnot : (rx_frame_length s <=? zlen (rx_buffer s ++ chunk)) = false).
  { apply Z.leb_gt. rewrite zlen_app. lia. }
  cbn. rewrite Hnot. cbn.
  match goal with |- context [if ?b then _ else _] => destruct b end; cbn; repeat split.
  all: assumption.
Qed.

(** a First Frame taken by an idle receiver *)
Lemma rx_ff_idle T p pre first rest s f :
  In T LL_SIZES -> zlen pre = k -> p = first ++ rest -> rest <> [] -> 0 < zlen p < 2 ^ 32 ->
  zlen (pre ++ ff_hdr (zlen p) ++ first) = T -> zlen p <= p_max_frame_size (c_p c) ->
  f_data f = pre ++ ff_hdr (zlen p) ++ first -> rx_state s = RxIdle ->
  let rr := process_rx c s f in
  rr_evs rr = [] /\ rx_state (rr_s rr) = RxWaitCF /\ actual_rxdl (rr_s rr) = Some T /\
  rx_buffer (rr_s rr) = first /\ rx_frame_length (rr_s rr) = zlen p /\
  last_seqnum (rr_s rr) = 0 /\ rx_queue (rr_s rr) = rx_queue s.
Proof.
  intros HT Hpre Hp Hne Hn Hlen Hmax Hd Hst. pose proof (in_ll_sizes T HT) as HTs. pose proof k_bounds as Hk.
  assert (Hrest : 0 < zlen rest). { destruct rest; [congruence|rewrite zlen_cons; pose proof (zlen_nonneg rest); lia]. }
  assert (Hpl : zlen p = zlen first + zlen rest) by (rewrite Hp, zlen_app; reflexivity).
  pose proof (zlen_nonneg first) as Hf0.
  assert (Hdec : exists esc, pdu_decode (pre ++ ff_hdr (zlen p) ++ first) k =
            Some {| d_pdu := PFF esc (zlen p) first; d_can_dl := T; d_rx_dl := T |}).
  { unfold ff_hdr in *. destruct (Z.leb_spec (zlen p) 4095) as [Hs|Hl].
    - exists false. cbn [app] in *. rewrite (decode_ff_short pre (zlen p) first k Hpre) by lia.
      rewrite Hlen. f_equal. f_equal; [|lia]. f_equal. apply ztake_all. lia.
    - exists true. cbn [app] in *. rewrite (decode_ff_long pre (zlen p) first k Hpre) by lia.
      rewrite Hlen. f_equal. f_equal; [|lia]. f_equal. apply ztake_all. lia. }
  destruct Hdec as [esc Hdec].
  cbv zeta. unfold process_rx. rewrite Hd. change (c_rx_prefix_size c) with k. rewrite Hdec.
  cbn [d_pdu d_can_dl d_rx_dl negb andb]. cbv iota. rewrite Hst.
  unfold start_reception_after_ff. rewrite (valid_rxdl_sizes T HT). cbn [negb].
  destruct (Z.ltb_spec (p_max_frame_size (c_p c)) (zlen p)); [lia|]. cbn. repeat split.
Qed.

Lemma wf_cfs_cons T j rest tl0 : wf_cfs k T j rest tl0 -> exists d tl, tl0 = d :: tl.
Proof. intros H. destruct H; eauto. Qed.

(** the expected data frame: no event, the position advances, a completed payload is queued *)
Lemma RT_data s cur S D f :
  script_ok S -> RT s cur D -> expected cur S = Some (f_data f) ->
  rr_evs (process_rx c s f) = [] /\
  RT (rr_s (process_rx c s f)) (fst (fst (advance cur S))) (D ++ snd (advance cur S)) /\
  script_ok (snd (fst (advance cur S))).
Proof.
  intros HS [HQ HR] Hexp. pose proof k_bounds as Hk.
  destruct cur as [[p todo]|].
  - (* in the middle of a stream *)
    destruct HR as (T & j & rest & HT & Hcfs & Hj & Hst & Hdl & Hfl & Hsq & Hp).
    destruct todo as [|d todo']; [discriminate|]. cbn [expected] in Hexp. injection Hexp as Hd. revert Hd.
    inversion Hcfs as [j0 rest0 pre pad Hpre Hne Hlen Hmax Ej Er Ef | j0 chunk rest' pre tl Hpre Hchunk Hne Hcfs' Ej Er Ef]; subst; intros Hd.
    + (* last frame *)
      cbn [advance fst snd].
      pose proof (rx_cfs c (mkf f) (fun d => eq_refl) T HT j rest _ Hcfs s Hj Hst Hdl Hfl Hsq) as Hc.
      cbn [rx_run] in Hc. rewrite Hd, mkf_self in Hc.
      destruct (process_rx c s f) as [s' evs imm fr]. cbn [rr_s rr_evs] in *.
      destruct Hc as (He & Hq & Hs' & _). rewrite app_nil_r in He.
      split; [exact He|]. split; [|exact HS]. split; [rewrite Hq; reflexivity|exact Hs'].
    + (* more to come *)
      destruct (wf_cfs_cons _ _ _ _ Hcfs') as (d1 & tl1 & ->).
      cbn [advance fst snd]. rewrite app_nil_r.
      destruct (rx_cf_more T j chunk rest' pre s f HT Hpre Hchunk Hne Hj (eq_sym Hd) Hst Hdl Hfl Hsq)
        as (He & Hs' & Hdl' & Hb' & Hfl' & Hsq' & Hq').
      split; [exact He|]. split; [|exact HS]. split; [rewrite Hq'; reflexivity|].
      exists T, (j + 1), rest'. repeat split; try assumption; try lia.
      * rewrite Hfl', Hfl, Hb', !zlen_app. lia.
      * rewrite Hsq'. f_equal. lia.
      * rewrite Hb', <- app_assoc. reflexivity.
  - (* at a stream boundary *)
    destruct S as [|[p fs] S']; [discriminate|]. cbn [expected] in Hexp.
    destruct fs as [|d fs']; [discriminate|]. injection Hexp as Hd. revert Hd.
    inversion HS as [|? ? [Hwf Hmax] HS']; subst. cbn [fst snd] in Hwf, Hmax.
    inversion Hwf as [pre pad Hpre Hn Hlen Ef | pre pad Hpre Hn Hlen Ef | T pre first rest cfs HT Hpre Hp Hne Hn Hlen Hcfs Ef]; subst; intros Hd.
    + cbn [advance fst snd].
      pose proof (rx_stream c (mkf f) (fun d => eq_refl) p _ Hwf Hmax s) as Hc.
      cbn [rx_run] in Hc. rewrite Hd, mkf_self in Hc.
      destruct (process_rx c s f) as [s' evs imm fr]. cbn [rr_s rr_evs] in *.
      destruct Hc as (Hq & Hs' & He & _). rewrite app_nil_r in He. unfold interrupt_evs in He. rewrite HR in He.
      split; [destruct He; assumption|]. split; [|exact HS']. split; [rewrite Hq; reflexivity|exact Hs'].
    + cbn [advance fst snd].
      pose proof (rx_stream c (mkf f) (fun d => eq_refl) p _ Hwf Hmax s) as Hc.
      cbn [rx_run] in Hc. rewrite Hd, mkf_self in Hc.
      destruct (process_rx c s f) as [s' evs imm fr]. cbn [rr_s rr_evs] in *.
      destruct Hc as (Hq & Hs' & He & _). rewrite app_nil_r in He. unfold interrupt_evs in He. rewrite HR in He.
      split; [destruct He; assumption|]. split; [|exact HS']. split; [rewrite Hq; reflexivity|exact Hs'].
    + destruct (wf_cfs_cons _ _ _ _ Hcfs) as (d1 & tl1 & ->).
      cbn [advance fst snd]. rewrite app_nil_r.
      destruct (rx_ff_idle _ (first ++ rest) pre first rest s f HT Hpre eq_refl Hne Hn eq_refl Hmax (eq_sym Hd) HR)
        as (He & Hs' & Hdl' & Hb' & Hfl' & Hsq' & Hq').
      split; [exact He|]. split; [|exact HS']. split; [exact Hq'|].
      eexists. exists 1, rest. repeat split; try eassumption; try lia.
      * rewrite Hfl', Hb', zlen_app. reflexivity.
      * rewrite Hb'. reflexivity.
Qed.

(** *** micro-steps and runs *)

Definition data_frame (f : frame) : bool :=
  match pdu_decode (f_data f) k with
  | Some d => match d_pdu d with PFC _ _ _ => false | _ => true end
  | None => false
  end.

Definition op_okR (m : micro) : Prop :=
  match m with MRecv | MStopSending | MStopReceiving | MReset => False | _ => True end.

Definition rghost := (rcur * script * list (list Z))%type.

Definition gR (g : rghost) (m : micro) : rghost :=
  match m with
  | MRx f => if data_frame f then let '(cur, Sc, D) := g in (fst (fst (advance cur Sc)), snd (fst (advance cur Sc)), D ++ snd (advance cur Sc)) else g
  | _ => g
  end.

(** the data frame processed by this step is the one the script expects *)
Definition on_script (g : rghost) (m : micro) : Prop :=
  match m with
  | MRx f => data_frame f = true -> expected (fst (fst g)) (snd (fst g)) = Some (f_data f)
  | _ => True
  end.

Lemma rxv_rcore s s' : rxv s' = rxv s -> rcore s' = rcore s.
Proof.
  unfold rxv, rcore. intros E.
  pose proof (f_equal (fun '(_, st, b, fl, sq, _, dl, _, q, _, _) => (st, b, fl, sq, dl, q)) E) as E'. exact E'.
Qed.

Lemma process_tx_rcore s : rcore (tr_s (process_tx c s)) = rcore s.
Proof.
  unfold process_tx. destruct (pending_fc s).
  - cbv zeta. destruct (negb (p_listen (c_p c))).
    + destruct (opt_eqb _ _); (destruct (pending_fc_status _) as [st|]; [destruct (make_flow_control c st)|]); reflexivity.
    + destruct (opt_eqb _ _); (etransitivity; [apply rxv_rcore, tx_preserves_rx|reflexivity]).
  - apply rxv_rcore, tx_preserves_rx.
Qed.

Lemma RT_step s cur S D m :
  script_ok S -> RT s cur D -> op_okR m -> on_script (cur, S, D) m ->
  has_err (snd (mstep c s m)) = true \/
  (let '(cur', S', D') := gR (cur, S, D) m in RT (fst (mstep c s m)) cur' D' /\ script_ok S').
Proof.
  intros HS HR Hm Hon.
  assert (Hkeep : forall s', rcore s' = rcore s -> RT s' cur D /\ script_ok S) by (intros s' E; split; [exact (RT_core _ _ _ _ E HR)|exact HS]).
  destruct m; cbn [gR mstep fst snd]; try (destruct Hm; fail).
  - unfold check_timeouts_rx. destruct (timer_timed_out _ _); [left; reflexivity|right; apply Hkeep; reflexivity].
  - cbn [on_script fst snd] in Hon. unfold data_frame in *.
    destruct (pdu_decode (f_data f) k) as [d|] eqn:Ed.
    2: { left. unfold process_rx. change (c_rx_prefix_size c) with k. rewrite Ed. reflexivity. }
    destruct (d_pdu d) as [esc l data|esc len data|sn data|fs bs st] eqn:Ep.
    4: { right. rewrite (rx_fc_only_mailbox c s f d fs bs st Ed Ep). cbn [rr_s mk_rr]. apply Hkeep. reflexivity. }
    all: right; destruct (RT_data s cur S D f HS HR (Hon eq_refl)) as (He & HR' & HS'); split; assumption.
  - right. apply Hkeep. unfold lim_update. destruct (negb _); [reflexivity|].
    destruct (lim_pop _ _ _ _ _) as [[ts bs] tot]. reflexivity.
  - right. apply Hkeep. apply process_tx_rcore.
  - right. apply Hkeep. apply rxv_rcore. apply send_preserves_rx.
  - right. apply Hkeep. reflexivity.
Qed.

Fixpoint on_script_run (s : layer) (g : rghost) (ms : list micro) : Prop :=
  match ms with
  | [] => True
  | m :: rest => on_script g m /\ on_script_run (fst (mstep c s m)) (gR g m) rest
  end.

Fixpoint grunR (g : rghost) (ms : list micro) : rghost :=
  match ms with [] => g | m :: rest => grunR (gR g m) rest end.

Theorem RT_run : forall ms s cur S D,
  script_ok S -> RT s cur D -> Forall op_okR ms -> on_script_run s (cur, S, D) ms ->
  has_err (snd (mrun c s ms)) = true \/
  (let '(cur', S', D') := grunR (cur, S, D) ms in RT (fst (mrun c s ms)) cur' D' /\ script_ok S').
Proof.
  induction ms as [|m rest IH]; intros s cur S D HS HR Hops Hon; cbn [mrun grunR]; [right; split; assumption|].
  inversion Hops as [|? ? Hm Hrest]; subst. cbn [on_script_run] in Hon. destruct Hon as [Hon1 Hon2].
  pose proof (RT_step s cur S D m HS HR Hm Hon1) as Hs.
  destruct (mstep c s m) as [s1 e1]. cbn [fst snd] in *.
  destruct (gR (cur, S, D) m) as [[cur1 S1] D1] eqn:Eg.
  specialize (IH s1 cur1 S1 D1).
  destruct (mrun c s1 rest) as [s2 e2]. cbn [fst snd] in *.
  rewrite has_err_app.
  destruct Hs as [He|[HR1 HS1]]; [left; rewrite He; reflexivity|].
  destruct (IH HS1 HR1 Hrest Hon2) as [He|H2]; [left; rewrite He; apply orb_true_r|right; exact H2].
Qed.

End RT.
