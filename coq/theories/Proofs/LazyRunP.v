(** C17 laziness at run level.  Along any run of micro-steps from the initial state, the number of
    values pulled from the generator of the message being transmitted equals the number of payload
    bytes of that message that are already on the wire - counted by decoding the emitted frames
    themselves - plus the payload of the one frame the rate limiter is holding back, if any; the
    requests still waiting in the transmit queue have not been pulled from at all. *)
From IsoTp Require Import Base.Prelude Model.Micro Spec.ConfigSpec Spec.FrameSpec Spec.Segment
  Proofs.FramesP Proofs.Codec Proofs.Inv Proofs.NoCrash Proofs.TxP Proofs.SegP Proofs.DuplexP Proofs.PacingP Proofs.Events.

Section Lz.
Variable c : cfg.
Hypothesis Hok : params_ok (c_p c).

Let pfx := c_tx_prefix c.
Let plen := zlen pfx.
Let tx_dl := p_tx_dl (c_p c).

(** what a receiver reads in a frame of this sender *)
Definition dec (f : frame) : option pdu := option_map d_pdu (pdu_decode (f_data f) plen).

(** payload bytes of a Single / First Frame *)
Definition first_len (f : frame) : option Z :=
  match dec f with
  | Some (PSF _ _ d) | Some (PFF _ _ d) => Some (zlen d)
  | _ => None
  end.

(** payload bytes of the current message on the wire after one more frame: a Single or First Frame
    starts a message, a Consecutive Frame continues it, a Flow Control carries none *)
Definition gw (G : Z) (f : frame) : Z :=
  match dec f with
  | Some (PSF _ _ d) | Some (PFF _ _ d) => zlen d
  | Some (PCF _ d) => G + zlen d
  | _ => G
  end.

Definition tx_frames (evs : list event) : list frame :=
  flat_map (fun e => match e with ETx f => [f] | _ => [] end) evs.

Definition wire (G : Z) (evs : list event) : Z := fold_left gw (tx_frames evs) G.

Lemma gw_first G f n : first_len f = Some n -> gw G f = n.
Proof.
  unfold first_len, gw. destruct (dec f) as [[esc l d|esc l d|sn d|fs bs st]|]; intros H; try discriminate; injection H as <-; reflexivity.
Qed.

(** *** decoding the frames this sender builds *)

Lemma tx_dl_pos : 8 <= tx_dl <= 64.
Proof. apply tx_dl_bounds. exact Hok. Qed.

Lemma made_data id d m : 2 <= zlen d <= tx_dl -> make_tx_msg c id d = Some m ->
  f_data m = d ++ zrepeat (pad_byte (c_p c)) (pad_target (c_p c) (zlen d) - zlen d) /\
  zlen d <= pad_target (c_p c) (zlen d) <= tx_dl.
Proof.
  intros Hl Hm. rewrite (spec_frame_of_make c Hok id d Hl) in Hm. injection Hm as <-.
  apply (spec_frame_data c Hok id d Hl). intros. lia.
Qed.

Lemma made_full id d m : zlen d = tx_dl -> make_tx_msg c id d = Some m -> f_data m = d.
Proof.
  intros Hl Hm. pose proof tx_dl_pos. rewrite (spec_frame_of_make c Hok id d) in Hm by lia. injection Hm as <-.
  apply (spec_frame_full c Hok id d Hl).
Qed.

Lemma made_len id d m : 2 <= zlen d <= tx_dl -> make_tx_msg c id d = Some m -> zlen (f_data m) <= tx_dl.
Proof.
  intros Hl Hm. destruct (made_data id d m Hl Hm) as (E & H1 & H2). rewrite E, zlen_app, zlen_zrepeat. lia.
Qed.

Lemma dec_cf_full id sn payload m : 0 <= sn <= 15 -> zlen payload = tx_dl - 1 - plen ->
  make_tx_msg c id (pfx ++ [Z.lor 0x20 sn] ++ payload) = Some m -> dec m = Some (PCF sn payload).
Proof.
  intros Hsn Hl Hm. apply made_full in Hm.
  2: { rewrite !zlen_app, zlen_cons, zlen_nil. fold plen. lia. }
  unfold dec. rewrite Hm. rewrite lor_20 by lia. cbn [app].
  rewrite (decode_cf pfx sn payload plen) by (try reflexivity; lia). reflexivity.
Qed.

Lemma dec_ff_full id total payload m : 0 < total < 2 ^ 32 ->
  zlen payload = (if total <=? 0xFFF then tx_dl - 2 - plen else tx_dl - 6 - plen) -> zlen payload <= total ->
  make_tx_msg c id
    (pfx ++ (if total <=? 0xFFF then [Z.lor 0x10 (Z.land (Z.shiftr total 8) 0xF); Z.land total 0xFF]
             else [0x10; 0x00; Z.land (Z.shiftr total 24) 0xFF; Z.land (Z.shiftr total 16) 0xFF;
                   Z.land (Z.shiftr total 8) 0xFF; Z.land (Z.shiftr total 0) 0xFF]) ++ payload) = Some m ->
  first_len m = Some (zlen payload).
Proof.
  intros Ht Hl Hle Hm. rewrite (ff_header_code c total Ht) in Hm. pose proof (zlen_nonneg payload) as Hnn.
  change 0xFFF with 4095 in Hl. unfold ff_header in Hm.
  destruct (Z.leb_spec total 4095) as [Hs|Hs].
  - apply made_full in Hm.
    2: { rewrite !zlen_app, !zlen_cons, zlen_nil. fold plen. lia. }
    unfold first_len, dec. rewrite Hm. cbn [app].
    rewrite (decode_ff_short pfx total payload plen) by (try reflexivity; lia). cbn [option_map d_pdu].
    rewrite Z.min_r by lia. rewrite ztake_all by lia. reflexivity.
  - apply made_full in Hm.
    2: { rewrite !zlen_app, !zlen_cons, zlen_nil. fold plen. lia. }
    unfold first_len, dec. rewrite Hm. cbn [app].
    rewrite (decode_ff_long pfx total payload plen) by (try reflexivity; lia). cbn [option_map d_pdu].
    rewrite Z.min_r by lia. rewrite ztake_all by lia. reflexivity.
Qed.

Lemma dec_sf id (on_first : bool) payload m : 1 <= zlen payload ->
  (if on_first then zlen payload + plen <= 7 else plen + 2 + zlen payload <= tx_dl) ->
  make_tx_msg c id (pfx ++ (if on_first then [Z.lor 0 (zlen payload)] else [0; zlen payload]) ++ payload) = Some m ->
  first_len m = Some (zlen payload) /\ zlen (f_data m) <= tx_dl.
Proof.
  intros Hn Hfit Hm. pose proof tx_dl_pos as Hdl. pose proof (plen_bounds c : 0 <= plen <= 1) as Hp.
  assert (Hlen : 2 <= zlen (pfx ++ (if on_first then [Z.lor 0 (zlen payload)] else [0; zlen payload]) ++ payload) <= tx_dl).
  { rewrite !zlen_app. fold plen. destruct on_first; cbv iota in Hfit; rewrite ?zlen_cons, zlen_nil. all: lia. }
  split; [|exact (made_len _ _ _ Hlen Hm)].
  destruct (made_data _ _ _ Hlen Hm) as (E & _). unfold first_len, dec. rewrite E.
  destruct on_first.
  - rewrite Z.lor_0_l. rewrite <- !app_assoc. cbn [app].
    rewrite (decode_sf_short pfx (zlen payload) payload _ plen) by (try reflexivity; lia). reflexivity.
  - rewrite <- !app_assoc. cbn [app].
    rewrite (decode_sf_escape pfx (zlen payload) payload _ plen) by (try reflexivity; lia). reflexivity.
Qed.

Lemma dec_fc G st m : make_flow_control c st = Some m -> gw G m = G.
Proof.
  unfold make_flow_control. intros Hm. pose proof tx_dl_pos as Hdl. pose proof (plen_bounds c : 0 <= plen <= 1) as Hp.
  fold pfx in Hm.
  assert (Hlen : 2 <= zlen (pfx ++ craft_fc_data st (p_blocksize (c_p c)) (p_stmin (c_p c))) <= tx_dl).
  { rewrite zlen_app. unfold craft_fc_data. rewrite !zlen_cons, zlen_nil. fold plen. lia. }
  destruct (made_data _ _ _ Hlen Hm) as (E & _).
  unfold gw, dec. rewrite E. unfold craft_fc_data. rewrite <- app_assoc. cbn [app].
  unfold pdu_decode.
  destruct (_ <? plen); [reflexivity|].
  rewrite (zdrop_app_exact pfx _ plen) by reflexivity.
  assert (Hx : 0 <= Z.land st 0xF < 16).
  { change 0xF with (Z.ones 4). rewrite Z.land_ones by lia. apply Z.mod_pos_bound. lia. }
  assert (Hb : Z.lor 0x30 (Z.land st 0xF) = 3 * 16 + Z.land st 0xF).
  { change 0x30 with (3 * 2 ^ 4). apply lor_small; [lia|exact Hx]. }
  destruct (hnb_of _ 3 (Z.land st 0xF) Hb) as [H1 H2]; [lia|exact Hx|].
  rewrite H1. cbn [Z.ltb Z.eqb Z.compare Pos.compare Pos.compare_cont].
  destruct (_ <? 3); [reflexivity|]. destruct (3 <=? _); [reflexivity|]. destruct (stmin_valid _); reflexivity.
Qed.

(** *** the invariant *)

(** [L s G]: [G] payload bytes of the current message are on the wire *)
Definition Qok (r : request) : Prop := r_consumed r = 0 /\ r_size r < 2 ^ 32.

Definition Lact (s : layer) (G : Z) : Prop :=
  forall r, active s = Some r ->
    match tx_state s with
    | TxIdle => True
    | TxWaitFC | TxTransmitCF => r_consumed r = G
    | TxSFStandby | TxFFStandby =>
        exists m, tx_standby s = Some m /\ first_len m = Some (r_consumed r) /\ r_consumed r <= tx_dl - 1 - plen
    end.

Definition L (s : layer) (G : Z) : Prop := Forall Qok (tx_queue s) /\ Lact s G.

Definition cls (t : txst) : Z :=
  match t with TxIdle => 0 | TxWaitFC | TxTransmitCF => 1 | TxSFStandby => 2 | TxFFStandby => 3 end.

(** a step that pulls nothing and emits nothing *)
Definition Kz (s s' : layer) : Prop :=
  tx_queue s' = tx_queue s /\
  (active s' = None \/ (active s' = active s /\ tx_standby s' = tx_standby s /\ cls (tx_state s') = cls (tx_state s))).

Lemma Kz_refl s : Kz s s.
Proof. split; [reflexivity|right; auto]. Qed.

Lemma Kz_trans s1 s2 s3 : Kz s1 s2 -> Kz s2 s3 -> Kz s1 s3.
Proof.
  intros [Q1 H1] [Q2 H2]. split; [congruence|].
  destruct H2 as [H2|(A2 & B2 & C2)]; [left; exact H2|].
  destruct H1 as [H1|(A1 & B1 & C1)]; [left; congruence|]. right. repeat split; congruence.
Qed.

Lemma L_Kz s s' G : L s G -> Kz s s' -> L s' G.
Proof.
  intros [HQ HA] [Q [N|(A & B & C)]]; (split; [rewrite Q; exact HQ|]).
  - intros r Hr. congruence.
  - intros r Hr. rewrite A in Hr. specialize (HA r Hr). rewrite B.
    destruct (tx_state s), (tx_state s'); cbn in C; try discriminate; exact HA.
Qed.

Lemma Kz_same s s' : tx_queue s' = tx_queue s -> active s' = active s -> tx_standby s' = tx_standby s ->
  cls (tx_state s') = cls (tx_state s) -> Kz s s'.
Proof. intros. split; [assumption|right; auto]. Qed.

Lemma Kz_stop b s : Kz s (fst (stop_sending b s)).
Proof. split; [reflexivity|left; reflexivity]. Qed.

Lemma Kz_lim_inform p n s : Kz s (lim_inform p n s).
Proof.
  unfold lim_inform. destruct (negb (p_lim_enable p)); [apply Kz_refl|].
  destruct (lim_times s); [apply Kz_same; reflexivity|]. destruct (SLOT_NS <? _); apply Kz_same; reflexivity.
Qed.

Lemma Kz_tx_finish p s evs out imm : Kz s (tr_s (tx_finish p s evs out imm)).
Proof. unfold tx_finish. destruct out; cbn [tr_s mk_tr]; [apply Kz_lim_inform|apply Kz_refl]. Qed.

Lemma L_lim_inform p n s G : L s G -> L (lim_inform p n s) G.
Proof. intros H. exact (L_Kz _ _ _ H (Kz_lim_inform p n s)). Qed.

Lemma Kz_handle_fc s f : Kz s (fst (snd (handle_fc c s f))).
Proof.
  unfold handle_fc. destruct (fc_status f =? FS_OVFLW); [apply (Kz_stop false)|]. cbn [fst snd].
  destruct (tx_state s) eqn:Est; try apply Kz_refl;
    (unfold handle_fc_active; destruct (fc_status f =? FS_WAIT);
     [destruct (p_wftmax _ =? 0); [apply Kz_refl|]; destruct (timer_timed_out _ _); [apply Kz_refl|];
      destruct (p_wftmax _ <=? _); [apply (Kz_stop false)|];
      apply Kz_same; try reflexivity; cbn; rewrite Est; reflexivity
     |destruct (_ && _); [|apply Kz_refl]; cbn [fst];
      apply Kz_same; try reflexivity; cbn; rewrite Est; reflexivity]).
Qed.

Lemma Kz_tx_after_fc s :
  match tx_after_fc c s with inl r => Kz s (tr_s r) /\ tr_msg r = None | inr (s', _) => Kz s s' end.
Proof.
  unfold tx_after_fc. set (s0 := s <| last_fc := None |>).
  assert (H0 : Kz s s0) by (apply Kz_same; reflexivity).
  assert (Ha : forall b s1 e, (match last_fc s with None => (false, (s0, [])) | Some f => handle_fc c s0 f end) = (b, (s1, e)) -> Kz s s1).
  { intros b s1 e. destruct (last_fc s) as [f|].
    - intros E. pose proof (Kz_handle_fc s0 f) as H. rewrite E in H. exact (Kz_trans _ _ _ H0 H).
    - intros E; injection E as _ <- _. exact H0. }
  destruct (match last_fc s with None => (false, (s0, [])) | Some f => handle_fc c s0 f end) as [b [s1 evs1]] eqn:E.
  specialize (Ha b s1 evs1 eq_refl).
  destruct b; [split; [exact Ha|reflexivity]|].
  assert (Hto : Kz s (fst (if timer_timed_out (now s1) (timer_rx_fc s1)
                          then let '(s', e) := stop_sending false s1 in (s', EErr FlowControlTimeout :: e)
                          else (s1, [])))).
  { destruct (timer_timed_out _ _); [|exact Ha].
    pose proof (Kz_stop false s1) as Hss. destruct (stop_sending false s1) as [s' e']. exact (Kz_trans _ _ _ Ha Hss). }
  destruct (if timer_timed_out (now s1) (timer_rx_fc s1) then _ else _) as [s2 evs2]. cbn [fst] in Hto.
  destruct (tx_state s2) eqn:Est; [exact Hto|..];
    (destruct (active s2) as [r|]; [|split; [exact Hto|reflexivity]];
     destruct (r_is_depleted r && _); [|exact Hto];
     pose proof (Kz_stop true s2) as Hss; destruct (stop_sending true s2) as [s3 e3]; exact (Kz_trans _ _ _ Hto Hss)).
Qed.

(** *** pulling steps *)

Lemma consume_not_depleted n r payload r' :
  consume n false r = (Some payload, r') -> r_depleted r' = false -> n <= zlen payload.
Proof.
  unfold consume. destruct (gen_take n (r_gen r)) as [data g']. cbn.
  destruct (r_size r <? _); [discriminate|].
  destruct (zlen data <? n) eqn:E; intros H; injection H as <- <-; cbn; [discriminate|].
  intros _. apply Z.ltb_ge in E. exact E.
Qed.

Lemma start_request_L s r allowed s' evs out G :
  r_consumed r = 0 -> r_is_depleted r = false -> r_size r < 2 ^ 32 ->
  start_request c s r allowed = SRDone s' evs out ->
  tx_queue s' = tx_queue s /\ Lact s' (match out with Some m => gw G m | None => G end).
Proof.
  intros H0 Hnd Hsz. pose proof tx_dl_pos as Hdl. pose proof (plen_bounds c : 0 <= plen <= 1) as Hp.
  assert (Hpos : 0 < r_size r).
  { unfold r_is_depleted, r_remaining in Hnd. rewrite H0 in Hnd. apply orb_false_iff in Hnd. destruct Hnd as [Hnd _].
    apply Z.leb_gt in Hnd. lia. }
  assert (Hrem : r_remaining r = r_size r) by (unfold r_remaining; lia).
  assert (Hnone : forall (b : bool) (s0 : layer) G0, Lact (fst (stop_sending b s0)) G0) by (intros b s0 G0 r0 Hr0; discriminate).
  unfold start_request. fold pfx plen tx_dl.
  set (on_first := sf_on_first_byte c (r_remaining r)).
  assert (Hof : if on_first then r_size r + plen <= 7 else True).
  { subst on_first. unfold sf_on_first_byte. rewrite Hrem. fold pfx plen.
    destruct (r_size r + plen <=? 7) eqn:E7; cbn [andb]; [|exact I].
    destruct (negb _); [apply Z.leb_le in E7; exact E7|exact I]. }
  clearbody on_first.
  destruct (r_size r <=? tx_dl - (if on_first then 1 else 2) - plen) eqn:Esf.
  - apply Z.leb_le in Esf.
    destruct (consume (r_size r) true r) as [[payload|] r'] eqn:Ec.
    + assert (Hpl : zlen payload = r_size r) by (apply (consume_exact_len (r_size r) r payload r'); [lia|exact Ec]).
      destruct (consume_facts _ _ _ _ _ Ec) as (_ & _ & _ & _ & Hd). destruct (Hd payload eq_refl) as (Hc' & _).
      destruct (make_tx_msg c _ _) as [m|] eqn:Em; [|discriminate].
      destruct (allowed <? _).
      * intros E; injection E as <- _ <-. split; [reflexivity|]. intros r0 Hr0. cbn in Hr0. injection Hr0 as <-.
        cbn [tx_state set RecordSet.set]. exists m. split; [reflexivity|].
        apply dec_sf in Em; [|lia|].
        -- destruct Em as [E1 E2]. split; [rewrite E1; f_equal; lia|]. destruct on_first; lia.
        -- destruct on_first; lia.
      * unfold stop_sending; cbv beta iota. intros E; injection E as <- _ _. split; [reflexivity|]. intros r0 Hr0; discriminate.
    + unfold stop_sending; cbv beta iota. intros E; injection E as <- _ <-. split; [reflexivity|]. intros r0 Hr0; discriminate.
  - apply Z.leb_gt in Esf.
    set (dl := if r_size r <=? 0xFFF then tx_dl - 2 - plen else tx_dl - 6 - plen).
    assert (Hdlpos : 0 <= dl) by (subst dl; destruct (r_size r <=? 0xFFF); lia).
    destruct (consume dl true r) as [[payload|] r'] eqn:Ec.
    + assert (Hpl : zlen payload = dl) by (apply (consume_exact_len dl r payload r'); [exact Hdlpos|exact Ec]).
      destruct (consume_facts _ _ _ _ _ Ec) as (_ & _ & _ & _ & Hd). destruct (Hd payload eq_refl) as (Hc' & Hle' & _).
      destruct (make_tx_msg c _ _) as [m|] eqn:Em; [|discriminate].
      assert (Hfl : first_len m = Some (zlen payload)).
      { apply (dec_ff_full (c_tx_id c Physical) (r_size r) payload m); [lia|exact Hpl| |exact Em].
        destruct (consume_facts _ _ _ _ _ Ec) as (_ & Hs' & _). lia. }
      assert (Hml : zlen (f_data m) <= tx_dl).
      { apply made_len in Em; [exact Em|]. rewrite !zlen_app. fold plen. rewrite Hpl. subst dl.
        destruct (r_size r <=? 0xFFF); rewrite !zlen_cons, zlen_nil; lia. }
      destruct (_ <=? allowed).
      * intros E; injection E as <- _ <-. split; [reflexivity|]. intros r0 Hr0. cbn in Hr0. injection Hr0 as <-.
        cbn [tx_state start_rx_fc_timer set RecordSet.set]. rewrite (gw_first G m _ Hfl). lia.
      * intros E; injection E as <- _ <-. split; [reflexivity|]. intros r0 Hr0. cbn in Hr0. injection Hr0 as <-.
        cbn [tx_state set RecordSet.set]. exists m. split; [reflexivity|]. split; [rewrite Hfl; f_equal; lia|].
        subst dl. destruct (r_size r <=? 0xFFF); lia.
    + unfold stop_sending; cbv beta iota. intros E; injection E as <- _ <-. split; [reflexivity|]. intros r0 Hr0; discriminate.
Qed.

Lemma idle_dequeue_L q : forall s evs allowed s' evs' out G,
  Forall Qok q -> tx_state s = TxIdle ->
  idle_dequeue c q s evs allowed = SRDone s' evs' out ->
  L s' (match out with Some m => gw G m | None => G end).
Proof.
  induction q as [|r rest IH]; intros s evs allowed s' evs' out G Hq Hst; cbn [idle_dequeue].
  - intros E; injection E as <- _ <-. split; [constructor|]. intros r0 Hr0. cbn [tx_state set RecordSet.set]. rewrite Hst. exact I.
  - inversion Hq as [|? ? [Hr0 Hr1] Hrest]; subst.
    destruct (r_is_depleted r) eqn:Ed.
    + intros E. apply (IH _ _ _ _ _ _ G Hrest) in E; [exact E|exact Hst].
    + destruct (start_request c _ r allowed) as [site|s1 e1 o1] eqn:Es; [discriminate|].
      intros E; injection E as <- _ <-.
      destruct (start_request_L _ r allowed s1 e1 o1 G Hr0 Ed Hr1 Es) as [Hq' Ha].
      split; [rewrite Hq'; exact Hrest|exact Ha].
Qed.

Lemma tx_finish_msg p s evs out imm : tr_msg (tx_finish p s evs out imm) = out.
Proof. unfold tx_finish. destruct out; reflexivity. Qed.

Lemma L_finish p s evs out imm G : L s G -> L (tr_s (tx_finish p s evs out imm)) G.
Proof. intros H. exact (L_Kz _ _ _ H (Kz_tx_finish p s evs out imm)). Qed.

Lemma tx_cf_L a s evs G : WF c s -> L s G -> tx_state s = TxTransmitCF ->
  L (tr_s (tx_cf c a s evs)) (match tr_msg (tx_cf c a s evs) with Some m => gw G m | None => G end).
Proof.
  intros Hwf HL Hst. pose proof HL as [HQ HA]. pose proof tx_dl_pos as Hdl. pose proof (plen_bounds c : 0 <= plen <= 1) as Hp.
  pose proof (wf_seq c s Hwf) as Hseq.
  unfold tx_cf.
  destruct (remote_bs s) as [rbs|]; [|cbn [tr_s tr_msg mk_crash]; exact HL].
  destruct (active s) as [r|] eqn:Eact; [|cbn [tr_s tr_msg mk_crash]; exact HL].
  specialize (HA r Eact). rewrite Hst in HA.
  destruct (timer_timed_out _ _); [|rewrite tx_finish_msg; apply L_finish; exact HL].
  fold pfx plen tx_dl.
  set (n := Z.min (tx_dl - 1 - plen) (r_remaining r)).
  destruct (n <=? a); [|rewrite tx_finish_msg; apply L_finish; exact HL].
  destruct (consume n false r) as [[payload|] r'] eqn:Ec; [|cbn [tr_s tr_msg mk_crash]; exact HL].
  destruct (consume_facts _ _ _ _ _ Ec) as (_ & Hsz & _ & _ & Hd). destruct (Hd payload eq_refl) as (Hc' & Hle' & Hmax & _).
  pose proof (zlen_nonneg payload) as Hnn.
  destruct (Z.ltb_spec 0 (zlen payload)) as [Hpos|Hzero].
  - assert (Hlen : 2 <= zlen (pfx ++ [Z.lor 0x20 (tx_seqnum (s <| active := Some r' |>))] ++ payload) <= tx_dl).
    { rewrite !zlen_app, zlen_cons, zlen_nil. fold plen. subst n. lia. }
    destruct (make_tx_msg c _ _) as [mm|] eqn:Em; [|exfalso; exact (make_tx_msg_some c _ _ Hok Hlen Em)].
    destruct (r_is_depleted r') eqn:Edep.
    + destruct (0 <? r_remaining r'); unfold stop_sending; cbv beta iota; rewrite tx_finish_msg; apply L_finish;
        (split; [exact HQ|intros r0 Hr0; discriminate]).
    + assert (Hfull : zlen payload = tx_dl - 1 - plen /\ r_consumed r' = G + zlen payload).
      { unfold r_is_depleted in Edep. apply orb_false_iff in Edep. destruct Edep as [Erem Edp].
        apply Z.leb_gt in Erem. pose proof (consume_not_depleted _ _ _ _ Ec Edp) as Hge.
        unfold r_remaining in *. subst n. lia. }
      destruct Hfull as [Hfull Hcons].
      assert (Hgw : gw G mm = r_consumed r').
      { cbn [tx_seqnum set RecordSet.set] in Em. apply (dec_cf_full _ (tx_seqnum s) payload mm Hseq Hfull) in Em.
        unfold gw. rewrite Em. lia. }
      destruct (negb (rbs =? 0) && _); rewrite tx_finish_msg; apply L_finish; (split; [exact HQ|]);
        intros r0 Hr0; cbn in Hr0; injection Hr0 as <-; cbn [tx_state start_rx_fc_timer set RecordSet.set]; rewrite ?Hst; symmetry; exact Hgw.
  - assert (Hcons : r_consumed r' = G) by lia.
    destruct (r_is_depleted r').
    + destruct (0 <? r_remaining r'); unfold stop_sending; cbv beta iota; rewrite tx_finish_msg; apply L_finish;
        (split; [exact HQ|intros r0 Hr0; discriminate]).
    + destruct (negb (rbs =? 0) && _); rewrite tx_finish_msg; apply L_finish; (split; [exact HQ|]);
        intros r0 Hr0; cbn in Hr0; injection Hr0 as <-; cbn [tx_state start_rx_fc_timer set RecordSet.set]; rewrite ?Hst; exact Hcons.
Qed.

Lemma tx_fsm_L a s evs G : WF c s -> L s G ->
  L (tr_s (tx_fsm c a s evs)) (match tr_msg (tx_fsm c a s evs) with Some m => gw G m | None => G end).
Proof.
  intros Hwf HL. pose proof HL as [HQ HA]. unfold tx_fsm.
  destruct (tx_state s) eqn:Est.
  - destruct (idle_dequeue c (tx_queue s) s [] a) as [site|s4 e4 out] eqn:Ed; [cbn [tr_s tr_msg mk_crash]; exact HL|].
    apply (idle_dequeue_L _ _ _ _ _ _ _ G HQ Est) in Ed. rewrite tx_finish_msg. apply L_finish. exact Ed.
  - rewrite tx_finish_msg. apply L_finish. exact HL.
  - apply tx_cf_L; assumption.
  - destruct (tx_standby s) as [m|] eqn:Esb; [|rewrite tx_finish_msg; apply L_finish; exact HL].
    destruct (_ <=? a); [|rewrite tx_finish_msg; apply L_finish; exact HL].
    unfold stop_sending; cbv beta iota. rewrite tx_finish_msg. apply L_finish. split; [exact HQ|intros r0 Hr0; discriminate].
  - destruct (tx_standby s) as [m|] eqn:Esb; [|rewrite tx_finish_msg; apply L_finish; exact HL].
    destruct (_ <=? a); [|rewrite tx_finish_msg; apply L_finish; exact HL].
    rewrite tx_finish_msg. apply L_finish. split; [exact HQ|].
    intros r0 Hr0. cbn in Hr0. cbn [tx_state start_rx_fc_timer set RecordSet.set].
    specialize (HA r0 Hr0). rewrite Est in HA. destruct HA as (m' & Hm' & Hfl & _). rewrite Esb in Hm'. injection Hm' as <-.
    rewrite (gw_first G m _ Hfl). reflexivity.
Qed.

Lemma fc_only_L s G : tx_input c s = None -> L s G ->
  L (tr_s (process_tx c s)) (match tr_msg (process_tx c s) with Some m => gw G m | None => G end).
Proof.
  unfold tx_input, process_tx. destruct (pending_fc s); [|discriminate].
  cbv zeta. destruct (negb (p_listen (c_p c))); [|discriminate]. intros _ HL.
  destruct (opt_eqb _ _); (destruct (pending_fc_status _) as [st|]; [destruct (make_flow_control c st) as [m|] eqn:Em|]);
    cbn [tr_s tr_msg mk_tr mk_crash]; rewrite ?(dec_fc G st m Em); (apply (L_Kz s); [exact HL|apply Kz_same; reflexivity]).
Qed.

Lemma Kz_tx_input s s1 : tx_input c s = Some s1 -> Kz s s1.
Proof.
  unfold tx_input. destruct (pending_fc s); [|intros E; injection E as <-; apply Kz_refl].
  cbv zeta. destruct (negb (p_listen (c_p c))); [discriminate|].
  intros E; injection E as <-. destruct (opt_eqb _ _); apply Kz_same; reflexivity.
Qed.

Lemma WF_tx_input s s1 : WF c s -> tx_input c s = Some s1 -> WF c s1.
Proof.
  intros Hwf. unfold tx_input. destruct (pending_fc s) eqn:Ep; [|intros E; injection E as <-; exact Hwf].
  cbv zeta. destruct (negb (p_listen (c_p c))); [discriminate|].
  intros E; injection E as <-. apply WF_tx_pending; assumption.
Qed.

(** one transmit pass *)
Theorem tx_pass_L s G : WF c s -> L s G ->
  L (tr_s (process_tx c s)) (match tr_msg (process_tx c s) with Some m => gw G m | None => G end).
Proof.
  intros Hwf HL. pose proof (process_tx_by_input c s) as Hp. pose proof (Kz_tx_input s) as Hi. pose proof (WF_tx_input s) as Hw.
  destruct (tx_input c s) as [s1|] eqn:Ei; [|apply fc_only_L; assumption].
  rewrite Hp. unfold process_tx_main. specialize (Hi s1 eq_refl). specialize (Hw s1 Hwf eq_refl).
  pose proof (Kz_tx_after_fc s1) as Hf. pose proof (WF_tx_after_fc c s1 Hw) as Hwf3.
  destruct (tx_after_fc c s1) as [r|[s3 evs]].
  - destruct Hf as [Hk Hn]. rewrite Hn. exact (L_Kz _ _ _ HL (Kz_trans _ _ _ Hi Hk)).
  - apply tx_fsm_L; [exact (proj1 Hwf3)|]. exact (L_Kz _ _ _ HL (Kz_trans _ _ _ Hi Hf)).
Qed.

(** *** whole runs *)

Definition gstep (s : layer) (G : Z) (m : micro) : Z :=
  match m with
  | MTx => match tr_msg (process_tx c s) with Some f => gw G f | None => G end
  | _ => G
  end.

Lemma txv_Kz s s' : txv s' = txv s -> Kz s s'.
Proof.
  unfold txv. intros E.
  pose proof (f_equal (fun '(_, st, q, a, sb, _, _, _, _, _, _, _, _, _, _, _) => (st, q, a, sb)) E) as E'.
  cbv beta iota in E'. injection E' as E1 E2 E3 E4. apply Kz_same; congruence.
Qed.

Lemma L_step s G m : WF c s -> L s G -> L (fst (mstep c s m)) (gstep s G m).
Proof.
  intros Hwf HL.
  assert (Hkeep : forall s', Kz s s' -> L s' G) by (intros s' HK; exact (L_Kz _ _ _ HL HK)).
  destruct m; cbn [gstep mstep fst].
  - apply Hkeep, txv_Kz, check_timeouts_preserves_tx.
  - apply Hkeep.
    destruct (pdu_decode (f_data f) (c_rx_prefix_size c)) as [d|] eqn:Ed.
    + destruct (d_pdu d) as [esc l data|l len data|sn data|fs bs st] eqn:Ep.
      4: { rewrite (rx_fc_only_mailbox c s f d fs bs st Ed Ep). cbn [rr_s mk_rr]. apply Kz_same; reflexivity. }
      all: apply txv_Kz, rx_data_preserves_tx; intros d' fs' bs' st' Hd'; rewrite Ed in Hd'; injection Hd' as <-; rewrite Ep; discriminate.
    + apply txv_Kz, rx_data_preserves_tx. intros d' fs' bs' st' Hd'. rewrite Ed in Hd'. discriminate.
  - apply Hkeep. unfold lim_update. destruct (negb _); [apply Kz_same; reflexivity|].
    destruct (lim_pop _ _ _ _ _) as [[ts bs] tot]. apply Kz_same; reflexivity.
  - apply tx_pass_L; assumption.
  - destruct HL as [HQ HA]. unfold send. destruct (size <? 0); [split; assumption|].
    destruct (Z.ltb_spec 0xFFFFFFFF size); [split; assumption|].
    destruct (match match t with Some x => x | None => _ end with Functional => _ | Physical => _ end); [split; assumption|].
    cbn [fst]. split.
    + cbn [tx_queue set RecordSet.set]. apply Forall_app. split; [exact HQ|]. constructor; [|constructor].
      split; cbn; [reflexivity|lia].
    + exact HA.
  - apply Hkeep. unfold recv. destruct (rx_queue s); [apply Kz_refl|apply Kz_same; reflexivity].
  - apply Hkeep. apply Kz_stop.
  - apply Hkeep. apply Kz_same; reflexivity.
  - unfold reset, stop_sending; cbv beta iota. cbn [fst]. split; [constructor|intros r0 Hr0; discriminate].
  - apply Hkeep. apply Kz_same; reflexivity.
Qed.

Fixpoint grun (s : layer) (G : Z) (ms : list micro) : layer * Z :=
  match ms with
  | [] => (s, G)
  | m :: rest => grun (fst (mstep c s m)) (gstep s G m) rest
  end.

Theorem L_run : forall ms s G, WF c s -> L s G -> L (fst (grun s G ms)) (snd (grun s G ms)).
Proof.
  induction ms as [|m rest IH]; intros s G Hwf HL; cbn [grun]; [exact HL|].
  apply IH; [apply WF_mstep; exact Hwf|apply L_step; assumption].
Qed.

(** the ghost is what the emitted frames say *)
Lemma tx_frames_app a b : tx_frames (a ++ b) = tx_frames a ++ tx_frames b.
Proof. unfold tx_frames. apply flat_map_app. Qed.

Lemma wire_app G a b : wire G (a ++ b) = wire (wire G a) b.
Proof. unfold wire. rewrite tx_frames_app. apply fold_left_app. Qed.

Lemma tx_frames_none (f : event -> bool) evs :
  (forall x, f (ETx x) = false) -> forallb f evs = true -> tx_frames evs = [].
Proof.
  intros Hf. induction evs as [|e rest IH]; [reflexivity|].
  cbn [forallb]. intros H. apply andb_true_iff in H. destruct H as [He Hr].
  unfold tx_frames. cbn [flat_map]. fold (tx_frames rest). rewrite (IH Hr).
  destruct e; try reflexivity. rewrite Hf in He. discriminate.
Qed.

Lemma step_wire s G m : WF c s -> wire G (snd (mstep c s m)) = gstep s G m.
Proof.
  intros Hwf. destruct m; cbn [gstep mstep snd]; try reflexivity.
  - destruct (check_timeouts_evs s) as [E|E]; rewrite E; reflexivity.
  - unfold wire. rewrite (tx_frames_none rx_ev_ok); [reflexivity|reflexivity|apply process_rx_evs].
  - pose proof (process_tx_nocrash c s Hok Hwf) as Hc. unfold tx_events. rewrite Hc.
    rewrite wire_app. unfold wire at 2. rewrite (tx_frames_none tx_ev_ok); [|reflexivity|apply process_tx_evs; exact Hc].
    cbn [fold_left]. destruct (tr_msg (process_tx c s)); reflexivity.
  - unfold wire. rewrite (tx_frames_none done_only); [reflexivity|reflexivity|apply stop_sending_done].
  - unfold wire. rewrite (tx_frames_none done_only); [reflexivity|reflexivity|].
    unfold reset, stop_sending; cbv beta iota. cbn [snd]. apply forallb_app'.
    + induction (tx_queue s) as [|r rest IH]; [reflexivity|exact IH].
    + destruct (active _); reflexivity.
Qed.

Lemma grun_mrun : forall ms s G, WF c s ->
  grun s G ms = (fst (mrun c s ms), wire G (snd (mrun c s ms))).
Proof.
  induction ms as [|m rest IH]; intros s G Hwf; cbn [grun mrun]; [reflexivity|].
  pose proof (step_wire s G m Hwf) as Hs. pose proof (WF_mstep c s m Hwf) as Hw.
  destruct (mstep c s m) as [s1 e1]. cbn [fst snd] in *.
  rewrite (IH s1 (gstep s G m) Hw). destruct (mrun c s1 rest) as [s2 e2]. cbn [fst snd].
  rewrite wire_app, Hs. reflexivity.
Qed.

(** *** the statement *)

(** values pulled so far from the generator of the message in transmission *)
Definition pulled (s : layer) : Z := match active s with Some r => r_consumed r | None => 0 end.

(** payload of the frame the rate limiter holds back *)
Definition held (s : layer) : Z :=
  match tx_standby s with
  | Some m => match first_len m with Some n => n | None => 0 end
  | None => 0
  end.

(** payload bytes of the message in transmission that are on the wire *)
Definition on_wire (s : layer) (G : Z) : Z :=
  match tx_state s with TxWaitFC | TxTransmitCF => G | _ => 0 end.

Theorem lazy_state s G : WF c s -> L s G ->
  pulled s = on_wire s G + held s /\ 0 <= held s <= tx_dl - 1 - plen /\
  Forall (fun r => r_consumed r = 0) (tx_queue s).
Proof.
  intros Hwf [HQ HA]. pose proof tx_dl_pos as Hdl. pose proof (plen_bounds c : 0 <= plen <= 1) as Hp.
  assert (HQ0 : Forall (fun r => r_consumed r = 0) (tx_queue s)).
  { revert HQ. apply Forall_impl. intros r [H _]. exact H. }
  unfold pulled, on_wire, held.
  destruct (tx_state s) eqn:Est.
  - rewrite (proj1 (wf_active c s Hwf) Est).
    rewrite (WF_no_standby c s Hwf) by (rewrite Est; discriminate). repeat split; try lia. exact HQ0.
  - rewrite (WF_no_standby c s Hwf) by (rewrite Est; discriminate).
    destruct (active s) as [r|] eqn:Ea.
    + specialize (HA r Ea). rewrite Est in HA. repeat split; try lia. exact HQ0.
    + apply (wf_active c s Hwf) in Ea. congruence.
  - rewrite (WF_no_standby c s Hwf) by (rewrite Est; discriminate).
    destruct (active s) as [r|] eqn:Ea.
    + specialize (HA r Ea). rewrite Est in HA. repeat split; try lia. exact HQ0.
    + apply (wf_active c s Hwf) in Ea. congruence.
  - destruct (active s) as [r|] eqn:Ea.
    + specialize (HA r Ea). rewrite Est in HA. destruct HA as (m & Hm & Hfl & Hb). rewrite Hm, Hfl.
      pose proof (wf_req c s Hwf r Ea). repeat split; try lia. exact HQ0.
    + apply (wf_active c s Hwf) in Ea. congruence.
  - destruct (active s) as [r|] eqn:Ea.
    + specialize (HA r Ea). rewrite Est in HA. destruct HA as (m & Hm & Hfl & Hb). rewrite Hm, Hfl.
      pose proof (wf_req c s Hwf r Ea). repeat split; try lia. exact HQ0.
    + apply (wf_active c s Hwf) in Ea. congruence.
Qed.

Lemma L_init t0 : L (init_layer c t0) 0.
Proof. split; [constructor|intros r Hr; discriminate]. Qed.

(** Along every run from the initial state: the values pulled from the generator of the message in
    transmission are exactly the payload bytes of that message already on the wire (decoded from the
    emitted frames) plus the one frame held back by the rate limiter, which is at most one
    Consecutive Frame's worth; nothing was pulled from the generators of queued messages. *)
Theorem lazy_run t0 ms :
  let s := fst (mrun c (init_layer c t0) ms) in
  let G := wire 0 (snd (mrun c (init_layer c t0) ms)) in
  pulled s = on_wire s G + held s /\ 0 <= held s <= tx_dl - 1 - plen /\
  Forall (fun r => r_consumed r = 0) (tx_queue s).
Proof.
  cbv zeta. pose proof (WF_init c t0) as Hw0.
  pose proof (L_run ms _ 0 Hw0 (L_init t0)) as HL. rewrite (grun_mrun ms _ 0 Hw0) in HL. cbn [fst snd] in HL.
  apply lazy_state; [apply WF_mrun; exact Hw0|exact HL].
Qed.

End Lz.
