(** C16: Params.validate accepts exactly the documented configurations, and every accepted
    configuration satisfies the hypotheses of the crash-freedom theorem. *)
From Coq Require Import QArith.
From IsoTp Require Import Base.Prelude Model.Params Spec.ConfigSpec.
Open Scope Z_scope.

(** The documented validity of each parameter (doc/source/isotp/implementation.rst, Parameters). *)
Definition an_int (v : pv) (P : Z -> Prop) : Prop := is_int v = true /\ P (int_val v).
Definition a_bool (v : pv) : Prop := exists b, v = PBool b.

Record params_doc_ok (p : pparams) : Prop := {
  d_tbs : an_int (q_tbs p) (fun z => 0 <= z);
  d_tcr : an_int (q_tcr p) (fun z => 0 <= z);
  d_padding : q_padding p = PNone \/ an_int (q_padding p) (fun z => 0 <= z <= 255);
  d_stmin : an_int (q_stmin p) (fun z => 0 <= z <= 255);
  d_blocksize : an_int (q_blocksize p) (fun z => 0 <= z <= 255);
  d_override : q_override p = PNone \/ (exists z, q_override p = PInt z /\ 0 <= z) \/
               (exists q, q_override p = PFloat q /\ (0 <= q)%Q);
  d_wftmax : an_int (q_wftmax p) (fun z => 0 <= z);
  d_tx_dl : an_int (q_tx_dl p) (fun z => In z LL_SIZES);
  d_min_len : q_min_len p = PNone \/ an_int (q_min_len p) (fun z => In z MIN_LENS /\ z <= int_val (q_tx_dl p));
  d_max : an_int (q_max_frame_size p) (fun z => 0 <= z);
  d_can_fd : a_bool (q_can_fd p); d_brs : a_bool (q_brs p);
  d_tat : an_int (q_tat p) (fun z => z = 0 \/ z = 1);
  d_bitrate : an_int (q_bitrate p) (fun z => 0 < z);
  d_window : (exists q, q_window p = PFloat q /\ (0 < q)%Q /\
                        (inject_Z (int_val (q_tx_dl p) * 8) <= inject_Z (int_val (q_bitrate p)) * q)%Q) \/
             (an_int (q_window p) (fun z => 0 < z /\ int_val (q_tx_dl p) * 8 <= int_val (q_bitrate p) * z));
  d_enable : a_bool (q_lim_enable p); d_listen : a_bool (q_listen p); d_blocking : a_bool (q_blocking p) }.

Lemma in_range_iff v lo hi : in_range v lo hi = true <-> an_int v (fun z => lo <= z <= hi).
Proof. unfold in_range, an_int. rewrite !andb_true_iff, !Z.leb_le. tauto. Qed.
Lemma int_ge_iff v lo : int_ge v lo = true <-> an_int v (fun z => lo <= z).
Proof. unfold int_ge, an_int. rewrite andb_true_iff, Z.leb_le. tauto. Qed.
Lemma is_bool_iff v : is_bool v = true <-> a_bool v.
Proof. unfold a_bool. destruct v; cbn; split; intros H; try discriminate; eauto; destruct H; discriminate. Qed.
Lemma zmem_LLS z : zmem z LLS = true <-> In z LL_SIZES.
Proof. apply zmem_true_iff. Qed.
Lemma zmem_MLS z : zmem z MLS = true <-> In z MIN_LENS.
Proof. apply zmem_true_iff. Qed.

Lemma padding_iff v : padding_ok v = true <->
  (v = PNone \/ an_int v (fun z => 0 <= z <= 255)).
Proof.
  unfold padding_ok. destruct v; try (rewrite in_range_iff; split; [intros H; right; exact H|intros [H|H]; [discriminate H|exact H]]).
  split; [intros _; left; reflexivity|reflexivity].
Qed.

Lemma override_iff v :
  override_ok v = true <->
  (v = PNone \/ (exists z, v = PInt z /\ 0 <= z) \/ (exists q, v = PFloat q /\ (0 <= q)%Q)).
Proof.
  unfold override_ok. destruct v; split; intros H; try discriminate; auto.
  - right; left. eexists; split; [reflexivity|apply Z.leb_le; exact H].
  - destruct H as [H|[(z0 & E & Hz)|(q & E & _)]]; try discriminate. injection E as <-. apply Z.leb_le; exact Hz.
  - destruct H as [H|[(z0 & E & _)|(q & E & _)]]; discriminate.
  - right; right. eexists; split; [reflexivity|apply Qle_bool_iff; exact H].
  - destruct H as [H|[(z0 & E & _)|(q0 & E & Hq)]]; try discriminate. injection E as <-. apply Qle_bool_iff; exact Hq.
  - destruct H as [H|[(z0 & E & _)|(q & E & _)]]; discriminate.
  - destruct H as [H|[(z0 & E & _)|(q & E & _)]]; discriminate.
  - destruct H as [H|[(z0 & E & _)|(q & E & _)]]; discriminate.
Qed.

Lemma minlen_iff v dl :
  minlen_ok v dl = true <->
  (v = PNone \/ an_int v (fun z => In z MIN_LENS /\ z <= dl)).
Proof.
  assert (G : forall w, is_int w && zmem (int_val w) MLS && (int_val w <=? dl) = true <-> an_int w (fun z => In z MIN_LENS /\ z <= dl)).
  { intros w. rewrite !andb_true_iff, zmem_MLS, Z.leb_le. unfold an_int. tauto. }
  unfold minlen_ok. destruct v; try (rewrite G; split; [intros H; right; exact H|intros [H|H]; [discriminate H|exact H]]).
  split; [intros _; left; reflexivity|reflexivity].
Qed.

Lemma tat_iff v : is_int v && ((int_val v =? 0) || (int_val v =? 1)) = true <-> an_int v (fun z => z = 0 \/ z = 1).
Proof. rewrite andb_true_iff, orb_true_iff, !Z.eqb_eq. unfold an_int. tauto. Qed.

Lemma bitrate_iff v : is_int v && (0 <? int_val v) = true <-> an_int v (fun z => 0 < z).
Proof. rewrite andb_true_iff, Z.ltb_lt. unfold an_int. tauto. Qed.

Lemma txdl_iff v : is_int v && zmem (int_val v) LLS = true <-> an_int v (fun z => In z LL_SIZES).
Proof. rewrite andb_true_iff, zmem_LLS. unfold an_int. tauto. Qed.

Lemma window_iff v dl br :
  window_ok v dl br = true <->
  ((exists q, v = PFloat q /\ (0 < q)%Q /\ (inject_Z (dl * 8) <= inject_Z br * q)%Q) \/
   an_int v (fun z => 0 < z /\ dl * 8 <= br * z)).
Proof.
  unfold window_ok. destruct v; split; intros H; try discriminate.
  - destruct H as [(q & E & _)|[E _]]; discriminate.
  - right. rewrite andb_true_iff, Z.ltb_lt, Z.leb_le in H. split; [reflexivity|exact H].
  - destruct H as [(q & E & _)|[_ H]]; [discriminate|]. rewrite andb_true_iff, Z.ltb_lt, Z.leb_le. exact H.
  - right. rewrite andb_true_iff, Z.ltb_lt, Z.leb_le in H. split; [reflexivity|exact H].
  - destruct H as [(q & E & _)|[_ H]]; [discriminate|]. rewrite andb_true_iff, Z.ltb_lt, Z.leb_le. exact H.
  - left. exists q. rewrite andb_true_iff in H. destruct H as [H1 H2]. split; [reflexivity|]. split; [|apply Qle_bool_iff; exact H2].
    apply negb_true_iff in H1. apply Qnot_le_lt. intros Hc. apply Qle_bool_iff in Hc. congruence.
  - destruct H as [(q0 & E & Hq1 & Hq2)|[E _]]; [|discriminate]. injection E as <-.
    rewrite andb_true_iff. split; [|apply Qle_bool_iff; exact Hq2].
    apply negb_true_iff. destruct (Qle_bool q 0) eqn:Eq; [|reflexivity].
    apply Qle_bool_iff in Eq. exfalso. apply (Qlt_not_le _ _ Hq1 Eq).
  - destruct H as [(q & E & _)|[E _]]; discriminate.
  - destruct H as [(q & E & _)|[E _]]; discriminate.
  - destruct H as [(q & E & _)|[E _]]; discriminate.
Qed.

Theorem validate_iff p : validate p = true <-> params_doc_ok p.
Proof.
  unfold validate.
  rewrite !andb_true_iff, !int_ge_iff, !in_range_iff, !is_bool_iff.
  rewrite padding_iff, override_iff, minlen_iff, window_iff.
  rewrite <- !andb_true_iff. rewrite tat_iff, bitrate_iff, txdl_iff.
  split.
  - intros H. decompose [and] H. constructor; assumption.
  - intros []. tauto.
Qed.

(** The model-level parameters of an accepted configuration. The nanosecond timer values
    [tbs tcr ov] (FloatTables.v) and the rational budget [bn/bd], window [wns] are supplied by
    the conversion; only their signs and the validated budget inequality matter. *)
Definition opt_int (v : pv) : option Z := match v with PNone => None | _ => Some (int_val v) end.
Definition bool_val (v : pv) : bool := match v with PBool b => b | _ => false end.

Definition to_params (p : pparams) (tbs tcr : Z) (ov : option Z) (bn bd wns : Z) : params :=
  {| p_stmin := int_val (q_stmin p); p_blocksize := int_val (q_blocksize p); p_override_stmin_ns := ov;
     p_tbs_ns := tbs; p_tcr_ns := tcr; p_tx_padding := opt_int (q_padding p); p_wftmax := int_val (q_wftmax p);
     p_tx_dl := int_val (q_tx_dl p); p_tx_min_len := opt_int (q_min_len p);
     p_max_frame_size := int_val (q_max_frame_size p); p_can_fd := bool_val (q_can_fd p); p_brs := bool_val (q_brs p);
     p_default_tat := if int_val (q_tat p) =? 1 then Functional else Physical;
     p_lim_enable := bool_val (q_lim_enable p); p_lim_bn := bn; p_lim_bd := bd; p_lim_window_ns := wns;
     p_listen := bool_val (q_listen p) |}.

Theorem accepted_params_ok p tbs tcr ov bn bd wns :
  validate p = true -> 0 <= tbs -> 0 <= tcr -> (forall o, ov = Some o -> 0 <= o) ->
  0 < bd -> 8 * int_val (q_tx_dl p) * bd <= bn -> 0 <= wns ->
  params_ok (to_params p tbs tcr ov bn bd wns).
Proof.
  intros Hv Ht1 Ht2 Hov Hbd Hbn Hw. apply validate_iff in Hv.
  destruct Hv as [_ _ Hpad Hst Hbs _ Hwft Hdl Hml Hmax _ _ _ _ _ _ _ _].
  unfold params_ok, to_params.
  cbn [p_tx_dl p_tx_min_len p_tx_padding p_stmin p_blocksize p_wftmax p_max_frame_size p_tbs_ns p_tcr_ns
       p_override_stmin_ns p_lim_bd p_lim_bn p_lim_window_ns].
  split; [apply Hdl|].
  split.
  { intros m Em. destruct Hml as [E|[_ [H1 H2]]]; [rewrite E in Em; discriminate|].
    unfold opt_int in Em. destruct (q_min_len p); try discriminate; injection Em as <-; split; assumption. }
  split.
  { intros b Eb. destruct Hpad as [E|[_ H1]]; [rewrite E in Eb; discriminate|].
    unfold opt_int in Eb. destruct (q_padding p); try discriminate; injection Eb as <-; apply H1. }
  split; [apply Hst|]. split; [apply Hbs|]. split; [apply Hwft|]. split; [apply Hmax|].
  split; [exact Ht1|]. split; [exact Ht2|]. split; [exact Hov|]. split; [exact Hbd|]. split; [exact Hbn|exact Hw].
Qed.

(** The validated rate-limit inequality gives the budget hypothesis for the exact rational
    product bitrate x window = bn / bd. *)
Lemma budget_from_validation dl br (q : Q) :
  (inject_Z (dl * 8) <= inject_Z br * q)%Q ->
  8 * dl * Zpos (Qden (inject_Z br * q)) <= Qnum (inject_Z br * q).
Proof.
  unfold Qle. cbn [Qnum Qden inject_Z]. intros H. lia.
Qed.
