(** Property-level consequences of the structural invariant and of the event classification,
    for every state reachable by any sequence of micro-steps from the initial state. *)
From IsoTp Require Import Base.Prelude Model.Micro Spec.ConfigSpec Proofs.FramesP Proofs.Inv
  Proofs.Events Proofs.NoCrash Proofs.MicroP.

Definition reachable (c : cfg) (s : layer) : Prop :=
  exists t0 ms, s = fst (mrun c (init_layer c t0) ms).

Lemma reachable_WF c s : reachable c s -> WF c s.
Proof. intros (t0 & ms & ->). apply WF_mrun, WF_init. Qed.

Lemma reachable_step c s m : reachable c s -> reachable c (fst (mstep c s m)).
Proof.
  intros (t0 & ms & ->). exists t0, (ms ++ [m]).
  destruct (mrun c (init_layer c t0) ms) as [s1 e1] eqn:E1. simpl fst.
  destruct (mstep c s1 m) as [s2 e2] eqn:E2.
  rewrite (mrun_snoc c ms _ m s1 e1 s2 e2 E1 E2). reflexivity.
Qed.

(** C04_nowedge: an active transmitter always has something that will make it move. *)
(** Wait frames are counted per message: in every reachable state in which no First Frame is awaiting its Flow Control and no block is
    being transmitted - idle, or the first frame still held by the rate limiter - the count is zero.  Together with [wait_accepted]
    (each accepted Wait adds one) and [wait_max_reached] (the abort needs a count of wftmax), a message is abandoned for too many Wait
    frames only when more than wftmax of them were accepted since ITS First Frame. *)
Theorem wait_count_per_message c s : reachable c s ->
  tx_state s <> TxWaitFC -> tx_state s <> TxTransmitCF -> wft_counter s = 0.
Proof. intros Hr. apply reachable_WF in Hr. exact (wf_wft c s Hr). Qed.

Theorem nowedge c s : reachable c s -> tx_state s <> TxIdle ->
  (tx_state s = TxWaitFC /\ timer_running (timer_rx_fc s) = true /\
     t_timeout (timer_rx_fc s) = p_tbs_ns (c_p c)) \/
  (tx_state s = TxTransmitCF /\ timer_running (timer_tx_stmin s) = true /\ remote_bs s <> None) \/
  ((tx_state s = TxSFStandby \/ tx_state s = TxFFStandby) /\ tx_standby s <> None).
Proof.
  intros Hr Hn. apply reachable_WF in Hr.
  pose proof (wf_waitfc c s Hr) as Hw. pose proof (wf_cf c s Hr) as Hcf.
  pose proof (wf_standby c s Hr) as Hsb. pose proof (wf_tbs c s Hr) as Htb.
  destruct (tx_state s) eqn:Et; [congruence| | | |].
  - left. repeat split; [apply Hw; reflexivity|assumption].
  - right; left. destruct (Hcf eq_refl). auto.
  - right; right. split; [auto|]. apply Hsb; auto.
  - right; right. split; [auto|]. apply Hsb; auto.
Qed.

(** A reception in progress is never left without a deadline: N_Cr runs, or the Flow Control
    (ContinueToSend) whose emission starts it is pending. *)
Theorem rx_live c s : reachable c s -> rx_state s = RxWaitCF ->
  (timer_running (timer_rx_cf s) = true /\ t_timeout (timer_rx_cf s) = p_tcr_ns (c_p c)) \/
  (pending_fc s = true /\ pending_fc_status s = Some FS_CTS).
Proof.
  intros Hr Hs. apply reachable_WF in Hr.
  destruct (wf_rxlive c s Hr Hs) as [H|H]; [left; split; [exact H|apply (wf_tcr c s Hr)]|right; exact H].
Qed.

(** C07_idle: N_Cr only runs during a reception, N_Bs only while waiting for a Flow Control. *)
Theorem timers_idle c s : reachable c s ->
  (rx_state s = RxIdle -> timer_running (timer_rx_cf s) = false) /\
  (tx_state s <> TxWaitFC -> timer_running (timer_rx_fc s) = false).
Proof.
  intros Hr. apply reachable_WF in Hr.
  pose proof (wf_waitfc c s Hr) as Hw. pose proof (wf_rxtimer c s Hr) as Hrt. split.
  - intros Hi. destruct (timer_running (timer_rx_cf s)) eqn:E; [|reflexivity].
    specialize (Hrt eq_refl). congruence.
  - intros Hn. destruct (timer_running (timer_rx_fc s)) eqn:E; [|reflexivity].
    exfalso. apply Hn. apply Hw. reflexivity.
Qed.

(** C12: the transmitter is idle exactly when it holds no request. *)
Theorem idle_iff_no_request c s : reachable c s -> (tx_state s = TxIdle <-> active s = None).
Proof. intros Hr. apply reachable_WF in Hr. apply (wf_active c s Hr). Qed.

(** C05 / C16: process() never ends in a crash outcome from a reachable state. *)
Theorem process_never_raises c fuel do_rx do_tx w :
  params_ok (c_p c) -> reachable c (w_l w) ->
  snd (process fuel c do_rx do_tx w) <> LCrash.
Proof.
  intros Hok Hr. apply reachable_WF in Hr. unfold process.
  apply (process_nocrash c fuel do_rx do_tx Hok w [] stats0 Hr).
Qed.

(** ** Timeouts (C07) *)

Lemma not_in_forallb {A} (f : A -> bool) (x : A) l : forallb f l = true -> f x = false -> ~ In x l.
Proof.
  intros Hf Hx Hin. rewrite forallb_forall in Hf. specialize (Hf x Hin). congruence.
Qed.

Lemma tx_events_split r : tr_crash r = false -> forall e, In e (tx_events r) ->
  In e (tr_evs r) \/ exists m, e = ETx m.
Proof.
  intros Hc e. unfold tx_events. rewrite Hc. rewrite in_app_iff.
  intros [H|H]; [left; exact H|]. destruct (tr_msg r); [|destruct H].
  destruct H as [<-|[]]. right; eauto.
Qed.

(** The N_Cr timeout is reported by the timeout check of the reception loop and by nothing
    else, exactly when a reception is waiting for a Consecutive Frame and more than
    rx_consecutive_frame_timeout elapsed since the timer was (re)started. *)
Theorem cf_timeout_iff c s m :
  params_ok (c_p c) -> reachable c s ->
  (In (EErr ConsecutiveFrameTimeout) (snd (mstep c s m)) <->
   m = MCheck /\ rx_state s = RxWaitCF /\
   exists t0, t_start (timer_rx_cf s) = Some t0 /\
              (p_tcr_ns (c_p c) < now s - t0 \/ p_tcr_ns (c_p c) = 0)).
Proof.
  intros Hok Hr. pose proof (reachable_WF c s Hr) as H. split.
  - destruct m; simpl.
    + unfold check_timeouts_rx, timer_timed_out.
      destruct (t_start (timer_rx_cf s)) as [t0|] eqn:Es; [|intros []].
      rewrite (wf_tcr c s H).
      destruct ((p_tcr_ns (c_p c) <? now s - t0) || (p_tcr_ns (c_p c) =? 0)) eqn:Eto; [|intros []].
      intros _. split; [reflexivity|]. split.
      * apply (wf_rxtimer c s H). unfold timer_running. rewrite Es. reflexivity.
      * exists t0. split; [reflexivity|]. apply orb_true_iff in Eto. destruct Eto as [E|E];
          [left; apply Z.ltb_lt; exact E|right; apply Z.eqb_eq; exact E].
    + intros Hin. exfalso. revert Hin. apply not_in_forallb with (f := rx_ev_ok); [apply process_rx_evs|reflexivity].
    + intros [].
    + intros Hin. exfalso.
      pose proof (process_tx_nocrash c s Hok H) as Hc.
      destruct (tx_events_split _ Hc _ Hin) as [Hi|[mm Hm]]; [|discriminate].
      revert Hi. apply not_in_forallb with (f := tx_ev_ok); [apply process_tx_evs; exact Hc|reflexivity].
    + intros [].
    + intros [].
    + unfold stop_sending. destruct (active s); simpl; [intros [Hx|[]]; discriminate|intros []].
    + intros [].
    + unfold reset, stop_sending. cbn. intros Hin. apply in_app_iff in Hin. destruct Hin as [Hin|Hin].
      * apply in_map_iff in Hin. destruct Hin as (r & Hx & _). discriminate.
      * destruct (active s); simpl in Hin; [destruct Hin as [Hx|[]]; discriminate|destruct Hin].
    + intros [].
  - intros (-> & Hw & t0 & Es & Hto). simpl. unfold check_timeouts_rx, timer_timed_out.
    rewrite Es, (wf_tcr c s H).
    assert (((p_tcr_ns (c_p c) <? now s - t0) || (p_tcr_ns (c_p c) =? 0)) = true) as ->.
    { apply orb_true_iff. destruct Hto as [E|E]; [left; apply Z.ltb_lt; exact E|right; apply Z.eqb_eq; exact E]. }
    left; reflexivity.
Qed.

(** When it fires: exactly one error, the reception is abandoned, nothing is delivered. *)
Theorem cf_timeout_effect s :
  timer_timed_out (now s) (timer_rx_cf s) = true ->
  snd (check_timeouts_rx s) = [EErr ConsecutiveFrameTimeout] /\
  rx_state (fst (check_timeouts_rx s)) = RxIdle /\
  rx_queue (fst (check_timeouts_rx s)) = rx_queue s /\
  rx_buffer (fst (check_timeouts_rx s)) = [] /\
  timer_running (timer_rx_cf (fst (check_timeouts_rx s))) = false.
Proof. intros E. unfold check_timeouts_rx. rewrite E. repeat split. Qed.

(** Before the deadline the check does nothing at all (so the next frame is processed by an
    unchanged reception state machine). *)
Theorem cf_no_timeout_noop s :
  timer_timed_out (now s) (timer_rx_cf s) = false -> check_timeouts_rx s = (s, []).
Proof. intros E. unfold check_timeouts_rx. rewrite E. reflexivity. Qed.

(** ** N_Bs timeout *)
Lemma handle_fc_timer c s fc :
  0 < p_tbs_ns (c_p c) ->
  let s1 := fst (snd (handle_fc c s fc)) in
  timer_timed_out (now s1) (timer_rx_fc s1) = true ->
  timer_rx_fc s1 = timer_rx_fc s /\ now s1 = now s.
Proof.
  intros Hpos. unfold handle_fc.
  destruct (fc_status fc =? FS_OVFLW).
  - unfold stop_sending. cbn. unfold timer_timed_out. cbn. discriminate.
  - destruct (tx_state s) eqn:Et; cbn [fst snd]; try (intros _; split; reflexivity);
    unfold handle_fc_active;
    (destruct (fc_status fc =? FS_WAIT);
     [destruct (p_wftmax (c_p c) =? 0); [intros _; split; reflexivity|];
      destruct (timer_timed_out (now s) (timer_rx_fc s)); [intros _; split; reflexivity|];
      destruct (p_wftmax (c_p c) <=? wft_counter s);
      [unfold stop_sending; cbn; unfold timer_timed_out; cbn; discriminate|];
      cbn; unfold timer_timed_out; cbn;
      replace (now s - now s) with 0 by lia;
      destruct (Z.ltb_spec (p_tbs_ns (c_p c)) 0); [lia|];
      destruct (Z.eqb_spec (p_tbs_ns (c_p c)) 0); [lia|discriminate]
     |destruct ((fc_status fc =? FS_CTS) && _); [|intros _; split; reflexivity];
      cbn; rewrite Et; cbn; unfold timer_timed_out; cbn; discriminate]).
Qed.

Lemma in_app_forallb_false {A} (f : A -> bool) x l1 l2 :
  forallb f l1 = true -> f x = false -> In x (l1 ++ l2) -> In x l2.
Proof.
  intros Hf Hx Hin. apply in_app_iff in Hin. destruct Hin as [H|H]; [|exact H].
  exfalso. revert H. apply not_in_forallb with (f := f); assumption.
Qed.

(** FlowControlTimeoutError is only ever reported by a transmit pass, while the transmitter
    is waiting for a Flow Control whose deadline (started at t0) has passed. *)
Theorem fc_timeout_only_if c s m :
  params_ok (c_p c) -> 0 < p_tbs_ns (c_p c) -> reachable c s ->
  In (EErr FlowControlTimeout) (snd (mstep c s m)) ->
  m = MTx /\ tx_state s = TxWaitFC /\
  exists t0, t_start (timer_rx_fc s) = Some t0 /\ p_tbs_ns (c_p c) < now s - t0.
Proof.
  intros Hok Hpos Hr. pose proof (reachable_WF c s Hr) as H.
  destruct m; simpl.
  - destruct (check_timeouts_evs s) as [->| ->]; [intros []|intros [Hx|[]]; discriminate].
  - intros Hin. exfalso. revert Hin. apply not_in_forallb with (f := rx_ev_ok); [apply process_rx_evs|reflexivity].
  - intros [].
  - (* transmit pass *)
    intros Hin. split; [reflexivity|].
    pose proof (process_tx_nocrash c s Hok H) as Hc.
    destruct (tx_events_split _ Hc _ Hin) as [Hi|[mm Hm]]; [|discriminate]. clear Hin.
    revert Hc Hi. unfold process_tx.
    (* main part, for any state agreeing with s on the relevant fields *)
    assert (Hmain : forall a s2, WF c s2 -> timer_rx_fc s2 = timer_rx_fc s -> now s2 = now s ->
      tr_crash (process_tx_main c a s2) = false ->
      In (EErr FlowControlTimeout) (tr_evs (process_tx_main c a s2)) ->
      timer_timed_out (now s) (timer_rx_fc s) = true).
    { intros a s2 H2 Ht En. unfold process_tx_main, tx_after_fc.
      set (s2' := s2 <| last_fc := None |>).
      assert (Hfce : forallb fc_ev_ok (snd (snd (match last_fc s2 with
              | None => (false, (s2', [])) | Some f => handle_fc c s2' f end))) = true).
      { destruct (last_fc s2); [apply handle_fc_fc|reflexivity]. }
      assert (Hfct : let s1 := fst (snd (match last_fc s2 with
              | None => (false, (s2', [])) | Some f => handle_fc c s2' f end)) in
              timer_timed_out (now s1) (timer_rx_fc s1) = true ->
              timer_rx_fc s1 = timer_rx_fc s2' /\ now s1 = now s2').
      { destruct (last_fc s2); [apply handle_fc_timer; exact Hpos|]. cbn. auto. }
      destruct (match last_fc s2 with None => _ | Some f => _ end) as [early [s1 evs1]]. cbn in Hfce, Hfct.
      destruct early.
      - intros _ Hi. exfalso. revert Hi. cbn. apply not_in_forallb with (f := fc_ev_ok); [exact Hfce|reflexivity].
      - destruct (timer_timed_out (now s1) (timer_rx_fc s1)) eqn:Eto.
        + intros _ _. destruct (Hfct eq_refl) as [E1 E2]. cbn in E1, E2.
          rewrite <- Ht, <- En, <- E1, <- E2. exact Eto.
        + (* no timeout at the check: the error cannot come from anywhere else *)
          assert (Hrest : forall s3 evs3, forallb fc_ev_ok evs3 = true \/ True ->
                    forallb done_only evs3 = true ->
                    tr_crash (tx_fsm c a s3 ((evs1 ++ []) ++ evs3)) = false ->
                    In (EErr FlowControlTimeout) (tr_evs (tx_fsm c a s3 ((evs1 ++ []) ++ evs3))) -> False).
          { intros s3 evs3 _ Hd Hcr Hi. destruct (tx_fsm_fsm c a s3 _ Hcr) as (new & En' & Hn).
            rewrite En' in Hi. rewrite app_nil_r in Hi.
            apply in_app_iff in Hi. destruct Hi as [Hi|Hi].
            - apply in_app_iff in Hi. destruct Hi as [Hi|Hi].
              + revert Hi. apply not_in_forallb with (f := fc_ev_ok); [exact Hfce|reflexivity].
              + revert Hi. apply not_in_forallb with (f := done_only); [exact Hd|reflexivity].
            - revert Hi. apply not_in_forallb with (f := fsm_ev_ok); [exact Hn|reflexivity]. }
          destruct (tx_state s1).
          * intros Hcr Hi. exfalso. apply (Hrest s1 [] (or_intror I) eq_refl); rewrite ?app_nil_r in *; assumption.
          * destruct (active s1); [|discriminate].
            destruct (r_is_depleted r && _).
            -- pose proof (stop_sending_done true s1) as Hd. destruct (stop_sending true s1) as [s3 e3].
               intros Hcr Hi. exfalso. apply (Hrest s3 e3 (or_intror I) Hd).
               ++ rewrite app_nil_r. cbn in Hcr. exact Hcr.
               ++ rewrite app_nil_r. cbn in Hi. exact Hi.
            -- intros Hcr Hi. exfalso. apply (Hrest s1 [] (or_intror I) eq_refl); rewrite ?app_nil_r in *; assumption.
          * destruct (active s1); [|discriminate].
            destruct (r_is_depleted r && _).
            -- pose proof (stop_sending_done true s1) as Hd. destruct (stop_sending true s1) as [s3 e3].
               intros Hcr Hi. exfalso. apply (Hrest s3 e3 (or_intror I) Hd).
               ++ rewrite app_nil_r. cbn in Hcr. exact Hcr.
               ++ rewrite app_nil_r. cbn in Hi. exact Hi.
            -- intros Hcr Hi. exfalso. apply (Hrest s1 [] (or_intror I) eq_refl); rewrite ?app_nil_r in *; assumption.
          * destruct (active s1); [|discriminate].
            destruct (r_is_depleted r && _).
            -- pose proof (stop_sending_done true s1) as Hd. destruct (stop_sending true s1) as [s3 e3].
               intros Hcr Hi. exfalso. apply (Hrest s3 e3 (or_intror I) Hd).
               ++ rewrite app_nil_r. cbn in Hcr. exact Hcr.
               ++ rewrite app_nil_r. cbn in Hi. exact Hi.
            -- intros Hcr Hi. exfalso. apply (Hrest s1 [] (or_intror I) eq_refl); rewrite ?app_nil_r in *; assumption.
          * destruct (active s1); [|discriminate].
            destruct (r_is_depleted r && _).
            -- pose proof (stop_sending_done true s1) as Hd. destruct (stop_sending true s1) as [s3 e3].
               intros Hcr Hi. exfalso. apply (Hrest s3 e3 (or_intror I) Hd).
               ++ rewrite app_nil_r. cbn in Hcr. exact Hcr.
               ++ rewrite app_nil_r. cbn in Hi. exact Hi.
            -- intros Hcr Hi. exfalso. apply (Hrest s1 [] (or_intror I) eq_refl); rewrite ?app_nil_r in *; assumption. }
    assert (Hfin : timer_timed_out (now s) (timer_rx_fc s) = true ->
      tx_state s = TxWaitFC /\ exists t0, t_start (timer_rx_fc s) = Some t0 /\ p_tbs_ns (c_p c) < now s - t0).
    { unfold timer_timed_out. destruct (t_start (timer_rx_fc s)) as [t0|] eqn:Es; [|discriminate].
      rewrite (wf_tbs c s H). intros Eto. split.
      - apply (wf_waitfc c s H). unfold timer_running. rewrite Es. reflexivity.
      - exists t0. split; [reflexivity|]. apply orb_true_iff in Eto. destruct Eto as [E|E].
        + apply Z.ltb_lt; exact E. + apply Z.eqb_eq in E. lia. }
    destruct (pending_fc s) eqn:Ep.
    + destruct (negb (p_listen (c_p c))).
      * match goal with |- context [pending_fc_status ?x] => destruct (pending_fc_status x) end; [|discriminate].
        destruct (make_flow_control c z); [intros _ []|discriminate].
      * intros Hc Hi. apply Hfin. eapply Hmain; [| | |exact Hc|exact Hi].
        -- apply WF_tx_pending; assumption.
        -- destruct (opt_eqb _ _); reflexivity.
        -- destruct (opt_eqb _ _); reflexivity.
    + intros Hc Hi. apply Hfin. eapply Hmain; [exact H|reflexivity|reflexivity|exact Hc|exact Hi].
  - intros [].
  - intros [].
  - unfold stop_sending. destruct (active s); simpl; [intros [Hx|[]]; discriminate|intros []].
  - intros [].
  - unfold reset, stop_sending. cbn. intros Hin. apply in_app_iff in Hin. destruct Hin as [Hin|Hin].
    + apply in_map_iff in Hin. destruct Hin as (r & Hx & _). discriminate.
    + destruct (active s); simpl in Hin; [destruct Hin as [Hx|[]]; discriminate|destruct Hin].
  - intros [].
Qed.

(** Conversely: a transmit pass made after the deadline, with no Flow Control received (or a
    ContinueToSend / Wait that came too late), reports the timeout exactly once, fails the
    request and leaves the transmitter idle for the next queued request. *)
Theorem fc_timeout_fires c s r :
  WF c s -> pending_fc s = false -> active s = Some r ->
  timer_timed_out (now s) (timer_rx_fc s) = true ->
  (last_fc s = None \/ exists fc, last_fc s = Some fc /\ fc_status fc <> FS_OVFLW /\
                                  (fc_status fc = FS_WAIT -> p_wftmax (c_p c) <> 0)) ->
  forall a, exists rest,
    tr_evs (process_tx_main c a s) = EErr FlowControlTimeout :: EDone (r_id r) false :: rest /\
    (tr_crash (process_tx_main c a s) = false -> forallb fsm_ev_ok rest = true).
Proof.
  intros H Hp Ha Hto Hfc a.
  assert (Hw : tx_state s = TxWaitFC).
  { apply (wf_waitfc c s H). unfold timer_timed_out in Hto. unfold timer_running.
    destruct (t_start (timer_rx_fc s)); [reflexivity|discriminate]. }
  set (s2 := fst (stop_sending false (s <| last_fc := None |>))).
  assert (Heq : process_tx_main c a s = tx_fsm c a s2 [EErr FlowControlTimeout; EDone (r_id r) false]).
  { unfold process_tx_main, tx_after_fc.
    assert (Hafter : (match last_fc s with
                      | None => (false, (s <| last_fc := None |>, []))
                      | Some f => handle_fc c (s <| last_fc := None |>) f end)
                     = (false, (s <| last_fc := None |>, []))).
    { destruct Hfc as [->|(fc & -> & Ho & Hwt)]; [reflexivity|].
      unfold handle_fc. destruct (Z.eqb_spec (fc_status fc) FS_OVFLW) as [E|_]; [congruence|].
      change (tx_state (s <| last_fc := None |>)) with (tx_state s). rewrite Hw. unfold handle_fc_active.
      change (now (s <| last_fc := None |>)) with (now s). change (timer_rx_fc (s <| last_fc := None |>)) with (timer_rx_fc s). rewrite Hto.
      destruct (Z.eqb_spec (fc_status fc) FS_WAIT) as [E|_].
      - destruct (Z.eqb_spec (p_wftmax (c_p c)) 0) as [E0|_]; [exfalso; apply (Hwt E); exact E0|reflexivity].
      - rewrite andb_false_r. reflexivity. }
    rewrite Hafter.
    change (now (s <| last_fc := None |>)) with (now s). change (timer_rx_fc (s <| last_fc := None |>)) with (timer_rx_fc s). rewrite Hto.
    subst s2. unfold stop_sending. change (active (s <| last_fc := None |>)) with (active s). rewrite Ha. reflexivity. }
  rewrite Heq. unfold tx_fsm.
  assert (Hi2 : tx_state s2 = TxIdle) by reflexivity. rewrite Hi2.
  destruct (idle_dequeue c (tx_queue s2) s2 [] a) as [site|s4 evs4 out] eqn:Ei.
  - exists [ECrash site]. split; [reflexivity|]. intros Hx; cbn in Hx; discriminate Hx.
  - rewrite tx_finish_evs. exists evs4. split; [reflexivity|].
    intros _. eapply idle_dequeue_fsm; [|exact Ei]. reflexivity.
Qed.

(** ** Flow control aborts (C04) *)

(** Overflow: the message is abandoned with OverflowError, marked failed, nothing is emitted
    by this pass and the transmitter is idle. *)
Theorem overflow_aborts c s fc a :
  last_fc s = Some fc -> fc_status fc = FS_OVFLW ->
  let r := process_tx_main c a s in
  tr_msg r = None /\ tx_state (tr_s r) = TxIdle /\ active (tr_s r) = None /\
  tr_evs r = (match active s with Some q => [EDone (r_id q) false] | None => [] end) ++ [EErr OverflowErr].
Proof.
  intros Hl Ho. unfold process_tx_main, tx_after_fc. rewrite Hl. unfold handle_fc. rewrite Ho.
  cbn. repeat split.
Qed.

(** wftmax = 0: a Wait frame is reported as unsupported and changes nothing else. *)
Theorem wait_unsupported c s fc :
  p_wftmax (c_p c) = 0 -> fc_status fc = FS_WAIT ->
  handle_fc_active c s fc = (s, [EErr UnsupportedWaitFrame]).
Proof. intros Hw Hf. unfold handle_fc_active. rewrite Hf, Hw. reflexivity. Qed.

(** More Wait frames than wftmax allows: MaximumWaitFrameReachedError, request failed, idle. *)
Theorem wait_max_reached c s fc :
  p_wftmax (c_p c) <> 0 -> fc_status fc = FS_WAIT ->
  timer_timed_out (now s) (timer_rx_fc s) = false -> p_wftmax (c_p c) <= wft_counter s ->
  handle_fc_active c s fc =
    (fst (stop_sending false s), EErr MaximumWaitFrameReached :: snd (stop_sending false s)).
Proof.
  intros Hw Hf Ht Hc. unfold handle_fc_active. rewrite Hf, Ht. cbn.
  destruct (Z.eqb_spec (p_wftmax (c_p c)) 0); [congruence|].
  destruct (Z.leb_spec (p_wftmax (c_p c)) (wft_counter s)); [|lia].
  destruct (stop_sending false s); reflexivity.
Qed.

(** An accepted Wait frame restarts N_Bs and counts. *)
Theorem wait_accepted c s fc :
  p_wftmax (c_p c) <> 0 -> fc_status fc = FS_WAIT ->
  timer_timed_out (now s) (timer_rx_fc s) = false -> wft_counter s < p_wftmax (c_p c) ->
  let s' := fst (handle_fc_active c s fc) in
  snd (handle_fc_active c s fc) = [] /\ tx_state s' = TxWaitFC /\
  wft_counter s' = wft_counter s + 1 /\ t_start (timer_rx_fc s') = Some (now s).
Proof.
  intros Hw Hf Ht Hc. unfold handle_fc_active. rewrite Hf, Ht. cbn.
  destruct (Z.eqb_spec (p_wftmax (c_p c)) 0); [congruence|].
  destruct (Z.leb_spec (p_wftmax (c_p c)) (wft_counter s)); [lia|].
  cbn. repeat split.
Qed.

Lemma lim_inform_tx p n s : tx_state (lim_inform p n s) = tx_state s /\ tx_queue (lim_inform p n s) = tx_queue s.
Proof.
  unfold lim_inform. destruct (negb (p_lim_enable p)); [auto|].
  destruct (lim_times s); [cbn; auto|]. destruct (SLOT_NS <? _); cbn; auto.
Qed.

Lemma tx_finish_tx p s evs out imm :
  tx_state (tr_s (tx_finish p s evs out imm)) = tx_state s /\
  tx_queue (tr_s (tx_finish p s evs out imm)) = tx_queue s /\
  tr_msg (tx_finish p s evs out imm) = out.
Proof. unfold tx_finish. destruct out; cbn; [destruct (lim_inform_tx p (zlen (f_data f)) s)|]; auto. Qed.

(** Consecutive Frames are only produced in the TRANSMIT_CF state, which is entered only by an
    accepted ContinueToSend (handle_fc_active); and a block never exceeds the granted size:
    the Consecutive Frame that completes the granted block puts the sender back to waiting. *)
Theorem cf_respects_blocksize c a s evs rbs :
  tx_state s = TxTransmitCF -> remote_bs s = Some rbs -> rbs <> 0 ->
  rbs <= tx_block_counter s + 1 ->
  forall m, tr_msg (tx_cf c a s evs) = Some m ->
  tx_state (tr_s (tx_cf c a s evs)) <> TxTransmitCF.
Proof.
  intros Et Hrb Hnz Hb m. unfold tx_cf. rewrite Hrb.
  destruct (active s) as [r|]; [|discriminate].
  destruct (timer_timed_out _ _); [|rewrite (proj2 (proj2 (tx_finish_tx _ _ _ _ _))); discriminate].
  destruct (_ <=? a); [|rewrite (proj2 (proj2 (tx_finish_tx _ _ _ _ _))); discriminate].
  destruct (consume _ false r) as [[payload|] r']; [|discriminate].
  destruct (0 <? zlen payload).
  - destruct (make_tx_msg _ _ _) as [mm|]; [|discriminate].
    destruct (r_is_depleted r').
    + destruct (0 <? r_remaining r'); unfold stop_sending; rewrite (proj1 (tx_finish_tx _ _ _ _ _)); cbn; intros _; discriminate.
    + cbn.
      destruct (Z.eqb_spec rbs 0); [congruence|].
      destruct (Z.leb_spec rbs (tx_block_counter s + 1)); [|lia].
      cbn. rewrite (proj1 (lim_inform_tx _ _ _)). cbn. intros _; discriminate.
  - destruct (r_is_depleted r').
    + destruct (0 <? r_remaining r'); unfold stop_sending; rewrite (proj2 (proj2 (tx_finish_tx _ _ _ _ _))); discriminate.
    + destruct (negb (rbs =? 0) && _); rewrite (proj2 (proj2 (tx_finish_tx _ _ _ _ _))); discriminate.
Qed.

(** ** Listen mode (C18) *)
Definition tx_quiet (s : layer) : Prop := tx_queue s = [] /\ tx_state s = TxIdle.

Lemma tx_quiet_process_rx c s f : tx_quiet s -> tx_quiet (rr_s (process_rx c s f)).
Proof.
  intros [Hq Hs]. unfold tx_quiet.
  assert (Hfr : forall x, tx_queue (stop_receiving x) = tx_queue x /\ tx_state (stop_receiving x) = tx_state x)
    by (intros; split; reflexivity).
  unfold process_rx.
  destruct (pdu_decode _ _) as [d|]; [|cbn; auto].
  destruct (d_pdu d) as [esc len data|esc len data|sn data|fs bs st]; cbn [negb andb]; cbv iota.
  - destruct ((8 <? d_can_dl d) && negb esc); [cbn; auto|]. destruct (rx_state s); cbn; auto.
  - destruct (rx_state s); unfold start_reception_after_ff;
      destruct (negb (valid_rxdl (d_rx_dl d))); cbn; auto;
      destruct (p_max_frame_size (c_p c) <? len); cbn; auto.
  - destruct (rx_state s); cbn; auto.
    destruct (sn =? _); [|cbn; auto].
    destruct (negb _ && _); [cbn; auto|]. cbn.
    destruct (rx_frame_length s <=? _); cbn; auto.
    destruct (_ && _); cbn; auto.
  - cbn; auto.
Qed.

Lemma tx_fsm_quiet c a s evs : tx_quiet s ->
  tr_msg (tx_fsm c a s evs) = None /\ tx_quiet (tr_s (tx_fsm c a s evs)).
Proof.
  intros [Hq Hs]. unfold tx_fsm. rewrite Hs, Hq. cbn [idle_dequeue]. unfold tx_finish, tx_quiet.
  cbn [tr_msg tr_s mk_tr]. split; [reflexivity|]. split; [reflexivity|exact Hs].
Qed.

Lemma stop_sending_quiet b s : tx_queue s = [] -> tx_quiet (fst (stop_sending b s)).
Proof. intros Hq. unfold stop_sending, tx_quiet. cbn [fst]. split; [exact Hq|reflexivity]. Qed.

Lemma tx_main_quiet c a s : tx_quiet s ->
  tr_msg (process_tx_main c a s) = None /\ tx_quiet (tr_s (process_tx_main c a s)).
Proof.
  intros [Hq Hs]. unfold process_tx_main, tx_after_fc.
  set (s' := s <| last_fc := None |>).
  assert (Hq' : tx_queue s' = []) by exact Hq.
  assert (Hs' : tx_state s' = TxIdle) by exact Hs.
  assert (Hfc : match (match last_fc s with None => (false, (s', [])) | Some f => handle_fc c s' f end) with
                | (true, (s1, evs)) => tx_quiet s1
                | (false, (s1, evs)) => tx_quiet s1 end).
  { destruct (last_fc s) as [fc|]; [|split; assumption].
    unfold handle_fc. destruct (fc_status fc =? FS_OVFLW).
    - pose proof (stop_sending_quiet false s' Hq') as Hx. destruct (stop_sending false s'). exact Hx.
    - rewrite Hs'. split; assumption. }
  destruct (match last_fc s with None => _ | Some f => _ end) as [early [s1 evs1]].
  destruct early; [split; [reflexivity|exact Hfc]|].
  assert (Hto : tx_quiet (fst (if timer_timed_out (now s1) (timer_rx_fc s1)
        then let '(s'0, e) := stop_sending false s1 in (s'0, EErr FlowControlTimeout :: e) else (s1, [])))).
  { destruct (timer_timed_out _ _); [|exact Hfc].
    pose proof (stop_sending_quiet false s1 (proj1 Hfc)) as Hx. destruct (stop_sending false s1). exact Hx. }
  destruct (if timer_timed_out (now s1) (timer_rx_fc s1) then _ else _) as [s2 evs2]. cbn [fst] in Hto.
  rewrite (proj2 Hto). apply tx_fsm_quiet. exact Hto.
Qed.

(** With listen_mode set, a transmit pass on a quiet transmitter emits nothing - in particular
    no Flow Control - whatever the reception side has requested. *)
Theorem listen_silent c s :
  p_listen (c_p c) = true -> tx_quiet s ->
  tr_msg (process_tx c s) = None /\ tx_quiet (tr_s (process_tx c s)).
Proof.
  intros Hl Hq. unfold process_tx. rewrite Hl. cbn [negb].
  destruct (pending_fc s); [|apply tx_main_quiet; exact Hq].
  apply tx_main_quiet. destruct Hq as [H1 H2]. destruct (opt_eqb _ _); split; assumption.
Qed.

Definition not_send (m : micro) : Prop := match m with MSend _ _ _ => False | _ => True end.

Lemma no_etx_forallb (f : event -> bool) evs :
  (forall x, f (ETx x) = false) -> forallb f evs = true -> forall x, ~ In (ETx x) evs.
Proof. intros Hf Ha x. apply not_in_forallb with (f := f); auto. Qed.

Lemma reset_quiet_noetx c s :
  tx_quiet (fst (reset c s)) /\ forall f, ~ In (ETx f) (snd (reset c s)).
Proof.
  unfold reset.
  match goal with |- context [stop_sending false ?x] =>
    pose proof (stop_sending_done false x) as Hd;
    pose proof (stop_sending_quiet false x eq_refl) as Hqq;
    destruct (stop_sending false x) as [s1 e1] end.
  cbn [fst snd] in *. split; [exact Hqq|].
  intros f Hin. apply in_app_iff in Hin. destruct Hin as [Hin|Hin].
  - apply in_map_iff in Hin. destruct Hin as (r & Hx & _). discriminate.
  - revert Hin. apply no_etx_forallb with (f := done_only); [reflexivity|exact Hd].
Qed.

(** C18: in listen mode, without user send() calls, no micro-step of any kind - any traffic,
    any schedule of process() calls, ticks, stop/reset calls - ever emits a frame. *)
Theorem listen_step_silent c s m :
  params_ok (c_p c) -> p_listen (c_p c) = true -> WF c s -> tx_quiet s -> not_send m ->
  tx_quiet (fst (mstep c s m)) /\ forall f, ~ In (ETx f) (snd (mstep c s m)).
Proof.
  intros Hok Hl H Hq Hm. destruct m; simpl; try (destruct Hm; fail).
  - unfold check_timeouts_rx. destruct (timer_timed_out _ _); cbn; (split; [exact Hq|]).
    + intros f [Hx|[]]; discriminate. + intros f [].
  - split; [apply tx_quiet_process_rx; exact Hq|].
    apply no_etx_forallb with (f := rx_ev_ok); [reflexivity|apply process_rx_evs].
  - split; [|intros f []]. unfold lim_update, lim_reset. destruct (negb _); [exact Hq|].
    destruct (lim_pop _ _ _ _ _) as [[? ?] ?]. exact Hq.
  - destruct (listen_silent c s Hl Hq) as [Hmsg Hq']. split; [exact Hq'|].
    pose proof (process_tx_nocrash c s Hok H) as Hc.
    unfold tx_events. rewrite Hc, Hmsg, app_nil_r.
    apply no_etx_forallb with (f := tx_ev_ok); [reflexivity|apply process_tx_evs; exact Hc].
  - split; [|intros f []]. unfold recv. destruct (rx_queue s); exact Hq.
  - split; [apply (stop_sending_quiet false); exact (proj1 Hq)|].
    apply no_etx_forallb with (f := done_only); [reflexivity|apply (stop_sending_done false)].
  - split; [exact Hq|intros f []].
  - exact (reset_quiet_noetx c s).
  - split; [exact Hq|intros f []].
Qed.

Theorem listen_run_silent c ms : params_ok (c_p c) -> p_listen (c_p c) = true ->
  Forall not_send ms -> forall s, WF c s -> tx_quiet s ->
  tx_quiet (fst (mrun c s ms)) /\ forall f, ~ In (ETx f) (snd (mrun c s ms)).
Proof.
  intros Hok Hl. induction ms as [|m rest IH]; intros Hns s H Hq; simpl.
  - split; [exact Hq|intros f []].
  - inversion Hns as [|? ? Hm Hrest]; subst.
    destruct (listen_step_silent c s m Hok Hl H Hq Hm) as [Hq1 He1].
    pose proof (WF_mstep c s m H) as H1.
    destruct (mstep c s m) as [s1 e1]. cbn [fst snd] in *.
    destruct (IH Hrest s1 H1 Hq1) as [Hq2 He2].
    destruct (mrun c s1 rest) as [s2 e2]. cbn [fst snd] in *.
    split; [exact Hq2|]. intros f Hin. apply in_app_iff in Hin. destruct Hin; [eapply He1|eapply He2]; eauto.
Qed.
