(** C09: a frame that does not meet the reception condition changes nothing:
    the reception loop behaves as if rxfn had not returned it (only the
    `received` statistic counts it). Also: send() with the Functional target
    type. *)
From IsoTp Require Import Base.Prelude Model.Layer.

Definition bump (st : stats) : stats :=
  {| st_received := st_received st + 1; st_processed := st_processed st;
     st_sent := st_sent st; st_frames := st_frames st |}.

Lemma timer_stop_not_timed_out nw t : timer_timed_out nw (timer_stop t) = false.
Proof. reflexivity. Qed.

Lemma check_timeouts_idem s :
  check_timeouts_rx (fst (check_timeouts_rx s)) = (fst (check_timeouts_rx s), []).
Proof.
  unfold check_timeouts_rx.
  destruct (timer_timed_out (now s) (timer_rx_cf s)) eqn:E; simpl fst.
  - unfold stop_receiving, stop_sending_fc. simpl. reflexivity.
  - rewrite E. reflexivity.
Qed.

Definition map_st (f : stats -> stats) (r : list frame * layer * list event * stats) :=
  let '(i, s', e', st') := r in (i, s', e', f st').

Lemma rx_loop_bump c l : forall s evs st st1, st1 = bump st ->
  rx_loop c l s evs st1 = map_st bump (rx_loop c l s evs st).
Proof.
  induction l as [|m rest IH]; intros s evs st st1 ->; simpl.
  - destruct (check_timeouts_rx s); reflexivity.
  - destruct (check_timeouts_rx s) as [s1 e1].
    destruct (c_is_for_me c m).
    + destruct (rr_imm_tx (process_rx c s1 m)).
      * reflexivity.
      * apply IH. reflexivity.
    + apply IH. reflexivity.
Qed.

Lemma rx_loop_after_check c l s evs st :
  rx_loop c l (fst (check_timeouts_rx s)) (evs ++ snd (check_timeouts_rx s)) st =
  rx_loop c l s evs st.
Proof.
  pose proof (check_timeouts_idem s) as Hid.
  destruct (check_timeouts_rx s) as [s1 e1] eqn:E. simpl fst in *; simpl snd.
  destruct l as [|m rest]; simpl; rewrite Hid, E; simpl app; rewrite <- ?app_assoc, ?app_nil_r; reflexivity.
Qed.

(** The frame [f] is not for me: the loop behaves as on the inbox without it. *)
Theorem rx_loop_ignore c f rest s evs st :
  c_is_for_me c f = false ->
  rx_loop c (f :: rest) s evs st = map_st bump (rx_loop c rest s evs st).
Proof.
  intros Hf. simpl. rewrite Hf.
  destruct (check_timeouts_rx s) as [s1 e1] eqn:E.
  rewrite (rx_loop_bump c rest s1 (evs ++ e1) st) by reflexivity.
  replace s1 with (fst (check_timeouts_rx s)) by (rewrite E; reflexivity).
  replace e1 with (snd (check_timeouts_rx s)) by (rewrite E; reflexivity).
  rewrite rx_loop_after_check. reflexivity.
Qed.

(** Functional target type: accepted exactly when the payload fits a Single Frame. *)
Definition sf_fits (c : cfg) (size : Z) : Prop :=
  let plen := zlen (c_tx_prefix c) in
  if p_tx_dl (c_p c) =? 8 then size + plen <= 7 else size <= p_tx_dl (c_p c) - 2 - plen.

Theorem send_functional c s g size :
  snd (send c s g size (Some Functional)) = SendOk <->
  (0 <= size <= 0xFFFFFFFF /\ sf_fits c size).
Proof.
  unfold send, sf_fits.
  destruct (size <? 0) eqn:E1; [split; [discriminate|lia]|].
  destruct (0xFFFFFFFF <? size) eqn:E2; [split; [discriminate|lia]|].
  destruct (p_tx_dl (c_p c) =? 8) eqn:E8.
  - destruct (p_tx_dl (c_p c) - 1 - zlen (c_tx_prefix c) <? size) eqn:E3; simpl; split;
      intros H; try discriminate; try reflexivity; apply Z.eqb_eq in E8; lia.
  - destruct (p_tx_dl (c_p c) - 2 - zlen (c_tx_prefix c) <? size) eqn:E3; simpl; split;
      intros H; try discriminate; try reflexivity; lia.
Qed.

(** A refused send() queues nothing. *)
Theorem send_refused_unchanged c s g size t :
  snd (send c s g size t) = SendValueError -> fst (send c s g size t) = s.
Proof.
  unfold send.
  destruct (size <? 0); [reflexivity|].
  destruct (0xFFFFFFFF <? size); [reflexivity|].
  match goal with |- context [if ?b then _ else _] => destruct b end; [reflexivity|discriminate].
Qed.

(** An explicit target address type always wins over the layer's default; an omitted one takes the default.  In particular a
    Physical send is accepted for every size up to 2^32 - 1 whatever the default is, and its request carries Physical. *)
Theorem send_explicit_physical c s g size : 0 <= size <= 0xFFFFFFFF ->
  send c s g size (Some Physical) =
  (s <| tx_queue := tx_queue s ++ [{| r_id := next_req_id s; r_gen := g; r_size := size; r_consumed := 0; r_depleted := false; r_tat := Physical |}] |>
     <| next_req_id := next_req_id s + 1 |>, SendOk).
Proof.
  intros H. unfold send. destruct (Z.ltb_spec size 0); [lia|]. destruct (Z.ltb_spec 0xFFFFFFFF size); [lia|]. reflexivity.
Qed.

Theorem send_default_target c s g size : send c s g size None = send c s g size (Some (p_default_tat (c_p c))).
Proof. reflexivity. Qed.

