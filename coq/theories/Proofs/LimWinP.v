(** C15, the sliding window on the (virtual) clock, for every run.  With a ghost log of the data frames
    the layer emitted - instant and data-field bits of every Single / First / Consecutive Frame handed to
    txfn - in every state reachable by micro-steps with non-negative clock ticks, the bits emitted during
    the last (window - 5 ms) never exceed the budget bitrate x window by more than one CAN FD frame.
    (5 ms is the slot in which the limiter merges consecutive frames.) *)
From IsoTp Require Import Base.Prelude Model.Micro Spec.ConfigSpec Proofs.Inv Proofs.FramesP Proofs.DuplexP Proofs.PacingP Proofs.LimP.

Fixpoint zsum (l : list Z) : Z := match l with [] => 0 | x :: r => x + zsum r end.

(** bits accounted in the slots that started after [T] *)
Fixpoint live_sum (T : Z) (times bits : list Z) : Z :=
  match times, bits with
  | t :: ts, b :: bs => (if T <? t then b else 0) + live_sum T ts bs
  | _, _ => 0
  end.

(** bits of the log entries (instant, bits) after [T] *)
Fixpoint log_sum (T : Z) (E : list (Z * Z)) : Z :=
  match E with
  | [] => 0
  | (t, b) :: r => (if T <? t then b else 0) + log_sum T r
  end.

Lemma zsum_app a b : zsum (a ++ b) = zsum a + zsum b.
Proof. induction a as [|x a IH]; cbn [app zsum]; lia. Qed.

Lemma log_sum_app T a b : log_sum T (a ++ b) = log_sum T a + log_sum T b.
Proof. induction a as [|[t x] a IH]; cbn [app log_sum]; lia. Qed.

Lemma live_sum_le T : forall times bits, nonneg_all bits -> live_sum T times bits <= zsum bits.
Proof.
  induction times as [|t ts IH]; intros bits Hnn; cbn [live_sum].
  - clear -Hnn. induction Hnn; cbn [zsum]; lia.
  - destruct bits as [|b bs]; [cbn; lia|]. inversion Hnn; subst. specialize (IH bs H2). cbn [zsum]. destruct (T <? t); lia.
Qed.

Lemma live_sum_snoc T : forall times bits t b, length times = length bits ->
  live_sum T (times ++ [t]) (bits ++ [b]) = live_sum T times bits + (if T <? t then b else 0).
Proof.
  induction times as [|t0 ts IH]; intros bits t b Hl; destruct bits as [|b0 bs]; try discriminate; cbn [app live_sum].
  - lia.
  - rewrite IH by (cbn in Hl; lia). lia.
Qed.

Lemma live_sum_add_last T : forall times bits x, length times = length bits -> times <> [] ->
  live_sum T times (add_last bits x) = live_sum T times bits + (if T <? last times 0 then x else 0).
Proof.
  induction times as [|t0 ts IH]; intros bits x Hl Hne; [congruence|].
  destruct bits as [|b0 bs]; [discriminate|].
  destruct ts as [|t1 ts'].
  - destruct bs; [|discriminate]. cbn. destruct (T <? t0); lia.
  - destruct bs as [|b1 bs']; [discriminate|].
    change (add_last (b0 :: b1 :: bs') x) with (b0 :: add_last (b1 :: bs') x).
    change (last (t0 :: t1 :: ts') 0) with (last (t1 :: ts') 0).
    cbn [live_sum] in *. rewrite (IH (b1 :: bs') x) by (cbn in *; try lia; discriminate). cbn [live_sum]. lia.
Qed.

Lemma add_last_length l x : length (add_last l x) = length l.
Proof. induction l as [|a [|b r] IH]; cbn in *; auto. Qed.

Lemma zsum_add_last l x : l <> [] -> zsum (add_last l x) = zsum l + x.
Proof.
  induction l as [|a [|b r] IH]; intros H; [congruence|cbn; lia|].
  change (add_last (a :: b :: r) x) with (a :: add_last (b :: r) x). cbn [zsum] in *. rewrite IH by discriminate. cbn [zsum]. lia.
Qed.

Section Win.
Variable c : cfg.
Hypothesis Hok : params_ok (c_p c).
Hypothesis Hen : p_lim_enable (c_p c) = true.

Local Notation p := (c_p c).
Let W := p_lim_window_ns p.

(** limiter bookkeeping is consistent and covers the recent part of the log *)
Definition LW (s : layer) (E : list (Z * Z)) : Prop :=
  length (lim_times s) = length (lim_bits s) /\
  lim_total s = zsum (lim_bits s) /\
  nonneg_all (lim_bits s) /\
  forall T, now s - W + SLOT_NS <= T -> log_sum T E <= live_sum (T - SLOT_NS) (lim_times s) (lim_bits s).

Lemma LW_same s s' E : now s' = now s -> lim_times s' = lim_times s -> lim_bits s' = lim_bits s -> lim_total s' = lim_total s ->
  LW s E -> LW s' E.
Proof. unfold LW. intros -> -> -> ->. auto. Qed.

Lemma LW_txv s s' E : txv s' = txv s -> LW s E -> LW s' E.
Proof.
  intros Hv. unfold txv in Hv.
  pose proof (f_equal (fun '(n, _, _, _, _, _, _, _, _, _, _, _, lt, lb, tot, _) => (n, lt, lb, tot)) Hv) as Hv'.
  cbv beta iota in Hv'. injection Hv' as H1 H2 H3 H4. apply LW_same; assumption.
Qed.

(** accounting one frame of [n] data bytes at the current instant *)
Lemma LW_inform s E n : 0 <= n -> LW s E -> LW (lim_inform p n s) (E ++ [(now s, n * 8)]).
Proof.
  intros Hn (Hlen & Htot & Hnn & Hcov). unfold lim_inform. rewrite Hen. cbn [negb].
  destruct (list_eq_dec Z.eq_dec (lim_times s) []) as [Et|Hne].
  - rewrite Et in *. destruct (lim_bits s) as [|b0 bs] eqn:Eb; [|discriminate].
    unfold LW. cbn [lim_times lim_bits lim_total now set RecordSet.set length zsum].
    split; [reflexivity|]. split; [rewrite Htot; cbn; lia|]. split; [constructor; [lia|constructor]|].
    intros T HT. rewrite log_sum_app. specialize (Hcov T HT). cbn [live_sum] in Hcov.
    cbn [log_sum live_sum]. destruct (Z.ltb_spec T (now s)); destruct (Z.ltb_spec (T - SLOT_NS) (now s)); unfold SLOT_NS in *; lia.
  - assert (Hm : forall A (x y : A), match lim_times s with [] => x | _ :: _ => y end = y) by (intros; destruct (lim_times s); [congruence|reflexivity]).
    rewrite Hm.
    destruct (SLOT_NS <? now s - last (lim_times s) 0) eqn:Eslot.
    + unfold LW. cbn [lim_times lim_bits lim_total now set RecordSet.set].
      split; [rewrite !app_length, Hlen; reflexivity|]. split; [rewrite zsum_app, Htot; cbn; lia|].
      split; [apply Forall_app; split; [exact Hnn|constructor; [lia|constructor]]|].
      intros T HT. rewrite log_sum_app, live_sum_snoc by exact Hlen. specialize (Hcov T HT).
      cbn [log_sum]. destruct (Z.ltb_spec T (now s)); destruct (Z.ltb_spec (T - SLOT_NS) (now s)); unfold SLOT_NS in *; lia.
    + apply Z.ltb_ge in Eslot.
      assert (Hbne : lim_bits s <> []) by (intros E0; rewrite E0 in Hlen; destruct (lim_times s); [congruence|discriminate]).
      unfold LW. cbn [lim_times lim_bits lim_total now set RecordSet.set].
      split; [rewrite add_last_length; exact Hlen|]. split; [rewrite zsum_add_last, Htot by exact Hbne; lia|].
      split; [apply add_last_nonneg; [exact Hnn|lia]|].
      intros T HT. rewrite log_sum_app, live_sum_add_last by assumption. specialize (Hcov T HT).
      cbn [log_sum]. destruct (Z.ltb_spec T (now s)); destruct (Z.ltb_spec (T - SLOT_NS) (last (lim_times s) 0)); unfold SLOT_NS in *; lia.
Qed.

(** what the sliding of the window removes is older than anything the claim is about *)
Lemma lim_pop_live nw : forall times bits total, length times = length bits -> total = zsum bits -> nonneg_all bits ->
  let '(ts, bs, tot) := lim_pop nw W times bits total in
  length ts = length bs /\ tot = zsum bs /\ nonneg_all bs /\
  forall T', nw - W <= T' -> live_sum T' ts bs = live_sum T' times bits.
Proof.
  induction times as [|t ts IH]; intros bits total Hl Ht Hnn; cbn [lim_pop]; [repeat split; assumption|].
  destruct bits as [|b bs]; [discriminate|].
  destruct (Z.ltb_spec W (nw - t)) as [Hold|Hkeep]; [|repeat split; assumption].
  inversion Hnn as [|? ? Hb0 Hnn']; subst. specialize (IH bs (zsum (b :: bs) - b)).
  destruct (lim_pop nw W ts bs (zsum (b :: bs) - b)) as [[ts' bs'] tot'].
  destruct IH as (I1 & I2 & I3 & I4); [cbn in Hl; lia|cbn [zsum]; lia|assumption|].
  split; [exact I1|]. split; [exact I2|]. split; [exact I3|].
  intros T' HT'. rewrite (I4 T' HT'). cbn [live_sum]. destruct (Z.ltb_spec T' t); lia.
Qed.

Lemma LW_update s E : LW s E -> LW (lim_update p s) E.
Proof.
  intros (Hlen & Htot & Hnn & Hcov). unfold lim_update. rewrite Hen. cbn [negb]. fold W.
  pose proof (lim_pop_live (now s) (lim_times s) (lim_bits s) (lim_total s) Hlen Htot Hnn) as Hp.
  destruct (lim_pop (now s) W (lim_times s) (lim_bits s) (lim_total s)) as [[ts bs] tot].
  destruct Hp as (P1 & P2 & P3 & P4).
  unfold LW. cbn [lim_times lim_bits lim_total now set RecordSet.set].
  repeat split; try assumption.
  intros T HT. rewrite P4 by (unfold SLOT_NS in *; lia). apply Hcov. exact HT.
Qed.

Lemma LW_tick s E d : 0 <= d -> LW s E -> LW (tick d s) E.
Proof.
  intros Hd (Hlen & Htot & Hnn & Hcov). unfold LW, tick. cbn [lim_times lim_bits lim_total now set RecordSet.set].
  repeat split; try assumption. intros T HT. apply Hcov. lia.
Qed.

(** the frame a transmit pass accounts: the one it emits, unless the pass only answers with a Flow Control *)
Definition accounted (s : layer) : option frame :=
  match tx_input c s with Some _ => tr_msg (process_tx c s) | None => None end.

Lemma LS_process_tx s : LS p s (tr_s (process_tx c s)) (accounted s).
Proof.
  unfold accounted.
  pose proof (process_tx_by_input c s) as Hp.
  destruct (tx_input c s) as [s1|] eqn:Ei.
  - rewrite Hp. unfold process_tx_main.
    assert (H1 : LS p s s1 None).
    { revert Ei. unfold tx_input. destruct (pending_fc s); [|intros E; injection E as <-; apply LS_same; reflexivity].
      cbv zeta. destruct (negb (p_listen (c_p c))); [discriminate|]. intros E; injection E as <-.
      destruct (opt_eqb _ _); apply LS_same; reflexivity. }
    pose proof (LS_tx_after_fc c s1) as Hf.
    destruct (tx_after_fc c s1) as [r|[s3 evs]].
    + destruct Hf as [Hf Hm]. rewrite Hm. exact (LS_trans_none p s s1 (tr_s r) None H1 Hf).
    + pose proof (proj1 (LS_tx_fsm c (lim_allowed_bytes (c_p c) s) s3 evs)) as H3.
      exact (LS_trans_none p s s3 _ _ (LS_trans_none p s s1 s3 None H1 Hf) H3).
  - revert Ei. unfold tx_input, process_tx. destruct (pending_fc s); [|discriminate]. cbv zeta.
    destruct (negb (p_listen (c_p c))); [|discriminate]. intros _.
    destruct (opt_eqb _ _); (destruct (pending_fc_status _) as [st|]; [destruct (make_flow_control c st)|]);
      cbn [tr_s mk_tr mk_crash]; apply LS_same; reflexivity.
Qed.

Lemma LW_LS s s' E out : LS p s s' out -> LW s E -> (forall m, out = Some m -> 0 <= zlen (f_data m)) ->
  LW s' (match out with Some m => E ++ [(now s, zlen (f_data m) * 8)] | None => E end).
Proof.
  intros (Hn & H) HL Hm. destruct out as [m|].
  - destruct H as (T & B & M). pose proof (LW_inform s E (zlen (f_data m)) (Hm m eq_refl) HL) as HL'.
    revert HL'. apply LW_same; try assumption.
    unfold lim_inform. rewrite Hen. cbn [negb]. destruct (lim_times s); [exact Hn|]. destruct (SLOT_NS <? _); exact Hn.
  - destruct H as (T & B & M). revert HL. apply LW_same; assumption.
Qed.

(** ghost log along a run *)
Definition gE (s : layer) (E : list (Z * Z)) (m : micro) : list (Z * Z) :=
  match m with
  | MTx => match accounted s with Some f => E ++ [(now s, zlen (f_data f) * 8)] | None => E end
  | _ => E
  end.

(** steps considered: the clock does not go backwards; reset() empties the limiter's memory and is excluded *)
Definition tick_ok (m : micro) : Prop := match m with MTick d => 0 <= d | MReset => False | _ => True end.

Theorem LW_mstep s E m : tick_ok m -> LW s E -> LW (fst (mstep c s m)) (gE s E m).
Proof.
  intros Htick HL. destruct m; cbn [mstep fst gE].
  - apply (LW_txv s); [apply check_timeouts_preserves_tx|exact HL].
  - destruct (pdu_decode (f_data f) (c_rx_prefix_size c)) as [d|] eqn:Ed.
    + destruct (d_pdu d) as [esc l data|esc len data|sn data|fs bs st] eqn:Ep.
      4: { rewrite (rx_fc_only_mailbox c s f d fs bs st Ed Ep). cbn [rr_s mk_rr]. revert HL. apply LW_same; reflexivity. }
      all: apply (LW_txv s); [|exact HL]; apply rx_data_preserves_tx; intros d' fs' bs' st' Hd'; rewrite Ed in Hd'; injection Hd' as <-; rewrite Ep; discriminate.
    + apply (LW_txv s); [|exact HL]. apply rx_data_preserves_tx. intros d' fs' bs' st' Hd'. rewrite Ed in Hd'. discriminate.
  - apply LW_update. exact HL.
  - apply (LW_LS s _ E (accounted s) (LS_process_tx s) HL). intros m _. apply zlen_nonneg.
  - revert HL. apply LW_same; unfold send; destruct (size <? 0); try reflexivity; destruct (_ <? size); try reflexivity;
      destruct (match match t with Some x => x | None => _ end with Functional => _ | Physical => _ end); reflexivity.
  - revert HL. apply LW_same; unfold recv; destruct (rx_queue s); reflexivity.
  - revert HL. apply LW_same; reflexivity.
  - revert HL. apply LW_same; reflexivity.
  - destruct Htick.
  - apply LW_tick; [exact Htick|exact HL].
Qed.


Fixpoint grunE (s : layer) (E : list (Z * Z)) (ms : list micro) : list (Z * Z) :=
  match ms with
  | [] => E
  | m :: rest => grunE (fst (mstep c s m)) (gE s E m) rest
  end.

Theorem LW_run : forall ms s E, Forall tick_ok ms -> LW s E -> LW (fst (mrun c s ms)) (grunE s E ms).
Proof.
  induction ms as [|m rest IH]; intros s E Hops HL; cbn [mrun grunE]; [exact HL|].
  inversion Hops as [|? ? Hm Hrest]; subst.
  pose proof (LW_mstep s E m Hm HL) as H1.
  destruct (mstep c s m) as [s1 e1]. cbn [fst] in *.
  specialize (IH s1 (gE s E m) Hrest H1). destruct (mrun c s1 rest) as [s2 e2]. exact IH.
Qed.

Lemma LW_init t0 : LW (init_layer c t0) [].
Proof. unfold LW. cbn. repeat split; try constructor. intros; lia. Qed.

(** The sliding window.  After any run from the initial state (no reset(), clock never set back), with
    [E] the log of the data frames emitted so far: for every instant [T] not earlier than window - 5 ms
    before now, the bits of the frames emitted after [T] are within bitrate x window (the exact rational
    bn/bd) plus one CAN FD frame. *)
Theorem sliding_window t0 ms : Forall tick_ok ms ->
  let s := fst (mrun c (init_layer c t0) ms) in
  let E := grunE (init_layer c t0) [] ms in
  forall T, now s - W + SLOT_NS <= T ->
    log_sum T E * p_lim_bd p <= p_lim_bn p + 8 * 64 * p_lim_bd p.
Proof.
  intros Hops. cbv zeta. intros T HT.
  destruct (LW_run ms (init_layer c t0) [] Hops (LW_init t0)) as (Hlen & Htot & Hnn & Hcov).
  pose proof (lim_bound_reachable c t0 ms Hok) as Hb. cbv zeta in Hb.
  specialize (Hcov T HT).
  pose proof (live_sum_le (T - SLOT_NS) (lim_times (fst (mrun c (init_layer c t0) ms))) _ Hnn) as Hle.
  pose proof Hok as (_ & _ & _ & _ & _ & _ & _ & _ & _ & _ & Hbd & _).
  set (L := log_sum T (grunE (init_layer c t0) [] ms)) in *.
  set (tot := lim_total (fst (mrun c (init_layer c t0) ms))) in *.
  assert (H1 : L <= tot) by lia.
  assert (H2 : L * p_lim_bd p <= tot * p_lim_bd p) by (apply Z.mul_le_mono_nonneg_r; lia).
  lia.
Qed.

End Win.
