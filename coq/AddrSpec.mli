open Types

val mode29 : amode -> bool
