open BinNums

type amode =
| Normal11
| Normal29
| NormalFixed29
| Extended11
| Extended29
| Mixed11
| Mixed29

type tat =
| Physical
| Functional

type addr = { a_mode : amode; a_txid : coq_Z option; a_rxid : coq_Z option;
              a_ta : coq_Z option; a_sa : coq_Z option; a_ae : coq_Z option;
              a_phys : coq_Z option; a_func : coq_Z option; a_rx_only : 
              bool; a_tx_only : bool }

type frame = { f_id : coq_Z; f_ext : bool; f_data : coq_Z list;
               f_dlc : coq_Z; f_fd : bool; f_brs : bool }

type errclass =
| FlowControlTimeout
| ConsecutiveFrameTimeout
| InvalidCanData
| UnexpectedFlowControl
| UnexpectedConsecutiveFrame
| InterruptedWithSF
| InterruptedWithFF
| WrongSequenceNumber
| UnsupportedWaitFrame
| MaximumWaitFrameReached
| FrameTooLong
| ChangingInvalidRXDL
| MissingEscapeSequence
| InvalidCanFdFirstFrameRXDL
| OverflowErr
| BadGenerator

type params = { p_stmin : coq_Z; p_blocksize : coq_Z;
                p_override_stmin_ns : coq_Z option; p_tbs_ns : coq_Z;
                p_tcr_ns : coq_Z; p_tx_padding : coq_Z option;
                p_wftmax : coq_Z; p_tx_dl : coq_Z;
                p_tx_min_len : coq_Z option; p_max_frame_size : coq_Z;
                p_can_fd : bool; p_brs : bool; p_default_tat : tat;
                p_lim_enable : bool; p_lim_bn : coq_Z; p_lim_bd : coq_Z;
                p_lim_window_ns : coq_Z; p_listen : bool }

type cfg = { c_p : params; c_txa : addr; c_rxa : addr }

type rxst =
| RxIdle
| RxWaitCF

type txst =
| TxIdle
| TxWaitFC
| TxTransmitCF
| TxSFStandby
| TxFFStandby

val rxst_eqb : rxst -> rxst -> bool

val txst_eqb : txst -> txst -> bool

type timer = { t_start : coq_Z option; t_timeout : coq_Z }

type gen = { g_items : coq_Z list; g_fill : coq_Z option }

type request = { r_id : coq_Z; r_gen : gen; r_size : coq_Z;
                 r_consumed : coq_Z; r_depleted : bool; r_tat : tat }

type fcpdu = { fc_status : coq_Z; fc_bs : coq_Z; fc_stmin : coq_Z }

type layer = { now : coq_Z; rx_state : rxst; rx_buffer : coq_Z list;
               rx_frame_length : coq_Z; last_seqnum : coq_Z;
               rx_block_counter : coq_Z; actual_rxdl : coq_Z option;
               pending_fc : bool; pending_fc_status : coq_Z option;
               timer_rx_cf : timer; rx_queue : coq_Z list list;
               tx_state : txst; tx_queue : request list;
               active : request option; tx_standby : frame option;
               last_fc : fcpdu option; remote_bs : coq_Z option;
               tx_block_counter : coq_Z; tx_seqnum : coq_Z;
               wft_counter : coq_Z; tx_frame_length : coq_Z;
               timer_rx_fc : timer; timer_tx_stmin : timer;
               lim_times : coq_Z list; lim_bits : coq_Z list;
               lim_total : coq_Z; next_req_id : coq_Z }

type event =
| ETx of frame
| EErr of errclass
| EDone of coq_Z * bool
| ECrash of coq_Z

val coq_FS_CTS : coq_Z

val coq_FS_WAIT : coq_Z

val coq_FS_OVFLW : coq_Z
