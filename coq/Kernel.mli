open BinInt
open BinNums
open Bool
open Datatypes
open List

val coq_SOL_CAN_ISOTP : coq_Z

val coq_CAN_ISOTP_OPTS : coq_Z

val coq_CAN_ISOTP_RECV_FC : coq_Z

val coq_CAN_ISOTP_TX_STMIN : coq_Z

val coq_CAN_ISOTP_LL_OPTS : coq_Z

val coq_F_EXTEND_ADDR : coq_Z

val coq_F_TX_PADDING : coq_Z

val coq_F_RX_PADDING : coq_Z

val coq_F_FORCE_TXSTMIN : coq_Z

val coq_F_RX_EXT_ADDR : coq_Z

val coq_CAN_EFF_FLAG : coq_Z

val coq_CAN_EFF_MASK : coq_Z

val coq_CAN_SFF_MASK : coq_Z

type kstate = { k_flags : coq_Z; k_txtime : coq_Z; k_ext : coq_Z;
                k_txpad : coq_Z; k_rxpad : coq_Z; k_rxext : coq_Z;
                k_bs : coq_Z; k_stmin : coq_Z; k_wft : coq_Z; k_mtu : 
                coq_Z; k_txdl : coq_Z; k_llflags : coq_Z; k_txstmin : 
                coq_Z; k_bound : (coq_Z * coq_Z) option }

val kinit : kstate

val u32_of : coq_Z list -> coq_Z

type sockcall =
| SetOpt of coq_Z * coq_Z * coq_Z list
| Bind of coq_Z * coq_Z

val kapply : kstate -> sockcall -> kstate

val kapply_all : kstate -> sockcall list -> kstate

val has_flag : coq_Z -> coq_Z -> bool

val kernel_tx_id : kstate -> (coq_Z * bool) option

val kernel_tx_prefix : kstate -> coq_Z list

val kernel_rx_byte : kstate -> coq_Z option

val kernel_accepts : kstate -> coq_Z -> bool -> coq_Z list -> bool
