open Address
open BinInt
open BinNums
open Bool
open Datatypes
open Kernel
open Types

type pyv =
| VNone
| VInt of coq_Z
| VOther

val chk : pyv -> coq_Z -> coq_Z option option

val le32 : coq_Z -> coq_Z list

val pack_opts :
  coq_Z -> coq_Z -> coq_Z -> coq_Z -> coq_Z -> coq_Z -> coq_Z list

val general_write :
  kstate -> pyv -> pyv -> pyv -> pyv -> pyv -> pyv -> pyv -> sockcall list
  option

val fc_write : kstate -> pyv -> pyv -> pyv -> sockcall list option

val ll_write : kstate -> pyv -> pyv -> pyv -> sockcall list option

type wsock = { w_k : kstate; w_bound : bool; w_closed : bool }

val wsock0 : wsock

type wres =
| ROk of sockcall list
| RValueError
| RRuntimeError

val apply_res : wsock -> sockcall list option -> wsock * wres

val w_set_opts :
  wsock -> pyv -> pyv -> pyv -> pyv -> pyv -> pyv -> pyv -> wsock * wres

val w_set_fc_opts : wsock -> pyv -> pyv -> pyv -> wsock * wres

val w_set_ll_opts : wsock -> pyv -> pyv -> pyv -> wsock * wres

val opt_pyv : coq_Z option -> pyv

val w_bind : wsock -> addr -> addr -> bool -> wsock * wres

val w_send : wsock -> wres

val w_recv : wsock -> wres

val w_close : wsock -> wsock
