open BinInt
open BinNums
open Bool
open Datatypes
open Prelude
open Types

val is29 : amode -> bool

val is_none : coq_Z option -> bool

val oget : coq_Z option -> coq_Z

val byte_ok : coq_Z option -> bool

val id_ok : bool -> coq_Z option -> bool

val addr_validate : addr -> bool

val phys_base : addr -> coq_Z

val func_base : addr -> coq_Z

val base_of : addr -> tat -> coq_Z

val tx_arb_id : addr -> tat -> coq_Z

val rx_arb_id : addr -> tat -> coq_Z

val tx_prefix : addr -> coq_Z list

val requires_ext_byte : addr -> bool

val rx_prefix_size : addr -> coq_Z

val tx_ext_byte : addr -> coq_Z option

val rx_ext_byte : addr -> coq_Z option

val first_byte_is : coq_Z list -> coq_Z option -> bool

val fixed_id_match : addr -> coq_Z -> bool

val is_for_me : addr -> frame -> bool

val c_tx_prefix : cfg -> coq_Z list

val c_rx_prefix_size : cfg -> coq_Z

val c_tx_id : cfg -> tat -> coq_Z

val c_tx_ext : cfg -> bool

val c_is_for_me : cfg -> frame -> bool
