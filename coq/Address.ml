open BinInt
open BinNums
open Bool
open Datatypes
open Prelude
open Types

(** val is29 : amode -> bool **)

let is29 = function
| Normal11 -> false
| Extended11 -> false
| Mixed11 -> false
| _ -> true

(** val is_none : coq_Z option -> bool **)

let is_none = function
| Some _ -> false
| None -> true

(** val oget : coq_Z option -> coq_Z **)

let oget = function
| Some x -> x
| None -> Z0

(** val byte_ok : coq_Z option -> bool **)

let byte_ok = function
| Some x ->
  (&&) (Z.leb Z0 x)
    (Z.leb x (Zpos (Coq_xI (Coq_xI (Coq_xI (Coq_xI (Coq_xI (Coq_xI (Coq_xI
      Coq_xH)))))))))
| None -> true

(** val id_ok : bool -> coq_Z option -> bool **)

let id_ok is29b = function
| Some x ->
  (&&) (Z.leb Z0 x)
    ((||) is29b
      (Z.leb x (Zpos (Coq_xI (Coq_xI (Coq_xI (Coq_xI (Coq_xI (Coq_xI (Coq_xI
        (Coq_xI (Coq_xI (Coq_xI Coq_xH)))))))))))))
| None -> true

(** val addr_validate : addr -> bool **)

let addr_validate a =
  if (&&) a.a_rx_only a.a_tx_only
  then false
  else let mode_ok =
         match a.a_mode with
         | Normal11 ->
           (&&)
             ((&&) (negb ((&&) (is_none a.a_rxid) (negb a.a_tx_only)))
               (negb ((&&) (is_none a.a_txid) (negb a.a_rx_only))))
             (negb (opt_eqb a.a_rxid a.a_txid))
         | Normal29 ->
           (&&)
             ((&&) (negb ((&&) (is_none a.a_rxid) (negb a.a_tx_only)))
               (negb ((&&) (is_none a.a_txid) (negb a.a_rx_only))))
             (negb (opt_eqb a.a_rxid a.a_txid))
         | NormalFixed29 -> negb ((||) (is_none a.a_ta) (is_none a.a_sa))
         | Mixed11 ->
           (&&)
             ((&&)
               ((&&) (negb (is_none a.a_ae))
                 (negb ((&&) (is_none a.a_rxid) (negb a.a_tx_only))))
               (negb ((&&) (is_none a.a_txid) (negb a.a_rx_only))))
             (negb (opt_eqb a.a_rxid a.a_txid))
         | Mixed29 ->
           negb
             ((||) ((||) (is_none a.a_ta) (is_none a.a_sa)) (is_none a.a_ae))
         | _ ->
           (&&)
             ((&&)
               ((||) a.a_rx_only
                 (negb ((||) (is_none a.a_ta) (is_none a.a_txid))))
               ((||) a.a_tx_only
                 (negb ((||) (is_none a.a_sa) (is_none a.a_rxid)))))
             (negb (opt_eqb a.a_rxid a.a_txid))
       in
       (&&)
         ((&&)
           ((&&) ((&&) ((&&) mode_ok (byte_ok a.a_ta)) (byte_ok a.a_sa))
             (byte_ok a.a_ae)) (id_ok (is29 a.a_mode) a.a_txid))
         (id_ok (is29 a.a_mode) a.a_rxid)

(** val phys_base : addr -> coq_Z **)

let phys_base a =
  match a.a_mode with
  | NormalFixed29 ->
    (match a.a_phys with
     | Some p ->
       Z.coq_land p (Zpos (Coq_xO (Coq_xO (Coq_xO (Coq_xO (Coq_xO (Coq_xO
         (Coq_xO (Coq_xO (Coq_xO (Coq_xO (Coq_xO (Coq_xO (Coq_xO (Coq_xO
         (Coq_xO (Coq_xO (Coq_xI (Coq_xI (Coq_xI (Coq_xI (Coq_xI (Coq_xI
         (Coq_xI (Coq_xI (Coq_xI (Coq_xI (Coq_xI (Coq_xI
         Coq_xH)))))))))))))))))))))))))))))
     | None ->
       Zpos (Coq_xO (Coq_xO (Coq_xO (Coq_xO (Coq_xO (Coq_xO (Coq_xO (Coq_xO
         (Coq_xO (Coq_xO (Coq_xO (Coq_xO (Coq_xO (Coq_xO (Coq_xO (Coq_xO
         (Coq_xO (Coq_xI (Coq_xO (Coq_xI (Coq_xI (Coq_xO (Coq_xI (Coq_xI
         (Coq_xO (Coq_xO (Coq_xO (Coq_xI Coq_xH)))))))))))))))))))))))))))))
  | Mixed29 ->
    (match a.a_phys with
     | Some p ->
       Z.coq_land p (Zpos (Coq_xO (Coq_xO (Coq_xO (Coq_xO (Coq_xO (Coq_xO
         (Coq_xO (Coq_xO (Coq_xO (Coq_xO (Coq_xO (Coq_xO (Coq_xO (Coq_xO
         (Coq_xO (Coq_xO (Coq_xI (Coq_xI (Coq_xI (Coq_xI (Coq_xI (Coq_xI
         (Coq_xI (Coq_xI (Coq_xI (Coq_xI (Coq_xI (Coq_xI
         Coq_xH)))))))))))))))))))))))))))))
     | None ->
       Zpos (Coq_xO (Coq_xO (Coq_xO (Coq_xO (Coq_xO (Coq_xO (Coq_xO (Coq_xO
         (Coq_xO (Coq_xO (Coq_xO (Coq_xO (Coq_xO (Coq_xO (Coq_xO (Coq_xO
         (Coq_xO (Coq_xI (Coq_xI (Coq_xI (Coq_xO (Coq_xO (Coq_xI (Coq_xI
         (Coq_xO (Coq_xO (Coq_xO (Coq_xI Coq_xH)))))))))))))))))))))))))))))
  | _ -> Z0

(** val func_base : addr -> coq_Z **)

let func_base a =
  match a.a_mode with
  | NormalFixed29 ->
    (match a.a_func with
     | Some p ->
       Z.coq_land p (Zpos (Coq_xO (Coq_xO (Coq_xO (Coq_xO (Coq_xO (Coq_xO
         (Coq_xO (Coq_xO (Coq_xO (Coq_xO (Coq_xO (Coq_xO (Coq_xO (Coq_xO
         (Coq_xO (Coq_xO (Coq_xI (Coq_xI (Coq_xI (Coq_xI (Coq_xI (Coq_xI
         (Coq_xI (Coq_xI (Coq_xI (Coq_xI (Coq_xI (Coq_xI
         Coq_xH)))))))))))))))))))))))))))))
     | None ->
       Zpos (Coq_xO (Coq_xO (Coq_xO (Coq_xO (Coq_xO (Coq_xO (Coq_xO (Coq_xO
         (Coq_xO (Coq_xO (Coq_xO (Coq_xO (Coq_xO (Coq_xO (Coq_xO (Coq_xO
         (Coq_xI (Coq_xI (Coq_xO (Coq_xI (Coq_xI (Coq_xO (Coq_xI (Coq_xI
         (Coq_xO (Coq_xO (Coq_xO (Coq_xI Coq_xH)))))))))))))))))))))))))))))
  | Mixed29 ->
    (match a.a_func with
     | Some p ->
       Z.coq_land p (Zpos (Coq_xO (Coq_xO (Coq_xO (Coq_xO (Coq_xO (Coq_xO
         (Coq_xO (Coq_xO (Coq_xO (Coq_xO (Coq_xO (Coq_xO (Coq_xO (Coq_xO
         (Coq_xO (Coq_xO (Coq_xI (Coq_xI (Coq_xI (Coq_xI (Coq_xI (Coq_xI
         (Coq_xI (Coq_xI (Coq_xI (Coq_xI (Coq_xI (Coq_xI
         Coq_xH)))))))))))))))))))))))))))))
     | None ->
       Zpos (Coq_xO (Coq_xO (Coq_xO (Coq_xO (Coq_xO (Coq_xO (Coq_xO (Coq_xO
         (Coq_xO (Coq_xO (Coq_xO (Coq_xO (Coq_xO (Coq_xO (Coq_xO (Coq_xO
         (Coq_xI (Coq_xO (Coq_xI (Coq_xI (Coq_xO (Coq_xO (Coq_xI (Coq_xI
         (Coq_xO (Coq_xO (Coq_xO (Coq_xI Coq_xH)))))))))))))))))))))))))))))
  | _ -> Z0

(** val base_of : addr -> tat -> coq_Z **)

let base_of a = function
| Physical -> phys_base a
| Functional -> func_base a

(** val tx_arb_id : addr -> tat -> coq_Z **)

let tx_arb_id a t =
  match a.a_mode with
  | NormalFixed29 ->
    Z.coq_lor
      (Z.coq_lor (base_of a t)
        (Z.shiftl (oget a.a_ta) (Zpos (Coq_xO (Coq_xO (Coq_xO Coq_xH))))))
      (oget a.a_sa)
  | Mixed29 ->
    Z.coq_lor
      (Z.coq_lor (base_of a t)
        (Z.shiftl (oget a.a_ta) (Zpos (Coq_xO (Coq_xO (Coq_xO Coq_xH))))))
      (oget a.a_sa)
  | _ -> oget a.a_txid

(** val rx_arb_id : addr -> tat -> coq_Z **)

let rx_arb_id a t =
  match a.a_mode with
  | NormalFixed29 ->
    Z.coq_lor
      (Z.coq_lor (base_of a t)
        (Z.shiftl (oget a.a_sa) (Zpos (Coq_xO (Coq_xO (Coq_xO Coq_xH))))))
      (oget a.a_ta)
  | Mixed29 ->
    Z.coq_lor
      (Z.coq_lor (base_of a t)
        (Z.shiftl (oget a.a_sa) (Zpos (Coq_xO (Coq_xO (Coq_xO Coq_xH))))))
      (oget a.a_ta)
  | _ -> oget a.a_rxid

(** val tx_prefix : addr -> coq_Z list **)

let tx_prefix a =
  match a.a_mode with
  | Extended11 -> (oget a.a_ta) :: []
  | Extended29 -> (oget a.a_ta) :: []
  | Mixed11 -> (oget a.a_ae) :: []
  | Mixed29 -> (oget a.a_ae) :: []
  | _ -> []

(** val requires_ext_byte : addr -> bool **)

let requires_ext_byte a =
  match a.a_mode with
  | Normal11 -> false
  | Normal29 -> false
  | NormalFixed29 -> false
  | _ -> true

(** val rx_prefix_size : addr -> coq_Z **)

let rx_prefix_size a =
  if requires_ext_byte a then Zpos Coq_xH else Z0

(** val tx_ext_byte : addr -> coq_Z option **)

let tx_ext_byte a =
  match a.a_mode with
  | Extended11 -> a.a_ta
  | Extended29 -> a.a_ta
  | Mixed11 -> a.a_ae
  | Mixed29 -> a.a_ae
  | _ -> None

(** val rx_ext_byte : addr -> coq_Z option **)

let rx_ext_byte a =
  match a.a_mode with
  | Extended11 -> a.a_sa
  | Extended29 -> a.a_sa
  | Mixed11 -> a.a_ae
  | Mixed29 -> a.a_ae
  | _ -> None

(** val first_byte_is : coq_Z list -> coq_Z option -> bool **)

let first_byte_is d o =
  match d with
  | [] -> false
  | b :: _ -> opt_eqb (Some b) o

(** val fixed_id_match : addr -> coq_Z -> bool **)

let fixed_id_match a id =
  (&&)
    ((&&)
      (let hi =
         Z.coq_land id (Zpos (Coq_xO (Coq_xO (Coq_xO (Coq_xO (Coq_xO (Coq_xO
           (Coq_xO (Coq_xO (Coq_xO (Coq_xO (Coq_xO (Coq_xO (Coq_xO (Coq_xO
           (Coq_xO (Coq_xO (Coq_xI (Coq_xI (Coq_xI (Coq_xI (Coq_xI (Coq_xI
           (Coq_xI (Coq_xI (Coq_xI (Coq_xI (Coq_xI (Coq_xI
           Coq_xH)))))))))))))))))))))))))))))
       in
       (||) (Z.eqb hi (phys_base a)) (Z.eqb hi (func_base a)))
      (opt_eqb (Some
        (Z.shiftr
          (Z.coq_land id (Zpos (Coq_xO (Coq_xO (Coq_xO (Coq_xO (Coq_xO
            (Coq_xO (Coq_xO (Coq_xO (Coq_xI (Coq_xI (Coq_xI (Coq_xI (Coq_xI
            (Coq_xI (Coq_xI Coq_xH))))))))))))))))) (Zpos (Coq_xO (Coq_xO
          (Coq_xO Coq_xH)))))) a.a_sa))
    (opt_eqb (Some
      (Z.coq_land id (Zpos (Coq_xI (Coq_xI (Coq_xI (Coq_xI (Coq_xI (Coq_xI
        (Coq_xI Coq_xH)))))))))) a.a_ta)

(** val is_for_me : addr -> frame -> bool **)

let is_for_me a f =
  if eqb (is29 a.a_mode) f.f_ext
  then (match a.a_mode with
        | Normal11 -> opt_eqb (Some f.f_id) a.a_rxid
        | Normal29 -> opt_eqb (Some f.f_id) a.a_rxid
        | NormalFixed29 -> fixed_id_match a f.f_id
        | Mixed11 ->
          (&&) (opt_eqb (Some f.f_id) a.a_rxid)
            (first_byte_is f.f_data a.a_ae)
        | Mixed29 ->
          (&&) (fixed_id_match a f.f_id) (first_byte_is f.f_data a.a_ae)
        | _ ->
          (&&) (opt_eqb (Some f.f_id) a.a_rxid)
            (first_byte_is f.f_data a.a_sa))
  else false

(** val c_tx_prefix : cfg -> coq_Z list **)

let c_tx_prefix c =
  tx_prefix c.c_txa

(** val c_rx_prefix_size : cfg -> coq_Z **)

let c_rx_prefix_size c =
  rx_prefix_size c.c_rxa

(** val c_tx_id : cfg -> tat -> coq_Z **)

let c_tx_id c t =
  tx_arb_id c.c_txa t

(** val c_tx_ext : cfg -> bool **)

let c_tx_ext c =
  is29 c.c_txa.a_mode

(** val c_is_for_me : cfg -> frame -> bool **)

let c_is_for_me c f =
  is_for_me c.c_rxa f
