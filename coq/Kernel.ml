open BinInt
open BinNums
open Bool
open Datatypes
open List

(** val coq_SOL_CAN_ISOTP : coq_Z **)

let coq_SOL_CAN_ISOTP =
  Zpos (Coq_xO (Coq_xI (Coq_xO (Coq_xI (Coq_xO (Coq_xI Coq_xH))))))

(** val coq_CAN_ISOTP_OPTS : coq_Z **)

let coq_CAN_ISOTP_OPTS =
  Zpos Coq_xH

(** val coq_CAN_ISOTP_RECV_FC : coq_Z **)

let coq_CAN_ISOTP_RECV_FC =
  Zpos (Coq_xO Coq_xH)

(** val coq_CAN_ISOTP_TX_STMIN : coq_Z **)

let coq_CAN_ISOTP_TX_STMIN =
  Zpos (Coq_xI Coq_xH)

(** val coq_CAN_ISOTP_LL_OPTS : coq_Z **)

let coq_CAN_ISOTP_LL_OPTS =
  Zpos (Coq_xI (Coq_xO Coq_xH))

(** val coq_F_EXTEND_ADDR : coq_Z **)

let coq_F_EXTEND_ADDR =
  Zpos (Coq_xO Coq_xH)

(** val coq_F_TX_PADDING : coq_Z **)

let coq_F_TX_PADDING =
  Zpos (Coq_xO (Coq_xO Coq_xH))

(** val coq_F_RX_PADDING : coq_Z **)

let coq_F_RX_PADDING =
  Zpos (Coq_xO (Coq_xO (Coq_xO Coq_xH)))

(** val coq_F_FORCE_TXSTMIN : coq_Z **)

let coq_F_FORCE_TXSTMIN =
  Zpos (Coq_xO (Coq_xO (Coq_xO (Coq_xO (Coq_xO (Coq_xO (Coq_xO Coq_xH)))))))

(** val coq_F_RX_EXT_ADDR : coq_Z **)

let coq_F_RX_EXT_ADDR =
  Zpos (Coq_xO (Coq_xO (Coq_xO (Coq_xO (Coq_xO (Coq_xO (Coq_xO (Coq_xO
    (Coq_xO Coq_xH)))))))))

(** val coq_CAN_EFF_FLAG : coq_Z **)

let coq_CAN_EFF_FLAG =
  Zpos (Coq_xO (Coq_xO (Coq_xO (Coq_xO (Coq_xO (Coq_xO (Coq_xO (Coq_xO
    (Coq_xO (Coq_xO (Coq_xO (Coq_xO (Coq_xO (Coq_xO (Coq_xO (Coq_xO (Coq_xO
    (Coq_xO (Coq_xO (Coq_xO (Coq_xO (Coq_xO (Coq_xO (Coq_xO (Coq_xO (Coq_xO
    (Coq_xO (Coq_xO (Coq_xO (Coq_xO (Coq_xO
    Coq_xH)))))))))))))))))))))))))))))))

(** val coq_CAN_EFF_MASK : coq_Z **)

let coq_CAN_EFF_MASK =
  Zpos (Coq_xI (Coq_xI (Coq_xI (Coq_xI (Coq_xI (Coq_xI (Coq_xI (Coq_xI
    (Coq_xI (Coq_xI (Coq_xI (Coq_xI (Coq_xI (Coq_xI (Coq_xI (Coq_xI (Coq_xI
    (Coq_xI (Coq_xI (Coq_xI (Coq_xI (Coq_xI (Coq_xI (Coq_xI (Coq_xI (Coq_xI
    (Coq_xI (Coq_xI Coq_xH))))))))))))))))))))))))))))

(** val coq_CAN_SFF_MASK : coq_Z **)

let coq_CAN_SFF_MASK =
  Zpos (Coq_xI (Coq_xI (Coq_xI (Coq_xI (Coq_xI (Coq_xI (Coq_xI (Coq_xI
    (Coq_xI (Coq_xI Coq_xH))))))))))

type kstate = { k_flags : coq_Z; k_txtime : coq_Z; k_ext : coq_Z;
                k_txpad : coq_Z; k_rxpad : coq_Z; k_rxext : coq_Z;
                k_bs : coq_Z; k_stmin : coq_Z; k_wft : coq_Z; k_mtu : 
                coq_Z; k_txdl : coq_Z; k_llflags : coq_Z; k_txstmin : 
                coq_Z; k_bound : (coq_Z * coq_Z) option }

(** val kinit : kstate **)

let kinit =
  { k_flags = Z0; k_txtime = (Zpos (Coq_xO (Coq_xO (Coq_xO (Coq_xO (Coq_xI
    (Coq_xO (Coq_xI (Coq_xO (Coq_xI (Coq_xI (Coq_xO (Coq_xO (Coq_xO (Coq_xO
    (Coq_xI Coq_xH)))))))))))))))); k_ext = Z0; k_txpad = (Zpos (Coq_xO
    (Coq_xO (Coq_xI (Coq_xI (Coq_xO (Coq_xO (Coq_xI Coq_xH)))))))); k_rxpad =
    (Zpos (Coq_xO (Coq_xO (Coq_xI (Coq_xI (Coq_xO (Coq_xO (Coq_xI
    Coq_xH)))))))); k_rxext = Z0; k_bs = Z0; k_stmin = Z0; k_wft = Z0;
    k_mtu = (Zpos (Coq_xO (Coq_xO (Coq_xO (Coq_xO Coq_xH))))); k_txdl = (Zpos
    (Coq_xO (Coq_xO (Coq_xO Coq_xH)))); k_llflags = Z0; k_txstmin = Z0;
    k_bound = None }

(** val u32_of : coq_Z list -> coq_Z **)

let u32_of = function
| [] -> Z0
| b0 :: l0 ->
  (match l0 with
   | [] -> Z0
   | b1 :: l1 ->
     (match l1 with
      | [] -> Z0
      | b2 :: l2 ->
        (match l2 with
         | [] -> Z0
         | b3 :: l3 ->
           (match l3 with
            | [] ->
              Z.add
                (Z.add
                  (Z.add b0
                    (Z.mul (Zpos (Coq_xO (Coq_xO (Coq_xO (Coq_xO (Coq_xO
                      (Coq_xO (Coq_xO (Coq_xO Coq_xH))))))))) b1))
                  (Z.mul (Zpos (Coq_xO (Coq_xO (Coq_xO (Coq_xO (Coq_xO
                    (Coq_xO (Coq_xO (Coq_xO (Coq_xO (Coq_xO (Coq_xO (Coq_xO
                    (Coq_xO (Coq_xO (Coq_xO (Coq_xO Coq_xH)))))))))))))))))
                    b2))
                (Z.mul (Zpos (Coq_xO (Coq_xO (Coq_xO (Coq_xO (Coq_xO (Coq_xO
                  (Coq_xO (Coq_xO (Coq_xO (Coq_xO (Coq_xO (Coq_xO (Coq_xO
                  (Coq_xO (Coq_xO (Coq_xO (Coq_xO (Coq_xO (Coq_xO (Coq_xO
                  (Coq_xO (Coq_xO (Coq_xO (Coq_xO
                  Coq_xH))))))))))))))))))))))))) b3)
            | _ :: _ -> Z0))))

type sockcall =
| SetOpt of coq_Z * coq_Z * coq_Z list
| Bind of coq_Z * coq_Z

(** val kapply : kstate -> sockcall -> kstate **)

let kapply k = function
| SetOpt (level, opt, bytes) ->
  if negb (Z.eqb level coq_SOL_CAN_ISOTP)
  then k
  else if Z.eqb opt coq_CAN_ISOTP_OPTS
       then (match bytes with
             | [] -> k
             | f0 :: l ->
               (match l with
                | [] -> k
                | f1 :: l0 ->
                  (match l0 with
                   | [] -> k
                   | f2 :: l1 ->
                     (match l1 with
                      | [] -> k
                      | f3 :: l2 ->
                        (match l2 with
                         | [] -> k
                         | t0 :: l3 ->
                           (match l3 with
                            | [] -> k
                            | t1 :: l4 ->
                              (match l4 with
                               | [] -> k
                               | t2 :: l5 ->
                                 (match l5 with
                                  | [] -> k
                                  | t3 :: l6 ->
                                    (match l6 with
                                     | [] -> k
                                     | ext :: l7 ->
                                       (match l7 with
                                        | [] -> k
                                        | txpad :: l8 ->
                                          (match l8 with
                                           | [] -> k
                                           | rxpad :: l9 ->
                                             (match l9 with
                                              | [] -> k
                                              | rxext :: l10 ->
                                                (match l10 with
                                                 | [] ->
                                                   { k_flags =
                                                     (u32_of
                                                       (f0 :: (f1 :: (f2 :: (f3 :: [])))));
                                                     k_txtime =
                                                     (u32_of
                                                       (t0 :: (t1 :: (t2 :: (t3 :: [])))));
                                                     k_ext = ext; k_txpad =
                                                     txpad; k_rxpad = rxpad;
                                                     k_rxext = rxext; k_bs =
                                                     k.k_bs; k_stmin =
                                                     k.k_stmin; k_wft =
                                                     k.k_wft; k_mtu =
                                                     k.k_mtu; k_txdl =
                                                     k.k_txdl; k_llflags =
                                                     k.k_llflags; k_txstmin =
                                                     k.k_txstmin; k_bound =
                                                     k.k_bound }
                                                 | _ :: _ -> k)))))))))))))
       else if Z.eqb opt coq_CAN_ISOTP_RECV_FC
            then (match bytes with
                  | [] -> k
                  | bs :: l ->
                    (match l with
                     | [] -> k
                     | st :: l0 ->
                       (match l0 with
                        | [] -> k
                        | wft :: l1 ->
                          (match l1 with
                           | [] ->
                             { k_flags = k.k_flags; k_txtime = k.k_txtime;
                               k_ext = k.k_ext; k_txpad = k.k_txpad;
                               k_rxpad = k.k_rxpad; k_rxext = k.k_rxext;
                               k_bs = bs; k_stmin = st; k_wft = wft; k_mtu =
                               k.k_mtu; k_txdl = k.k_txdl; k_llflags =
                               k.k_llflags; k_txstmin = k.k_txstmin;
                               k_bound = k.k_bound }
                           | _ :: _ -> k))))
            else if Z.eqb opt coq_CAN_ISOTP_TX_STMIN
                 then (match bytes with
                       | [] -> k
                       | b0 :: l ->
                         (match l with
                          | [] -> k
                          | b1 :: l0 ->
                            (match l0 with
                             | [] -> k
                             | b2 :: l1 ->
                               (match l1 with
                                | [] -> k
                                | b3 :: l2 ->
                                  (match l2 with
                                   | [] ->
                                     { k_flags = k.k_flags; k_txtime =
                                       k.k_txtime; k_ext = k.k_ext; k_txpad =
                                       k.k_txpad; k_rxpad = k.k_rxpad;
                                       k_rxext = k.k_rxext; k_bs = k.k_bs;
                                       k_stmin = k.k_stmin; k_wft = k.k_wft;
                                       k_mtu = k.k_mtu; k_txdl = k.k_txdl;
                                       k_llflags = k.k_llflags; k_txstmin =
                                       (u32_of
                                         (b0 :: (b1 :: (b2 :: (b3 :: [])))));
                                       k_bound = k.k_bound }
                                   | _ :: _ -> k)))))
                 else if Z.eqb opt coq_CAN_ISOTP_LL_OPTS
                      then (match bytes with
                            | [] -> k
                            | mtu :: l ->
                              (match l with
                               | [] -> k
                               | txdl :: l0 ->
                                 (match l0 with
                                  | [] -> k
                                  | fl :: l1 ->
                                    (match l1 with
                                     | [] ->
                                       { k_flags = k.k_flags; k_txtime =
                                         k.k_txtime; k_ext = k.k_ext;
                                         k_txpad = k.k_txpad; k_rxpad =
                                         k.k_rxpad; k_rxext = k.k_rxext;
                                         k_bs = k.k_bs; k_stmin = k.k_stmin;
                                         k_wft = k.k_wft; k_mtu = mtu;
                                         k_txdl = txdl; k_llflags = fl;
                                         k_txstmin = k.k_txstmin; k_bound =
                                         k.k_bound }
                                     | _ :: _ -> k))))
                      else k
| Bind (rxid, txid) ->
  { k_flags = k.k_flags; k_txtime = k.k_txtime; k_ext = k.k_ext; k_txpad =
    k.k_txpad; k_rxpad = k.k_rxpad; k_rxext = k.k_rxext; k_bs = k.k_bs;
    k_stmin = k.k_stmin; k_wft = k.k_wft; k_mtu = k.k_mtu; k_txdl = k.k_txdl;
    k_llflags = k.k_llflags; k_txstmin = k.k_txstmin; k_bound = (Some (rxid,
    txid)) }

(** val kapply_all : kstate -> sockcall list -> kstate **)

let kapply_all k calls =
  fold_left kapply calls k

(** val has_flag : coq_Z -> coq_Z -> bool **)

let has_flag flags f =
  negb (Z.eqb (Z.coq_land flags f) Z0)

(** val kernel_tx_id : kstate -> (coq_Z * bool) option **)

let kernel_tx_id k =
  match k.k_bound with
  | Some p ->
    let (_, tx) = p in
    Some
    ((if has_flag tx coq_CAN_EFF_FLAG
      then Z.coq_land tx coq_CAN_EFF_MASK
      else Z.coq_land tx coq_CAN_SFF_MASK), (has_flag tx coq_CAN_EFF_FLAG))
  | None -> None

(** val kernel_tx_prefix : kstate -> coq_Z list **)

let kernel_tx_prefix k =
  if has_flag k.k_flags coq_F_EXTEND_ADDR then k.k_ext :: [] else []

(** val kernel_rx_byte : kstate -> coq_Z option **)

let kernel_rx_byte k =
  if has_flag k.k_flags coq_F_EXTEND_ADDR
  then Some
         (if has_flag k.k_flags coq_F_RX_EXT_ADDR then k.k_rxext else k.k_ext)
  else None

(** val kernel_accepts : kstate -> coq_Z -> bool -> coq_Z list -> bool **)

let kernel_accepts k id ext data =
  match k.k_bound with
  | Some p ->
    let (rx, _) = p in
    (&&)
      ((&&) (eqb ext (has_flag rx coq_CAN_EFF_FLAG))
        (Z.eqb id
          (if has_flag rx coq_CAN_EFF_FLAG
           then Z.coq_land rx coq_CAN_EFF_MASK
           else Z.coq_land rx coq_CAN_SFF_MASK)))
      (match kernel_rx_byte k with
       | Some b -> (match data with
                    | [] -> false
                    | x :: _ -> Z.eqb x b)
       | None -> true)
  | None -> false
