open Address
open BinInt
open BinNums
open Bool
open Datatypes
open Kernel
open Types

type pyv =
| VNone
| VInt of coq_Z
| VOther

(** val chk : pyv -> coq_Z -> coq_Z option option **)

let chk v hi =
  match v with
  | VNone -> Some None
  | VInt z -> if (&&) (Z.leb Z0 z) (Z.leb z hi) then Some (Some z) else None
  | VOther -> None

(** val le32 : coq_Z -> coq_Z list **)

let le32 z =
  (Z.modulo z (Zpos (Coq_xO (Coq_xO (Coq_xO (Coq_xO (Coq_xO (Coq_xO (Coq_xO
    (Coq_xO Coq_xH)))))))))) :: ((Z.modulo
                                   (Z.div z (Zpos (Coq_xO (Coq_xO (Coq_xO
                                     (Coq_xO (Coq_xO (Coq_xO (Coq_xO (Coq_xO
                                     Coq_xH)))))))))) (Zpos (Coq_xO (Coq_xO
                                   (Coq_xO (Coq_xO (Coq_xO (Coq_xO (Coq_xO
                                   (Coq_xO Coq_xH)))))))))) :: ((Z.modulo
                                                                  (Z.div z
                                                                    (Zpos
                                                                    (Coq_xO
                                                                    (Coq_xO
                                                                    (Coq_xO
                                                                    (Coq_xO
                                                                    (Coq_xO
                                                                    (Coq_xO
                                                                    (Coq_xO
                                                                    (Coq_xO
                                                                    (Coq_xO
                                                                    (Coq_xO
                                                                    (Coq_xO
                                                                    (Coq_xO
                                                                    (Coq_xO
                                                                    (Coq_xO
                                                                    (Coq_xO
                                                                    (Coq_xO
                                                                    Coq_xH))))))))))))))))))
                                                                  (Zpos
                                                                  (Coq_xO
                                                                  (Coq_xO
                                                                  (Coq_xO
                                                                  (Coq_xO
                                                                  (Coq_xO
                                                                  (Coq_xO
                                                                  (Coq_xO
                                                                  (Coq_xO
                                                                  Coq_xH)))))))))) :: (
    (Z.modulo
      (Z.div z (Zpos (Coq_xO (Coq_xO (Coq_xO (Coq_xO (Coq_xO (Coq_xO (Coq_xO
        (Coq_xO (Coq_xO (Coq_xO (Coq_xO (Coq_xO (Coq_xO (Coq_xO (Coq_xO
        (Coq_xO (Coq_xO (Coq_xO (Coq_xO (Coq_xO (Coq_xO (Coq_xO (Coq_xO
        (Coq_xO Coq_xH)))))))))))))))))))))))))) (Zpos (Coq_xO (Coq_xO
      (Coq_xO (Coq_xO (Coq_xO (Coq_xO (Coq_xO (Coq_xO Coq_xH)))))))))) :: [])))

(** val pack_opts :
    coq_Z -> coq_Z -> coq_Z -> coq_Z -> coq_Z -> coq_Z -> coq_Z list **)

let pack_opts flags txtime ext txpad rxpad rxext =
  app (le32 flags)
    (app (le32 txtime) (ext :: (txpad :: (rxpad :: (rxext :: [])))))

(** val general_write :
    kstate -> pyv -> pyv -> pyv -> pyv -> pyv -> pyv -> pyv -> sockcall list
    option **)

let general_write k optflag frame_txtime ext txpad rxpad rxext txstmin =
  match chk optflag (Zpos (Coq_xI (Coq_xI (Coq_xI (Coq_xI (Coq_xI (Coq_xI
          (Coq_xI (Coq_xI (Coq_xI (Coq_xI (Coq_xI (Coq_xI (Coq_xI (Coq_xI
          (Coq_xI (Coq_xI (Coq_xI (Coq_xI (Coq_xI (Coq_xI (Coq_xI (Coq_xI
          (Coq_xI (Coq_xI (Coq_xI (Coq_xI (Coq_xI (Coq_xI (Coq_xI (Coq_xI
          (Coq_xI Coq_xH)))))))))))))))))))))))))))))))) with
  | Some oflag ->
    let flags = match oflag with
                | Some f -> f
                | None -> k.k_flags in
    (match chk frame_txtime (Zpos (Coq_xI (Coq_xI (Coq_xI (Coq_xI (Coq_xI
             (Coq_xI (Coq_xI (Coq_xI (Coq_xI (Coq_xI (Coq_xI (Coq_xI (Coq_xI
             (Coq_xI (Coq_xI (Coq_xI (Coq_xI (Coq_xI (Coq_xI (Coq_xI (Coq_xI
             (Coq_xI (Coq_xI (Coq_xI (Coq_xI (Coq_xI (Coq_xI (Coq_xI (Coq_xI
             (Coq_xI (Coq_xI Coq_xH)))))))))))))))))))))))))))))))) with
     | Some otx ->
       let txtime = match otx with
                    | Some t -> t
                    | None -> k.k_txtime in
       (match chk ext (Zpos (Coq_xI (Coq_xI (Coq_xI (Coq_xI (Coq_xI (Coq_xI
                (Coq_xI Coq_xH)))))))) with
        | Some oext ->
          (match oext with
           | Some e ->
             let flags0 = Z.coq_lor flags coq_F_EXTEND_ADDR in
             (match chk txpad (Zpos (Coq_xI (Coq_xI (Coq_xI (Coq_xI (Coq_xI
                      (Coq_xI (Coq_xI Coq_xH)))))))) with
              | Some otp ->
                (match otp with
                 | Some e0 ->
                   let flags1 = Z.coq_lor flags0 coq_F_TX_PADDING in
                   (match chk rxpad (Zpos (Coq_xI (Coq_xI (Coq_xI (Coq_xI
                            (Coq_xI (Coq_xI (Coq_xI Coq_xH)))))))) with
                    | Some orp ->
                      (match orp with
                       | Some e1 ->
                         let flags2 = Z.coq_lor flags1 coq_F_RX_PADDING in
                         (match chk rxext (Zpos (Coq_xI (Coq_xI (Coq_xI
                                  (Coq_xI (Coq_xI (Coq_xI (Coq_xI
                                  Coq_xH)))))))) with
                          | Some ore ->
                            (match ore with
                             | Some e2 ->
                               let flags3 = Z.coq_lor flags2 coq_F_RX_EXT_ADDR
                               in
                               (match chk txstmin (Zpos (Coq_xI (Coq_xI
                                        (Coq_xI (Coq_xI (Coq_xI (Coq_xI
                                        (Coq_xI (Coq_xI (Coq_xI (Coq_xI
                                        (Coq_xI (Coq_xI (Coq_xI (Coq_xI
                                        (Coq_xI (Coq_xI (Coq_xI (Coq_xI
                                        (Coq_xI (Coq_xI (Coq_xI (Coq_xI
                                        (Coq_xI (Coq_xI (Coq_xI (Coq_xI
                                        (Coq_xI (Coq_xI (Coq_xI (Coq_xI
                                        (Coq_xI
                                        Coq_xH)))))))))))))))))))))))))))))))) with
                                | Some ost ->
                                  (match ost with
                                   | Some v ->
                                     let pre = (SetOpt (coq_SOL_CAN_ISOTP,
                                       coq_CAN_ISOTP_TX_STMIN,
                                       (le32 v))) :: []
                                     in
                                     let flags4 =
                                       Z.coq_lor flags3 coq_F_FORCE_TXSTMIN
                                     in
                                     Some
                                     (app pre ((SetOpt (coq_SOL_CAN_ISOTP,
                                       coq_CAN_ISOTP_OPTS,
                                       (pack_opts flags4 txtime e e0 e1 e2))) :: []))
                                   | None ->
                                     let pre = [] in
                                     Some
                                     (app pre ((SetOpt (coq_SOL_CAN_ISOTP,
                                       coq_CAN_ISOTP_OPTS,
                                       (pack_opts flags3 txtime e e0 e1 e2))) :: [])))
                                | None -> None)
                             | None ->
                               let rxext' = k.k_rxext in
                               (match chk txstmin (Zpos (Coq_xI (Coq_xI
                                        (Coq_xI (Coq_xI (Coq_xI (Coq_xI
                                        (Coq_xI (Coq_xI (Coq_xI (Coq_xI
                                        (Coq_xI (Coq_xI (Coq_xI (Coq_xI
                                        (Coq_xI (Coq_xI (Coq_xI (Coq_xI
                                        (Coq_xI (Coq_xI (Coq_xI (Coq_xI
                                        (Coq_xI (Coq_xI (Coq_xI (Coq_xI
                                        (Coq_xI (Coq_xI (Coq_xI (Coq_xI
                                        (Coq_xI
                                        Coq_xH)))))))))))))))))))))))))))))))) with
                                | Some ost ->
                                  (match ost with
                                   | Some v ->
                                     let pre = (SetOpt (coq_SOL_CAN_ISOTP,
                                       coq_CAN_ISOTP_TX_STMIN,
                                       (le32 v))) :: []
                                     in
                                     let flags3 =
                                       Z.coq_lor flags2 coq_F_FORCE_TXSTMIN
                                     in
                                     Some
                                     (app pre ((SetOpt (coq_SOL_CAN_ISOTP,
                                       coq_CAN_ISOTP_OPTS,
                                       (pack_opts flags3 txtime e e0 e1
                                         rxext'))) :: []))
                                   | None ->
                                     let pre = [] in
                                     Some
                                     (app pre ((SetOpt (coq_SOL_CAN_ISOTP,
                                       coq_CAN_ISOTP_OPTS,
                                       (pack_opts flags2 txtime e e0 e1
                                         rxext'))) :: [])))
                                | None -> None))
                          | None -> None)
                       | None ->
                         let rxpad' = k.k_rxpad in
                         (match chk rxext (Zpos (Coq_xI (Coq_xI (Coq_xI
                                  (Coq_xI (Coq_xI (Coq_xI (Coq_xI
                                  Coq_xH)))))))) with
                          | Some ore ->
                            (match ore with
                             | Some e1 ->
                               let flags2 = Z.coq_lor flags1 coq_F_RX_EXT_ADDR
                               in
                               (match chk txstmin (Zpos (Coq_xI (Coq_xI
                                        (Coq_xI (Coq_xI (Coq_xI (Coq_xI
                                        (Coq_xI (Coq_xI (Coq_xI (Coq_xI
                                        (Coq_xI (Coq_xI (Coq_xI (Coq_xI
                                        (Coq_xI (Coq_xI (Coq_xI (Coq_xI
                                        (Coq_xI (Coq_xI (Coq_xI (Coq_xI
                                        (Coq_xI (Coq_xI (Coq_xI (Coq_xI
                                        (Coq_xI (Coq_xI (Coq_xI (Coq_xI
                                        (Coq_xI
                                        Coq_xH)))))))))))))))))))))))))))))))) with
                                | Some ost ->
                                  (match ost with
                                   | Some v ->
                                     let pre = (SetOpt (coq_SOL_CAN_ISOTP,
                                       coq_CAN_ISOTP_TX_STMIN,
                                       (le32 v))) :: []
                                     in
                                     let flags3 =
                                       Z.coq_lor flags2 coq_F_FORCE_TXSTMIN
                                     in
                                     Some
                                     (app pre ((SetOpt (coq_SOL_CAN_ISOTP,
                                       coq_CAN_ISOTP_OPTS,
                                       (pack_opts flags3 txtime e e0 rxpad'
                                         e1))) :: []))
                                   | None ->
                                     let pre = [] in
                                     Some
                                     (app pre ((SetOpt (coq_SOL_CAN_ISOTP,
                                       coq_CAN_ISOTP_OPTS,
                                       (pack_opts flags2 txtime e e0 rxpad'
                                         e1))) :: [])))
                                | None -> None)
                             | None ->
                               let rxext' = k.k_rxext in
                               (match chk txstmin (Zpos (Coq_xI (Coq_xI
                                        (Coq_xI (Coq_xI (Coq_xI (Coq_xI
                                        (Coq_xI (Coq_xI (Coq_xI (Coq_xI
                                        (Coq_xI (Coq_xI (Coq_xI (Coq_xI
                                        (Coq_xI (Coq_xI (Coq_xI (Coq_xI
                                        (Coq_xI (Coq_xI (Coq_xI (Coq_xI
                                        (Coq_xI (Coq_xI (Coq_xI (Coq_xI
                                        (Coq_xI (Coq_xI (Coq_xI (Coq_xI
                                        (Coq_xI
                                        Coq_xH)))))))))))))))))))))))))))))))) with
                                | Some ost ->
                                  (match ost with
                                   | Some v ->
                                     let pre = (SetOpt (coq_SOL_CAN_ISOTP,
                                       coq_CAN_ISOTP_TX_STMIN,
                                       (le32 v))) :: []
                                     in
                                     let flags2 =
                                       Z.coq_lor flags1 coq_F_FORCE_TXSTMIN
                                     in
                                     Some
                                     (app pre ((SetOpt (coq_SOL_CAN_ISOTP,
                                       coq_CAN_ISOTP_OPTS,
                                       (pack_opts flags2 txtime e e0 rxpad'
                                         rxext'))) :: []))
                                   | None ->
                                     let pre = [] in
                                     Some
                                     (app pre ((SetOpt (coq_SOL_CAN_ISOTP,
                                       coq_CAN_ISOTP_OPTS,
                                       (pack_opts flags1 txtime e e0 rxpad'
                                         rxext'))) :: [])))
                                | None -> None))
                          | None -> None))
                    | None -> None)
                 | None ->
                   let txpad' = k.k_txpad in
                   (match chk rxpad (Zpos (Coq_xI (Coq_xI (Coq_xI (Coq_xI
                            (Coq_xI (Coq_xI (Coq_xI Coq_xH)))))))) with
                    | Some orp ->
                      (match orp with
                       | Some e0 ->
                         let flags1 = Z.coq_lor flags0 coq_F_RX_PADDING in
                         (match chk rxext (Zpos (Coq_xI (Coq_xI (Coq_xI
                                  (Coq_xI (Coq_xI (Coq_xI (Coq_xI
                                  Coq_xH)))))))) with
                          | Some ore ->
                            (match ore with
                             | Some e1 ->
                               let flags2 = Z.coq_lor flags1 coq_F_RX_EXT_ADDR
                               in
                               (match chk txstmin (Zpos (Coq_xI (Coq_xI
                                        (Coq_xI (Coq_xI (Coq_xI (Coq_xI
                                        (Coq_xI (Coq_xI (Coq_xI (Coq_xI
                                        (Coq_xI (Coq_xI (Coq_xI (Coq_xI
                                        (Coq_xI (Coq_xI (Coq_xI (Coq_xI
                                        (Coq_xI (Coq_xI (Coq_xI (Coq_xI
                                        (Coq_xI (Coq_xI (Coq_xI (Coq_xI
                                        (Coq_xI (Coq_xI (Coq_xI (Coq_xI
                                        (Coq_xI
                                        Coq_xH)))))))))))))))))))))))))))))))) with
                                | Some ost ->
                                  (match ost with
                                   | Some v ->
                                     let pre = (SetOpt (coq_SOL_CAN_ISOTP,
                                       coq_CAN_ISOTP_TX_STMIN,
                                       (le32 v))) :: []
                                     in
                                     let flags3 =
                                       Z.coq_lor flags2 coq_F_FORCE_TXSTMIN
                                     in
                                     Some
                                     (app pre ((SetOpt (coq_SOL_CAN_ISOTP,
                                       coq_CAN_ISOTP_OPTS,
                                       (pack_opts flags3 txtime e txpad' e0
                                         e1))) :: []))
                                   | None ->
                                     let pre = [] in
                                     Some
                                     (app pre ((SetOpt (coq_SOL_CAN_ISOTP,
                                       coq_CAN_ISOTP_OPTS,
                                       (pack_opts flags2 txtime e txpad' e0
                                         e1))) :: [])))
                                | None -> None)
                             | None ->
                               let rxext' = k.k_rxext in
                               (match chk txstmin (Zpos (Coq_xI (Coq_xI
                                        (Coq_xI (Coq_xI (Coq_xI (Coq_xI
                                        (Coq_xI (Coq_xI (Coq_xI (Coq_xI
                                        (Coq_xI (Coq_xI (Coq_xI (Coq_xI
                                        (Coq_xI (Coq_xI (Coq_xI (Coq_xI
                                        (Coq_xI (Coq_xI (Coq_xI (Coq_xI
                                        (Coq_xI (Coq_xI (Coq_xI (Coq_xI
                                        (Coq_xI (Coq_xI (Coq_xI (Coq_xI
                                        (Coq_xI
                                        Coq_xH)))))))))))))))))))))))))))))))) with
                                | Some ost ->
                                  (match ost with
                                   | Some v ->
                                     let pre = (SetOpt (coq_SOL_CAN_ISOTP,
                                       coq_CAN_ISOTP_TX_STMIN,
                                       (le32 v))) :: []
                                     in
                                     let flags2 =
                                       Z.coq_lor flags1 coq_F_FORCE_TXSTMIN
                                     in
                                     Some
                                     (app pre ((SetOpt (coq_SOL_CAN_ISOTP,
                                       coq_CAN_ISOTP_OPTS,
                                       (pack_opts flags2 txtime e txpad' e0
                                         rxext'))) :: []))
                                   | None ->
                                     let pre = [] in
                                     Some
                                     (app pre ((SetOpt (coq_SOL_CAN_ISOTP,
                                       coq_CAN_ISOTP_OPTS,
                                       (pack_opts flags1 txtime e txpad' e0
                                         rxext'))) :: [])))
                                | None -> None))
                          | None -> None)
                       | None ->
                         let rxpad' = k.k_rxpad in
                         (match chk rxext (Zpos (Coq_xI (Coq_xI (Coq_xI
                                  (Coq_xI (Coq_xI (Coq_xI (Coq_xI
                                  Coq_xH)))))))) with
                          | Some ore ->
                            (match ore with
                             | Some e0 ->
                               let flags1 = Z.coq_lor flags0 coq_F_RX_EXT_ADDR
                               in
                               (match chk txstmin (Zpos (Coq_xI (Coq_xI
                                        (Coq_xI (Coq_xI (Coq_xI (Coq_xI
                                        (Coq_xI (Coq_xI (Coq_xI (Coq_xI
                                        (Coq_xI (Coq_xI (Coq_xI (Coq_xI
                                        (Coq_xI (Coq_xI (Coq_xI (Coq_xI
                                        (Coq_xI (Coq_xI (Coq_xI (Coq_xI
                                        (Coq_xI (Coq_xI (Coq_xI (Coq_xI
                                        (Coq_xI (Coq_xI (Coq_xI (Coq_xI
                                        (Coq_xI
                                        Coq_xH)))))))))))))))))))))))))))))))) with
                                | Some ost ->
                                  (match ost with
                                   | Some v ->
                                     let pre = (SetOpt (coq_SOL_CAN_ISOTP,
                                       coq_CAN_ISOTP_TX_STMIN,
                                       (le32 v))) :: []
                                     in
                                     let flags2 =
                                       Z.coq_lor flags1 coq_F_FORCE_TXSTMIN
                                     in
                                     Some
                                     (app pre ((SetOpt (coq_SOL_CAN_ISOTP,
                                       coq_CAN_ISOTP_OPTS,
                                       (pack_opts flags2 txtime e txpad'
                                         rxpad' e0))) :: []))
                                   | None ->
                                     let pre = [] in
                                     Some
                                     (app pre ((SetOpt (coq_SOL_CAN_ISOTP,
                                       coq_CAN_ISOTP_OPTS,
                                       (pack_opts flags1 txtime e txpad'
                                         rxpad' e0))) :: [])))
                                | None -> None)
                             | None ->
                               let rxext' = k.k_rxext in
                               (match chk txstmin (Zpos (Coq_xI (Coq_xI
                                        (Coq_xI (Coq_xI (Coq_xI (Coq_xI
                                        (Coq_xI (Coq_xI (Coq_xI (Coq_xI
                                        (Coq_xI (Coq_xI (Coq_xI (Coq_xI
                                        (Coq_xI (Coq_xI (Coq_xI (Coq_xI
                                        (Coq_xI (Coq_xI (Coq_xI (Coq_xI
                                        (Coq_xI (Coq_xI (Coq_xI (Coq_xI
                                        (Coq_xI (Coq_xI (Coq_xI (Coq_xI
                                        (Coq_xI
                                        Coq_xH)))))))))))))))))))))))))))))))) with
                                | Some ost ->
                                  (match ost with
                                   | Some v ->
                                     let pre = (SetOpt (coq_SOL_CAN_ISOTP,
                                       coq_CAN_ISOTP_TX_STMIN,
                                       (le32 v))) :: []
                                     in
                                     let flags1 =
                                       Z.coq_lor flags0 coq_F_FORCE_TXSTMIN
                                     in
                                     Some
                                     (app pre ((SetOpt (coq_SOL_CAN_ISOTP,
                                       coq_CAN_ISOTP_OPTS,
                                       (pack_opts flags1 txtime e txpad'
                                         rxpad' rxext'))) :: []))
                                   | None ->
                                     let pre = [] in
                                     Some
                                     (app pre ((SetOpt (coq_SOL_CAN_ISOTP,
                                       coq_CAN_ISOTP_OPTS,
                                       (pack_opts flags0 txtime e txpad'
                                         rxpad' rxext'))) :: [])))
                                | None -> None))
                          | None -> None))
                    | None -> None))
              | None -> None)
           | None ->
             let ext' = k.k_ext in
             (match chk txpad (Zpos (Coq_xI (Coq_xI (Coq_xI (Coq_xI (Coq_xI
                      (Coq_xI (Coq_xI Coq_xH)))))))) with
              | Some otp ->
                (match otp with
                 | Some e ->
                   let flags0 = Z.coq_lor flags coq_F_TX_PADDING in
                   (match chk rxpad (Zpos (Coq_xI (Coq_xI (Coq_xI (Coq_xI
                            (Coq_xI (Coq_xI (Coq_xI Coq_xH)))))))) with
                    | Some orp ->
                      (match orp with
                       | Some e0 ->
                         let flags1 = Z.coq_lor flags0 coq_F_RX_PADDING in
                         (match chk rxext (Zpos (Coq_xI (Coq_xI (Coq_xI
                                  (Coq_xI (Coq_xI (Coq_xI (Coq_xI
                                  Coq_xH)))))))) with
                          | Some ore ->
                            (match ore with
                             | Some e1 ->
                               let flags2 = Z.coq_lor flags1 coq_F_RX_EXT_ADDR
                               in
                               (match chk txstmin (Zpos (Coq_xI (Coq_xI
                                        (Coq_xI (Coq_xI (Coq_xI (Coq_xI
                                        (Coq_xI (Coq_xI (Coq_xI (Coq_xI
                                        (Coq_xI (Coq_xI (Coq_xI (Coq_xI
                                        (Coq_xI (Coq_xI (Coq_xI (Coq_xI
                                        (Coq_xI (Coq_xI (Coq_xI (Coq_xI
                                        (Coq_xI (Coq_xI (Coq_xI (Coq_xI
                                        (Coq_xI (Coq_xI (Coq_xI (Coq_xI
                                        (Coq_xI
                                        Coq_xH)))))))))))))))))))))))))))))))) with
                                | Some ost ->
                                  (match ost with
                                   | Some v ->
                                     let pre = (SetOpt (coq_SOL_CAN_ISOTP,
                                       coq_CAN_ISOTP_TX_STMIN,
                                       (le32 v))) :: []
                                     in
                                     let flags3 =
                                       Z.coq_lor flags2 coq_F_FORCE_TXSTMIN
                                     in
                                     Some
                                     (app pre ((SetOpt (coq_SOL_CAN_ISOTP,
                                       coq_CAN_ISOTP_OPTS,
                                       (pack_opts flags3 txtime ext' e e0 e1))) :: []))
                                   | None ->
                                     let pre = [] in
                                     Some
                                     (app pre ((SetOpt (coq_SOL_CAN_ISOTP,
                                       coq_CAN_ISOTP_OPTS,
                                       (pack_opts flags2 txtime ext' e e0 e1))) :: [])))
                                | None -> None)
                             | None ->
                               let rxext' = k.k_rxext in
                               (match chk txstmin (Zpos (Coq_xI (Coq_xI
                                        (Coq_xI (Coq_xI (Coq_xI (Coq_xI
                                        (Coq_xI (Coq_xI (Coq_xI (Coq_xI
                                        (Coq_xI (Coq_xI (Coq_xI (Coq_xI
                                        (Coq_xI (Coq_xI (Coq_xI (Coq_xI
                                        (Coq_xI (Coq_xI (Coq_xI (Coq_xI
                                        (Coq_xI (Coq_xI (Coq_xI (Coq_xI
                                        (Coq_xI (Coq_xI (Coq_xI (Coq_xI
                                        (Coq_xI
                                        Coq_xH)))))))))))))))))))))))))))))))) with
                                | Some ost ->
                                  (match ost with
                                   | Some v ->
                                     let pre = (SetOpt (coq_SOL_CAN_ISOTP,
                                       coq_CAN_ISOTP_TX_STMIN,
                                       (le32 v))) :: []
                                     in
                                     let flags2 =
                                       Z.coq_lor flags1 coq_F_FORCE_TXSTMIN
                                     in
                                     Some
                                     (app pre ((SetOpt (coq_SOL_CAN_ISOTP,
                                       coq_CAN_ISOTP_OPTS,
                                       (pack_opts flags2 txtime ext' e e0
                                         rxext'))) :: []))
                                   | None ->
                                     let pre = [] in
                                     Some
                                     (app pre ((SetOpt (coq_SOL_CAN_ISOTP,
                                       coq_CAN_ISOTP_OPTS,
                                       (pack_opts flags1 txtime ext' e e0
                                         rxext'))) :: [])))
                                | None -> None))
                          | None -> None)
                       | None ->
                         let rxpad' = k.k_rxpad in
                         (match chk rxext (Zpos (Coq_xI (Coq_xI (Coq_xI
                                  (Coq_xI (Coq_xI (Coq_xI (Coq_xI
                                  Coq_xH)))))))) with
                          | Some ore ->
                            (match ore with
                             | Some e0 ->
                               let flags1 = Z.coq_lor flags0 coq_F_RX_EXT_ADDR
                               in
                               (match chk txstmin (Zpos (Coq_xI (Coq_xI
                                        (Coq_xI (Coq_xI (Coq_xI (Coq_xI
                                        (Coq_xI (Coq_xI (Coq_xI (Coq_xI
                                        (Coq_xI (Coq_xI (Coq_xI (Coq_xI
                                        (Coq_xI (Coq_xI (Coq_xI (Coq_xI
                                        (Coq_xI (Coq_xI (Coq_xI (Coq_xI
                                        (Coq_xI (Coq_xI (Coq_xI (Coq_xI
                                        (Coq_xI (Coq_xI (Coq_xI (Coq_xI
                                        (Coq_xI
                                        Coq_xH)))))))))))))))))))))))))))))))) with
                                | Some ost ->
                                  (match ost with
                                   | Some v ->
                                     let pre = (SetOpt (coq_SOL_CAN_ISOTP,
                                       coq_CAN_ISOTP_TX_STMIN,
                                       (le32 v))) :: []
                                     in
                                     let flags2 =
                                       Z.coq_lor flags1 coq_F_FORCE_TXSTMIN
                                     in
                                     Some
                                     (app pre ((SetOpt (coq_SOL_CAN_ISOTP,
                                       coq_CAN_ISOTP_OPTS,
                                       (pack_opts flags2 txtime ext' e rxpad'
                                         e0))) :: []))
                                   | None ->
                                     let pre = [] in
                                     Some
                                     (app pre ((SetOpt (coq_SOL_CAN_ISOTP,
                                       coq_CAN_ISOTP_OPTS,
                                       (pack_opts flags1 txtime ext' e rxpad'
                                         e0))) :: [])))
                                | None -> None)
                             | None ->
                               let rxext' = k.k_rxext in
                               (match chk txstmin (Zpos (Coq_xI (Coq_xI
                                        (Coq_xI (Coq_xI (Coq_xI (Coq_xI
                                        (Coq_xI (Coq_xI (Coq_xI (Coq_xI
                                        (Coq_xI (Coq_xI (Coq_xI (Coq_xI
                                        (Coq_xI (Coq_xI (Coq_xI (Coq_xI
                                        (Coq_xI (Coq_xI (Coq_xI (Coq_xI
                                        (Coq_xI (Coq_xI (Coq_xI (Coq_xI
                                        (Coq_xI (Coq_xI (Coq_xI (Coq_xI
                                        (Coq_xI
                                        Coq_xH)))))))))))))))))))))))))))))))) with
                                | Some ost ->
                                  (match ost with
                                   | Some v ->
                                     let pre = (SetOpt (coq_SOL_CAN_ISOTP,
                                       coq_CAN_ISOTP_TX_STMIN,
                                       (le32 v))) :: []
                                     in
                                     let flags1 =
                                       Z.coq_lor flags0 coq_F_FORCE_TXSTMIN
                                     in
                                     Some
                                     (app pre ((SetOpt (coq_SOL_CAN_ISOTP,
                                       coq_CAN_ISOTP_OPTS,
                                       (pack_opts flags1 txtime ext' e rxpad'
                                         rxext'))) :: []))
                                   | None ->
                                     let pre = [] in
                                     Some
                                     (app pre ((SetOpt (coq_SOL_CAN_ISOTP,
                                       coq_CAN_ISOTP_OPTS,
                                       (pack_opts flags0 txtime ext' e rxpad'
                                         rxext'))) :: [])))
                                | None -> None))
                          | None -> None))
                    | None -> None)
                 | None ->
                   let txpad' = k.k_txpad in
                   (match chk rxpad (Zpos (Coq_xI (Coq_xI (Coq_xI (Coq_xI
                            (Coq_xI (Coq_xI (Coq_xI Coq_xH)))))))) with
                    | Some orp ->
                      (match orp with
                       | Some e ->
                         let flags0 = Z.coq_lor flags coq_F_RX_PADDING in
                         (match chk rxext (Zpos (Coq_xI (Coq_xI (Coq_xI
                                  (Coq_xI (Coq_xI (Coq_xI (Coq_xI
                                  Coq_xH)))))))) with
                          | Some ore ->
                            (match ore with
                             | Some e0 ->
                               let flags1 = Z.coq_lor flags0 coq_F_RX_EXT_ADDR
                               in
                               (match chk txstmin (Zpos (Coq_xI (Coq_xI
                                        (Coq_xI (Coq_xI (Coq_xI (Coq_xI
                                        (Coq_xI (Coq_xI (Coq_xI (Coq_xI
                                        (Coq_xI (Coq_xI (Coq_xI (Coq_xI
                                        (Coq_xI (Coq_xI (Coq_xI (Coq_xI
                                        (Coq_xI (Coq_xI (Coq_xI (Coq_xI
                                        (Coq_xI (Coq_xI (Coq_xI (Coq_xI
                                        (Coq_xI (Coq_xI (Coq_xI (Coq_xI
                                        (Coq_xI
                                        Coq_xH)))))))))))))))))))))))))))))))) with
                                | Some ost ->
                                  (match ost with
                                   | Some v ->
                                     let pre = (SetOpt (coq_SOL_CAN_ISOTP,
                                       coq_CAN_ISOTP_TX_STMIN,
                                       (le32 v))) :: []
                                     in
                                     let flags2 =
                                       Z.coq_lor flags1 coq_F_FORCE_TXSTMIN
                                     in
                                     Some
                                     (app pre ((SetOpt (coq_SOL_CAN_ISOTP,
                                       coq_CAN_ISOTP_OPTS,
                                       (pack_opts flags2 txtime ext' txpad' e
                                         e0))) :: []))
                                   | None ->
                                     let pre = [] in
                                     Some
                                     (app pre ((SetOpt (coq_SOL_CAN_ISOTP,
                                       coq_CAN_ISOTP_OPTS,
                                       (pack_opts flags1 txtime ext' txpad' e
                                         e0))) :: [])))
                                | None -> None)
                             | None ->
                               let rxext' = k.k_rxext in
                               (match chk txstmin (Zpos (Coq_xI (Coq_xI
                                        (Coq_xI (Coq_xI (Coq_xI (Coq_xI
                                        (Coq_xI (Coq_xI (Coq_xI (Coq_xI
                                        (Coq_xI (Coq_xI (Coq_xI (Coq_xI
                                        (Coq_xI (Coq_xI (Coq_xI (Coq_xI
                                        (Coq_xI (Coq_xI (Coq_xI (Coq_xI
                                        (Coq_xI (Coq_xI (Coq_xI (Coq_xI
                                        (Coq_xI (Coq_xI (Coq_xI (Coq_xI
                                        (Coq_xI
                                        Coq_xH)))))))))))))))))))))))))))))))) with
                                | Some ost ->
                                  (match ost with
                                   | Some v ->
                                     let pre = (SetOpt (coq_SOL_CAN_ISOTP,
                                       coq_CAN_ISOTP_TX_STMIN,
                                       (le32 v))) :: []
                                     in
                                     let flags1 =
                                       Z.coq_lor flags0 coq_F_FORCE_TXSTMIN
                                     in
                                     Some
                                     (app pre ((SetOpt (coq_SOL_CAN_ISOTP,
                                       coq_CAN_ISOTP_OPTS,
                                       (pack_opts flags1 txtime ext' txpad' e
                                         rxext'))) :: []))
                                   | None ->
                                     let pre = [] in
                                     Some
                                     (app pre ((SetOpt (coq_SOL_CAN_ISOTP,
                                       coq_CAN_ISOTP_OPTS,
                                       (pack_opts flags0 txtime ext' txpad' e
                                         rxext'))) :: [])))
                                | None -> None))
                          | None -> None)
                       | None ->
                         let rxpad' = k.k_rxpad in
                         (match chk rxext (Zpos (Coq_xI (Coq_xI (Coq_xI
                                  (Coq_xI (Coq_xI (Coq_xI (Coq_xI
                                  Coq_xH)))))))) with
                          | Some ore ->
                            (match ore with
                             | Some e ->
                               let flags0 = Z.coq_lor flags coq_F_RX_EXT_ADDR
                               in
                               (match chk txstmin (Zpos (Coq_xI (Coq_xI
                                        (Coq_xI (Coq_xI (Coq_xI (Coq_xI
                                        (Coq_xI (Coq_xI (Coq_xI (Coq_xI
                                        (Coq_xI (Coq_xI (Coq_xI (Coq_xI
                                        (Coq_xI (Coq_xI (Coq_xI (Coq_xI
                                        (Coq_xI (Coq_xI (Coq_xI (Coq_xI
                                        (Coq_xI (Coq_xI (Coq_xI (Coq_xI
                                        (Coq_xI (Coq_xI (Coq_xI (Coq_xI
                                        (Coq_xI
                                        Coq_xH)))))))))))))))))))))))))))))))) with
                                | Some ost ->
                                  (match ost with
                                   | Some v ->
                                     let pre = (SetOpt (coq_SOL_CAN_ISOTP,
                                       coq_CAN_ISOTP_TX_STMIN,
                                       (le32 v))) :: []
                                     in
                                     let flags1 =
                                       Z.coq_lor flags0 coq_F_FORCE_TXSTMIN
                                     in
                                     Some
                                     (app pre ((SetOpt (coq_SOL_CAN_ISOTP,
                                       coq_CAN_ISOTP_OPTS,
                                       (pack_opts flags1 txtime ext' txpad'
                                         rxpad' e))) :: []))
                                   | None ->
                                     let pre = [] in
                                     Some
                                     (app pre ((SetOpt (coq_SOL_CAN_ISOTP,
                                       coq_CAN_ISOTP_OPTS,
                                       (pack_opts flags0 txtime ext' txpad'
                                         rxpad' e))) :: [])))
                                | None -> None)
                             | None ->
                               let rxext' = k.k_rxext in
                               (match chk txstmin (Zpos (Coq_xI (Coq_xI
                                        (Coq_xI (Coq_xI (Coq_xI (Coq_xI
                                        (Coq_xI (Coq_xI (Coq_xI (Coq_xI
                                        (Coq_xI (Coq_xI (Coq_xI (Coq_xI
                                        (Coq_xI (Coq_xI (Coq_xI (Coq_xI
                                        (Coq_xI (Coq_xI (Coq_xI (Coq_xI
                                        (Coq_xI (Coq_xI (Coq_xI (Coq_xI
                                        (Coq_xI (Coq_xI (Coq_xI (Coq_xI
                                        (Coq_xI
                                        Coq_xH)))))))))))))))))))))))))))))))) with
                                | Some ost ->
                                  (match ost with
                                   | Some v ->
                                     let pre = (SetOpt (coq_SOL_CAN_ISOTP,
                                       coq_CAN_ISOTP_TX_STMIN,
                                       (le32 v))) :: []
                                     in
                                     let flags0 =
                                       Z.coq_lor flags coq_F_FORCE_TXSTMIN
                                     in
                                     Some
                                     (app pre ((SetOpt (coq_SOL_CAN_ISOTP,
                                       coq_CAN_ISOTP_OPTS,
                                       (pack_opts flags0 txtime ext' txpad'
                                         rxpad' rxext'))) :: []))
                                   | None ->
                                     let pre = [] in
                                     Some
                                     (app pre ((SetOpt (coq_SOL_CAN_ISOTP,
                                       coq_CAN_ISOTP_OPTS,
                                       (pack_opts flags txtime ext' txpad'
                                         rxpad' rxext'))) :: [])))
                                | None -> None))
                          | None -> None))
                    | None -> None))
              | None -> None))
        | None -> None)
     | None -> None)
  | None -> None

(** val fc_write : kstate -> pyv -> pyv -> pyv -> sockcall list option **)

let fc_write k bs stmin wftmax =
  match chk bs (Zpos (Coq_xI (Coq_xI (Coq_xI (Coq_xI (Coq_xI (Coq_xI (Coq_xI
          Coq_xH)))))))) with
  | Some obs ->
    (match chk stmin (Zpos (Coq_xI (Coq_xI (Coq_xI (Coq_xI (Coq_xI (Coq_xI
             (Coq_xI Coq_xH)))))))) with
     | Some ost ->
       (match chk wftmax (Zpos (Coq_xI (Coq_xI (Coq_xI (Coq_xI (Coq_xI
                (Coq_xI (Coq_xI Coq_xH)))))))) with
        | Some ow ->
          Some ((SetOpt (coq_SOL_CAN_ISOTP, coq_CAN_ISOTP_RECV_FC,
            ((match obs with
              | Some x -> x
              | None -> k.k_bs) :: ((match ost with
                                     | Some x -> x
                                     | None -> k.k_stmin) :: ((match ow with
                                                               | Some x -> x
                                                               | None ->
                                                                 k.k_wft) :: []))))) :: [])
        | None -> None)
     | None -> None)
  | None -> None

(** val ll_write : kstate -> pyv -> pyv -> pyv -> sockcall list option **)

let ll_write k mtu txdl flags =
  match chk mtu (Zpos (Coq_xI (Coq_xI (Coq_xI (Coq_xI (Coq_xI (Coq_xI (Coq_xI
          Coq_xH)))))))) with
  | Some om ->
    (match chk txdl (Zpos (Coq_xI (Coq_xI (Coq_xI (Coq_xI (Coq_xI (Coq_xI
             (Coq_xI Coq_xH)))))))) with
     | Some od ->
       (match chk flags (Zpos (Coq_xI (Coq_xI (Coq_xI (Coq_xI (Coq_xI (Coq_xI
                (Coq_xI Coq_xH)))))))) with
        | Some ofl ->
          Some ((SetOpt (coq_SOL_CAN_ISOTP, coq_CAN_ISOTP_LL_OPTS,
            ((match om with
              | Some x -> x
              | None -> k.k_mtu) :: ((match od with
                                      | Some x -> x
                                      | None -> k.k_txdl) :: ((match ofl with
                                                               | Some x -> x
                                                               | None ->
                                                                 k.k_llflags) :: []))))) :: [])
        | None -> None)
     | None -> None)
  | None -> None

type wsock = { w_k : kstate; w_bound : bool; w_closed : bool }

(** val wsock0 : wsock **)

let wsock0 =
  { w_k = kinit; w_bound = false; w_closed = false }

type wres =
| ROk of sockcall list
| RValueError
| RRuntimeError

(** val apply_res : wsock -> sockcall list option -> wsock * wres **)

let apply_res w = function
| Some calls ->
  ({ w_k = (kapply_all w.w_k calls); w_bound = w.w_bound; w_closed =
    w.w_closed }, (ROk calls))
| None -> (w, RValueError)

(** val w_set_opts :
    wsock -> pyv -> pyv -> pyv -> pyv -> pyv -> pyv -> pyv -> wsock * wres **)

let w_set_opts w a1 a2 a3 a4 a5 a6 a7 =
  if w.w_bound
  then (w, RRuntimeError)
  else apply_res w (general_write w.w_k a1 a2 a3 a4 a5 a6 a7)

(** val w_set_fc_opts : wsock -> pyv -> pyv -> pyv -> wsock * wres **)

let w_set_fc_opts w a1 a2 a3 =
  if w.w_bound
  then (w, RRuntimeError)
  else apply_res w (fc_write w.w_k a1 a2 a3)

(** val w_set_ll_opts : wsock -> pyv -> pyv -> pyv -> wsock * wres **)

let w_set_ll_opts w a1 a2 a3 =
  if w.w_bound
  then (w, RRuntimeError)
  else apply_res w (ll_write w.w_k a1 a2 a3)

(** val opt_pyv : coq_Z option -> pyv **)

let opt_pyv = function
| Some z -> VInt z
| None -> VNone

(** val w_bind : wsock -> addr -> addr -> bool -> wsock * wres **)

let w_bind w txa rxa asymmetric =
  if (&&) asymmetric
       (negb (eqb (requires_ext_byte rxa) (requires_ext_byte txa)))
  then (w, RValueError)
  else let rxid = rx_arb_id rxa Physical in
       let txid = tx_arb_id txa Physical in
       let rxid' =
         if is29 rxa.a_mode
         then Z.coq_lor (Z.coq_land rxid coq_CAN_EFF_MASK) coq_CAN_EFF_FLAG
         else Z.coq_land rxid coq_CAN_SFF_MASK
       in
       let txid' =
         if is29 txa.a_mode
         then Z.coq_lor (Z.coq_land txid coq_CAN_EFF_MASK) coq_CAN_EFF_FLAG
         else Z.coq_land txid coq_CAN_SFF_MASK
       in
       let k = w.w_k in
       let opts =
         if (||) (requires_ext_byte txa) (requires_ext_byte rxa)
         then let f1 =
                if requires_ext_byte txa
                then Z.coq_lor k.k_flags coq_F_EXTEND_ADDR
                else k.k_flags
              in
              let f2 =
                if requires_ext_byte rxa
                then Z.coq_lor f1 coq_F_RX_EXT_ADDR
                else f1
              in
              Some
              (w_set_opts w (VInt f2) VNone (opt_pyv (tx_ext_byte txa)) VNone
                VNone (opt_pyv (rx_ext_byte rxa)) VNone)
         else if has_flag k.k_flags
                   (Z.coq_lor coq_F_EXTEND_ADDR coq_F_RX_EXT_ADDR)
              then Some
                     (w_set_opts w (VInt
                       (Z.coq_land k.k_flags
                         (Z.lnot
                           (Z.coq_lor coq_F_EXTEND_ADDR coq_F_RX_EXT_ADDR))))
                       VNone VNone VNone VNone VNone VNone)
              else None
       in
       (match opts with
        | Some p ->
          let (w1, w0) = p in
          (match w0 with
           | ROk calls ->
             ({ w_k = (kapply w1.w_k (Bind (rxid', txid'))); w_bound = true;
               w_closed = w1.w_closed }, (ROk
               (app calls ((Bind (rxid', txid')) :: []))))
           | x -> (w1, x))
        | None ->
          ({ w_k = (kapply k (Bind (rxid', txid'))); w_bound = true;
            w_closed = w.w_closed }, (ROk ((Bind (rxid', txid')) :: []))))

(** val w_send : wsock -> wres **)

let w_send w =
  if w.w_bound then ROk [] else RRuntimeError

(** val w_recv : wsock -> wres **)

let w_recv w =
  if w.w_bound then ROk [] else RRuntimeError

(** val w_close : wsock -> wsock **)

let w_close w =
  { w_k = w.w_k; w_bound = false; w_closed = true }
