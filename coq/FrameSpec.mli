open BinInt
open BinNums
open Types

val dlc_table : coq_Z -> coq_Z

val next_fd : coq_Z -> coq_Z

val pad_target : params -> coq_Z -> coq_Z

val pad_byte : params -> coq_Z
