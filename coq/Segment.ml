open AddrSpec
open Address
open BinInt
open BinNums
open Datatypes
open FrameSpec
open List
open Prelude
open Types

(** val spec_frame : cfg -> coq_Z -> coq_Z list -> frame **)

let spec_frame c =
  let p = c.c_p in
  (fun id d ->
  let n = pad_target p (zlen d) in
  { f_id = id; f_ext = (mode29 c.c_txa.a_mode); f_data =
  (app d (zrepeat (pad_byte p) (Z.sub n (zlen d)))); f_dlc = (dlc_table n);
  f_fd = p.p_can_fd; f_brs = p.p_brs })

(** val sf_short_ok : cfg -> coq_Z -> bool **)

let sf_short_ok c =
  let p = c.c_p in
  let pfx = tx_prefix c.c_txa in
  let plen = zlen pfx in
  (fun n ->
  (&&)
    (Z.leb (Z.add (Z.add plen (Zpos Coq_xH)) n) (Zpos (Coq_xO (Coq_xO (Coq_xO
      Coq_xH)))))
    (Z.leb (pad_target p (Z.add (Z.add plen (Zpos Coq_xH)) n)) (Zpos (Coq_xO
      (Coq_xO (Coq_xO Coq_xH))))))

(** val sf_escape_ok : cfg -> coq_Z -> bool **)

let sf_escape_ok c =
  let p = c.c_p in
  let pfx = tx_prefix c.c_txa in
  let plen = zlen pfx in
  let tx_dl = p.p_tx_dl in
  (fun n ->
  (&&) (Z.ltb (Zpos (Coq_xO (Coq_xO (Coq_xO Coq_xH)))) tx_dl)
    (Z.leb (Z.add (Z.add plen (Zpos (Coq_xO Coq_xH))) n) tx_dl))

(** val ff_cap : cfg -> coq_Z -> coq_Z **)

let ff_cap c =
  let p = c.c_p in
  let pfx = tx_prefix c.c_txa in
  let plen = zlen pfx in
  let tx_dl = p.p_tx_dl in
  (fun n ->
  if Z.leb n (Zpos (Coq_xI (Coq_xI (Coq_xI (Coq_xI (Coq_xI (Coq_xI (Coq_xI
       (Coq_xI (Coq_xI (Coq_xI (Coq_xI Coq_xH))))))))))))
  then Z.sub (Z.sub tx_dl (Zpos (Coq_xO Coq_xH))) plen
  else Z.sub (Z.sub tx_dl (Zpos (Coq_xO (Coq_xI Coq_xH)))) plen)

(** val cf_cap : cfg -> coq_Z **)

let cf_cap c =
  let p = c.c_p in
  let pfx = tx_prefix c.c_txa in
  let plen = zlen pfx in
  let tx_dl = p.p_tx_dl in Z.sub (Z.sub tx_dl (Zpos Coq_xH)) plen

(** val ff_header : coq_Z -> coq_Z list **)

let ff_header n =
  if Z.leb n (Zpos (Coq_xI (Coq_xI (Coq_xI (Coq_xI (Coq_xI (Coq_xI (Coq_xI
       (Coq_xI (Coq_xI (Coq_xI (Coq_xI Coq_xH))))))))))))
  then (Z.add (Zpos (Coq_xO (Coq_xO (Coq_xO (Coq_xO Coq_xH)))))
         (Z.div n (Zpos (Coq_xO (Coq_xO (Coq_xO (Coq_xO (Coq_xO (Coq_xO
           (Coq_xO (Coq_xO Coq_xH))))))))))) :: ((Z.modulo n (Zpos (Coq_xO
                                                   (Coq_xO (Coq_xO (Coq_xO
                                                   (Coq_xO (Coq_xO (Coq_xO
                                                   (Coq_xO Coq_xH)))))))))) :: [])
  else (Zpos (Coq_xO (Coq_xO (Coq_xO (Coq_xO
         Coq_xH))))) :: (Z0 :: ((Z.modulo
                                  (Z.div n (Zpos (Coq_xO (Coq_xO (Coq_xO
                                    (Coq_xO (Coq_xO (Coq_xO (Coq_xO (Coq_xO
                                    (Coq_xO (Coq_xO (Coq_xO (Coq_xO (Coq_xO
                                    (Coq_xO (Coq_xO (Coq_xO (Coq_xO (Coq_xO
                                    (Coq_xO (Coq_xO (Coq_xO (Coq_xO (Coq_xO
                                    (Coq_xO Coq_xH))))))))))))))))))))))))))
                                  (Zpos (Coq_xO (Coq_xO (Coq_xO (Coq_xO
                                  (Coq_xO (Coq_xO (Coq_xO (Coq_xO
                                  Coq_xH)))))))))) :: ((Z.modulo
                                                         (Z.div n (Zpos
                                                           (Coq_xO (Coq_xO
                                                           (Coq_xO (Coq_xO
                                                           (Coq_xO (Coq_xO
                                                           (Coq_xO (Coq_xO
                                                           (Coq_xO (Coq_xO
                                                           (Coq_xO (Coq_xO
                                                           (Coq_xO (Coq_xO
                                                           (Coq_xO (Coq_xO
                                                           Coq_xH))))))))))))))))))
                                                         (Zpos (Coq_xO
                                                         (Coq_xO (Coq_xO
                                                         (Coq_xO (Coq_xO
                                                         (Coq_xO (Coq_xO
                                                         (Coq_xO
                                                         Coq_xH)))))))))) :: (
         (Z.modulo
           (Z.div n (Zpos (Coq_xO (Coq_xO (Coq_xO (Coq_xO (Coq_xO (Coq_xO
             (Coq_xO (Coq_xO Coq_xH)))))))))) (Zpos (Coq_xO (Coq_xO (Coq_xO
           (Coq_xO (Coq_xO (Coq_xO (Coq_xO (Coq_xO Coq_xH)))))))))) :: (
         (Z.modulo n (Zpos (Coq_xO (Coq_xO (Coq_xO (Coq_xO (Coq_xO (Coq_xO
           (Coq_xO (Coq_xO Coq_xH)))))))))) :: [])))))

(** val cf_data : cfg -> coq_Z list -> coq_Z -> coq_Z list **)

let cf_data c =
  let pfx = tx_prefix c.c_txa in
  (fun payload j ->
  let n = zlen payload in
  app pfx
    (app
      ((Z.add (Zpos (Coq_xO (Coq_xO (Coq_xO (Coq_xO (Coq_xO Coq_xH))))))
         (Z.modulo j (Zpos (Coq_xO (Coq_xO (Coq_xO (Coq_xO Coq_xH))))))) :: [])
      (ztake (cf_cap c)
        (zdrop
          (Z.add (ff_cap c n) (Z.mul (Z.sub j (Zpos Coq_xH)) (cf_cap c)))
          payload))))

(** val n_cf : cfg -> coq_Z -> coq_Z **)

let n_cf c n =
  Z.div (Z.sub (Z.add (Z.sub n (ff_cap c n)) (cf_cap c)) (Zpos Coq_xH))
    (cf_cap c)

(** val zseq : coq_Z -> coq_Z -> coq_Z list **)

let zseq from count =
  map Z.of_nat (seq (Z.to_nat from) (Z.to_nat count))

(** val seg : cfg -> tat -> coq_Z list -> frame list **)

let seg c =
  let pfx = tx_prefix c.c_txa in
  (fun t payload ->
  let n = zlen payload in
  let idp = tx_arb_id c.c_txa Physical in
  if sf_short_ok c n
  then (spec_frame c (tx_arb_id c.c_txa t) (app pfx (app (n :: []) payload))) :: []
  else if sf_escape_ok c n
       then (spec_frame c (tx_arb_id c.c_txa t)
              (app pfx (app (Z0 :: (n :: [])) payload))) :: []
       else (spec_frame c idp
              (app pfx (app (ff_header n) (ztake (ff_cap c n) payload)))) :: 
              (map (fun j -> spec_frame c idp (cf_data c payload j))
                (zseq (Zpos Coq_xH) (n_cf c n))))
